#!/venv/bin/python
"""Confirm sub-agent seeded mutants and run the checks against them.
usage: selftest/run_seeded.py Cxx [k ...] [--checks Cyy,Czz] [--tier quick]
For /tmp/seed_Cxx/seed/patchK.diff: (1) in the scratch worktree verify that the demo exits 1 with the
patch and 0 without, and that the baseline still passes with it; (2) apply it to /repo, run the checks,
undo; (3) store patch, demo, meta under /verif/seeded/Cxx_K/."""
import json
import os
import shutil
import subprocess
import sys

VERIF = os.path.dirname(os.path.dirname(os.path.abspath(__file__)))
# the tree the checks look at (a private worktree when several runners work side by side on copies of /verif)
REPO = os.environ.get('VERIF_REPO', '/repo')
SEEDED = os.environ.get('SEEDED_DIR', os.path.join(VERIF, 'seeded'))


def sh(cmd, cwd=None, env=None, timeout=3000):
    e = dict(os.environ)
    e.pop('EOS_VERIF', None)
    if env:
        e.update(env)
    p = subprocess.run(cmd, shell=True, cwd=cwd, env=e, stdout=subprocess.PIPE, stderr=subprocess.STDOUT,
                       text=True, timeout=timeout)
    return p.returncode, '\n'.join(l for l in p.stdout.splitlines() if 'conda' not in l)


def main():
    args = sys.argv[1:]
    pid = args[0]
    checks = [pid]
    tier = 'quick'
    ks = []
    it = iter(args[1:])
    for a in it:
        if a == '--checks':
            checks = next(it).split(',')
        elif a == '--tier':
            tier = next(it)
        else:
            ks.append(int(a))
    wt = '/tmp/seed_' + pid
    made_wt = False
    if not os.path.isdir(wt):
        # no agent worktree around any more: confirm in a scratch worktree of /repo's HEAD, removed afterwards
        sh('git -C /repo worktree add --detach %s HEAD' % wt)
        made_wt = True
    for k in ks or (1, 2, 3, 4):
        patch = os.path.join(wt, 'seed', 'patch%d.diff' % k)
        demo = 'seed/demo%d.py' % k
        stored = os.path.join(SEEDED, '%s_%d' % (pid, k))
        if not os.path.exists(patch) and os.path.exists(os.path.join(stored, 'patch.diff')):
            # restore the stored change into the scratch worktree
            os.makedirs(os.path.join(wt, 'seed'), exist_ok=True)
            shutil.copy(os.path.join(stored, 'patch.diff'), patch)
            shutil.copy(os.path.join(stored, 'demo.py'), os.path.join(wt, demo))
        if not os.path.exists(patch):
            continue
        res = {'property': pid, 'k': k}
        sh('git checkout -- eos', cwd=wt)
        rc0, _ = sh('PYTHONPATH=%s /venv/bin/python %s' % (wt, demo), cwd=wt)
        rca, out = sh('git apply %s' % patch, cwd=wt)
        rc1, dout = sh('PYTHONPATH=%s /venv/bin/python %s' % (wt, demo), cwd=wt)
        rcb, bout = sh('%s %s' % (os.path.join(VERIF, 'harness', 'baseline.py'), wt))
        sh('git checkout -- eos', cwd=wt)
        res['demo_without'] = rc0
        res['demo_with'] = rc1
        res['baseline_with'] = bout.splitlines()[-1] if bout else ''
        res['confirmed'] = (rc0 == 0 and rc1 == 1 and rca == 0 and 'missing: 0' in bout)
        res['checks'] = {}
        if res['confirmed']:
            rc, out = sh('git -C %s apply %s' % (REPO, patch))
            if rc != 0:
                res['apply_to_repo'] = out[-500:]
            else:
                try:
                    for c in checks:
                        rc, out = sh('./check %s --tier %s' % (c, tier), cwd=VERIF, timeout=7200)
                        viol = [l for l in out.splitlines() if l.startswith('VIOLATION')]
                        fails = ''
                        if viol:
                            rp = viol[0].split('replay=')[1].split()[0]
                            try:
                                r = json.load(open(rp))
                                fails = str(r.get('fails') or r.get('broken') or '')[:600]
                            except Exception:
                                pass
                        res['checks'][c] = {'exit': rc, 'violation': viol[:1], 'fails': fails,
                                            'tail': out.splitlines()[-1:] if out else []}
                finally:
                    sh('git -C %s checkout -- .' % REPO)
        d = os.path.join(SEEDED, '%s_%d' % (pid, k))
        os.makedirs(d, exist_ok=True)
        if os.path.abspath(patch) != os.path.abspath(os.path.join(d, 'patch.diff')):
            shutil.copy(patch, os.path.join(d, 'patch.diff'))
            shutil.copy(os.path.join(wt, demo), os.path.join(d, 'demo.py'))
        meta = {}
        mp = os.path.join(wt, 'seed', 'meta%d.json' % k)
        if os.path.exists(os.path.join(d, 'meta.json')) and not os.path.exists(mp):
            try:
                meta = json.load(open(os.path.join(d, 'meta.json')))
            except Exception:
                meta = {}
        if os.path.exists(mp):
            try:
                meta = json.load(open(mp))
            except Exception:
                meta = {'raw': open(mp).read()[:2000]}
        meta['verification'] = res
        json.dump(meta, open(os.path.join(d, 'meta.json'), 'w'), indent=1)
        print(json.dumps(res, indent=1))
    if made_wt:
        sh('git -C /repo worktree remove --force %s' % wt)


main()
