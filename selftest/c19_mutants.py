#!/venv/bin/python
"""Self-test of the C19 check: seeded mutants of the modifier-info conversion.
usage: selftest/c19_mutants.py [mutant names...]
Creates a scratch worktree of /repo under /verif/.work/c19/wt, applies one
mutant at a time, runs `VERIF_REPO=<worktree> ./check C19` (expects exit 1 and
a VIOLATION line whose replay fails on the mutant and passes on /repo), then
runs the check on the unmodified worktree (expects exit 0) and removes the
worktree. Exit status 0 when every mutant was caught."""
import sys, subprocess, json, os, re, shutil
WT = '/verif/.work/c19/wt'
MI = 'eos/eve_obj_builder/mod_builder/converter/mod_info.py'
BU = 'eos/eve_obj_builder/mod_builder/builder.py'
BA = 'eos/eve_obj/modifier/base.py'
MUT = {
 'M1_domain_map_other_to_self': (MI, "'otherID': ModDomain.other}", "'otherID': ModDomain.self}"),
 'M2_status_ignores_validation_failures': (BU, "if not fails and not valid_fails:", "if not fails:"),
 'M3_status_partial_on_wrong_count': (BU, "            if valid_mods:\n", "            if valid_fails:\n"),
 'M4_owner_handler_reads_groupID': (MI, """            affectee_filter=ModAffecteeFilter.owner_skillrq,
            affectee_domain=cls._get_domain(mod_info),
            affectee_filter_extra_arg=cls._get_int(mod_info, 'skillTypeID'),""", """            affectee_filter=ModAffecteeFilter.owner_skillrq,
            affectee_domain=cls._get_domain(mod_info),
            affectee_filter_extra_arg=cls._get_int(mod_info, 'groupID'),"""),
 'M5_domain_validator_allows_other': (BA, """    def __validate_affectee_filter_domain(self):
        return all((
            self.affectee_filter_extra_arg is None,
            self.affectee_domain in (
                ModDomain.self, ModDomain.character,
                ModDomain.ship, ModDomain.target)))""", """    def __validate_affectee_filter_domain(self):
        return all((
            self.affectee_filter_extra_arg is None,
            self.affectee_domain in (
                ModDomain.self, ModDomain.character,
                ModDomain.ship, ModDomain.target, ModDomain.other)))"""),
 'M6_operator_map_5_to_immune': (MI, "5: ModOperator.post_div,", "5: ModOperator.post_mul_immune,"),
 'M7_unknown_func_not_counted': (MI, """            except (KeyError, TypeError):
                fails += 1
            else:""", """            except (KeyError, TypeError):
                pass
            else:"""),
 'M8_validation_skipped': (BU, "            if mod._valid:", "            if mod._valid or True:"),
 'M9_affector_reads_modified_key': (MI, """            affectee_filter=ModAffecteeFilter.domain_group,
            affectee_domain=cls._get_domain(mod_info),
            affectee_filter_extra_arg=cls._get_int(mod_info, 'groupID'),
            affectee_attr_id=cls._get_int(mod_info, 'modifiedAttributeID'),
            operator=cls._get_operator(mod_info),
            aggregate_mode=ModAggregateMode.stack,
            affector_attr_id=cls._get_int(mod_info, 'modifyingAttributeID'))""", """            affectee_filter=ModAffecteeFilter.domain_group,
            affectee_domain=cls._get_domain(mod_info),
            affectee_filter_extra_arg=cls._get_int(mod_info, 'groupID'),
            affectee_attr_id=cls._get_int(mod_info, 'modifiedAttributeID'),
            operator=cls._get_operator(mod_info),
            aggregate_mode=ModAggregateMode.stack,
            affector_attr_id=cls._get_int(mod_info, 'modifiedAttributeID'))"""),
}
MUT['M10_init_stores_wrong_field'] = ('eos/eve_obj/modifier/dogma.py', "        self.affector_attr_id = affector_attr_id\n", "        self.affector_attr_id = affectee_attr_id\n")
MUT['M11_int_helper_accepts_none'] = (MI, "        value = mod_info[key]\n", "        value = mod_info.get(key, 0)\n")
names = sys.argv[1:] or list(MUT)
os.makedirs(os.path.dirname(WT), exist_ok=True)
subprocess.run(['git', '-C', '/repo', 'worktree', 'remove', '--force', WT],
               stdout=subprocess.DEVNULL, stderr=subprocess.DEVNULL)
subprocess.run(['git', '-C', '/repo', 'worktree', 'add', '--detach', WT, 'HEAD'], check=True,
               stdout=subprocess.DEVNULL, stderr=subprocess.DEVNULL)
caught = 0
for n in names:
    rel, old, new = MUT[n]
    p = os.path.join(WT, rel)
    s = open(p).read()
    assert s.count(old) == 1, (n, s.count(old))
    open(p, 'w').write(s.replace(old, new))
    try:
        r = subprocess.run(['./check', 'C19'], cwd='/verif', env=dict(os.environ, VERIF_REPO=WT),
                           stdout=subprocess.PIPE, stderr=subprocess.STDOUT, text=True)
        lines = [l for l in r.stdout.splitlines() if 'conda' not in l]
        print('=====', n, 'exit', r.returncode)
        ok = r.returncode == 1
        for l in lines[-3:]:
            print('  ', l)
        m = re.search(r'replay=(\S+)', r.stdout)
        if m:
            rp = json.load(open(m.group(1)))
            print('   case :', json.dumps(rp.get('case'))[:400])
            print('   impl :', rp.get('impl'))
            print('   fails:', rp.get('fails'))
            print('   broken:', [b[:200].replace('\n', ' ') for b in rp.get('broken', [])])
            rr = subprocess.run(['./check', 'C19', '--replay', m.group(1)], cwd='/verif',
                                env=dict(os.environ, VERIF_REPO=WT), stdout=subprocess.PIPE,
                                stderr=subprocess.STDOUT, text=True)
            print('   replay on mutant exit', rr.returncode, '|', [l for l in rr.stdout.splitlines() if l.startswith('oracle')])
            ok = ok and rr.returncode == 1
            rr = subprocess.run(['./check', 'C19', '--replay', m.group(1)], cwd='/verif',
                                stdout=subprocess.PIPE, stderr=subprocess.STDOUT, text=True)
            print('   replay on /repo  exit', rr.returncode)
            ok = ok and rr.returncode == 0 and bool(rp.get('case'))
        else:
            ok = False
        caught += ok
    finally:
        subprocess.run(['git', 'checkout', '-q', '--', '.'], cwd=WT)
r = subprocess.run(['./check', 'C19'], cwd='/verif', env=dict(os.environ, VERIF_REPO=WT),
                   stdout=subprocess.PIPE, stderr=subprocess.STDOUT, text=True)
print('===== unmodified worktree: exit', r.returncode, [l for l in r.stdout.splitlines() if l.startswith('C19')])
subprocess.run(['git', '-C', '/repo', 'worktree', 'remove', '--force', WT])
print('%d of %d mutants caught' % (caught, len(names)))
sys.exit(0 if caught == len(names) and r.returncode == 0 else 1)
