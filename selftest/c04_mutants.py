#!/venv/bin/python
"""C04 self-test: applies realistic mutations of the stats code to a scratch
worktree and runs `./check C04` against it (VERIF_REPO). Usage:
  selftest/c04_mutants.py <worktree> [name ...]      (worktree = a `git worktree` of /repo)
Each mutant must produce a VIOLATION line; the unchanged tree must not."""
import os
import subprocess
import sys

MUTANTS = {
    'dd_keyed_by_effect_id': ('eos/stats/register/dmg_dealer.py', [
        ('self.__dmg_dealers.add_data_entry(msg.item, effect)', 'self.__dmg_dealers[effect.id] = msg.item'),
        ('self.__dmg_dealers.rm_data_entry(msg.item, effect)', 'self.__dmg_dealers.pop(effect.id, None)'),
        ('for item in self.__dmg_dealers:', 'for item in set(self.__dmg_dealers.values()):')]),
    'bandwidth_forgets_discard': ('eos/stats/register/resource/drone_bandwidth.py', [
        ('            self.__resource_users.discard(msg.item)', '            pass')]),
    'reload_term_dropped': ('eos/eve_obj/effect/effect.py', [
        ('                CycleInfo(active_time, reload_time, final_cycles)\n            ), math.inf)',
         '                CycleInfo(active_time, forced_inactive_time, final_cycles)\n            ), math.inf)')]),
    'cpu_not_rounded_online_unchecked': ('eos/stats/register/resource/ship_regular.py', [
        ('        if (\n            self._use_effect_id in msg.effect_ids and\n            self._use_attr_id in msg.item._type_attrs\n        ):',
         '        if self._use_attr_id in msg.item._type_attrs:')]),
    'ehp_uses_absorbed': ('eos/item/mixin/tanking.py', [
        ('        return dealt / received', '        return dealt / (dealt - absorbed / 2)')]),
    'resists_applied_twice': ('eos/stats/register/dmg_dealer.py', [
        ('        return DmgStats._combine(volleys)', '        return DmgStats._combine(volleys, tgt_resists)')]),
    'launched_drones_on_active': ('eos/stats/register/slot/launched_drone.py', [
        ('    def _handle_states_deactivated(self, msg):\n        if isinstance(msg.item, Drone) and State.online in msg.states:',
         '    def _handle_states_deactivated(self, msg):\n        if isinstance(msg.item, Drone) and State.active in msg.states:')]),
}


def main():
    wt = sys.argv[1]
    names = sys.argv[2:] or list(MUTANTS)
    here = os.path.dirname(os.path.dirname(os.path.abspath(__file__)))
    for n in names:
        subprocess.run(['git', '-C', wt, 'checkout', '-q', '.'], check=True)
        if n != 'unchanged':
            rel, edits = MUTANTS[n]
            p = os.path.join(wt, rel)
            s = open(p).read()
            for a, b in edits:
                assert a in s, (n, a)
                s = s.replace(a, b)
            open(p, 'w').write(s)
        env = dict(os.environ, VERIF_REPO=wt)
        cmd = sys.argv[0:0] + [os.path.join(here, 'check'), 'C04']
        if os.environ.get('C04_MUT_CMD'):
            cmd = os.environ['C04_MUT_CMD'].split()
        r = subprocess.run(cmd, env=env, cwd=here, stdout=subprocess.PIPE, stderr=subprocess.STDOUT, text=True)
        lines = [l for l in r.stdout.splitlines() if l.startswith(('VIOLATION', 'KNOWN', 'C04 ')) or 'oracle' in l or 'DISAGREE' in l]
        print('== %s: exit %d' % (n, r.returncode))
        for l in lines[:6]:
            print('   ', l[:300])
            if l.startswith('VIOLATION'):
                import json
                rp = json.load(open(l.split('replay=')[1].split()[0]))
                print('      fails :', str(rp.get('fails'))[:260])
                print('      broken:', str(rp.get('broken'))[:260])
                if rp.get('script'):
                    print('      replay:', len(rp['script']), 'lines; last ops:',
                          [x[0] for x in rp['script'] if x[1] == 'op' and not x[0].startswith('new ')][-6:])
    subprocess.run(['git', '-C', wt, 'checkout', '-q', '.'], check=True)


main()
