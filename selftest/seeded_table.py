#!/usr/bin/env python3
"""Prints the DESIGN.md table of seeded changes for the given suffixes (e.g. 5 6)
from seeded/*/meta.json: which checks reported each change at the last stored run."""
import glob
import json
import os
import sys

here = os.path.dirname(os.path.dirname(os.path.abspath(__file__)))
ks = sys.argv[1:] or ['1', '2', '3', '4', '5', '6', '7', '8']
rows = []
for d in sorted(glob.glob(os.path.join(here, 'seeded', 'C??_*'))):
    name = os.path.basename(d)
    if name.split('_')[1] not in ks:
        continue
    m = json.load(open(os.path.join(d, 'meta.json')))
    what = (m.get('what_breaks') or m.get('description') or '').replace('|', '/').replace('\n', ' ')
    checks = (m.get('verification') or {}).get('checks') or {}
    by = [c for c, r in sorted(checks.items()) if r.get('exit') == 1 and r.get('violation')]
    if not by:
        by = m.get('caught_by') or []
        if isinstance(by, str):
            by = [by]
    rows.append((name, what, by))
print('| id | change (passes all 1288 tests) | reported by (quick tier) |')
print('|---|---|---|')
own = 0
for name, what, by in rows:
    if name[:3] in by:
        own += 1
    print('| %s | %s | %s |' % (name, what[:150] + ('…' if len(what) > 150 else ''), ', '.join(by) or 'NOT REPORTED'))
print()
print('%d changes, %d reported by the check of their own property' % (len(rows), own))
