"""C17 — the source manager rebuilds the cache exactly when it must."""
import bz2
import json
import os
import random

import common
import cachelib as cl

PROP_FILE = 'props/C17.v'
TABLES = ['cache', 'srcmgr']

V0 = '7'
VERSIONS = {'present': (V0, 1), 'none': (None, 3), 'changed': ('8', 2)}
CACHES = ['absent', 'current', 'stale', 'damaged', 'other_engine']


def engine():
    import eos
    return eos.__version__


def fmt(v, e=None):
    return '%s_%s' % (v, e or engine())


# ---------------------------------------------------------------------------
# scenarios
# ---------------------------------------------------------------------------

def initial_fp(cache, vkind):
    """fingerprint of the pre-existing cache file of the combination"""
    if cache == 'current':
        # current w.r.t. the data the cache was made from; for the 'none' axis the
        # fingerprint even equals what add() computes ("None_<engine>")
        return fmt(None if vkind == 'none' else V0)
    if cache == 'stale':
        return fmt('6')
    if cache == 'other_engine':
        return fmt(None if vkind == 'none' else (V0 if vkind == 'present' else '8'), '0.0.0.old')
    if cache == 'damaged':
        return fmt(V0)
    return None


def gen_scenarios(rng, per_combo):
    out = []
    for vkind in VERSIONS:
        for cache in CACHES:
            for k in range(per_combo):
                ver, scale = VERSIONS[vkind]
                ops = [{'op': 'add', 'alias': 'a', 'version': ver, 'scale': scale, 'h': 0,
                        'md': rng.choice([True, False, 1])}]
                live = [0, 1]
                nxt = 2
                nops = 0 if k == 0 else rng.randint(3, 9)
                if k == 1:
                    # the documented sequence: remove, add again with unchanged data
                    ops += [{'op': 'remove', 'alias': 'a'},
                            {'op': 'add', 'alias': 'a', 'version': ver, 'scale': scale, 'h': 0,
                             'md': False},
                            {'op': 'reopen', 'hnew': 2, 'hsrc': 0},
                            {'op': 'add', 'alias': 'b', 'version': ver, 'scale': scale, 'h': 2,
                             'md': False}, {'op': 'list'}]
                    nops = 0
                    live, nxt = [1, 2], 3
                for _ in range(nops):
                    r = rng.random()
                    if r < 0.45:
                        v, s = rng.choice([(ver, scale), (ver, scale), ('9', 4), (None, 5), (V0, 1)])
                        ops.append({'op': 'add', 'alias': rng.choice('abc'), 'version': v, 'scale': s,
                                    'h': rng.choice(live), 'md': rng.choice([True, False, False, 1])})
                        if rng.random() < 0.3:
                            # the persistent store refuses the write; the same call is retried afterwards
                            ops[-1]['blocked'] = True
                            ops.append(dict(ops[-1], blocked=False))
                    elif r < 0.6:
                        ops.append({'op': 'get', 'alias': rng.choice('abcd')})
                    elif r < 0.78:
                        ops.append({'op': 'remove', 'alias': rng.choice('abcd')})
                    elif r < 0.9:
                        ops.append({'op': 'list'})
                    else:
                        src = rng.choice(live)
                        ops.append({'op': 'reopen', 'hnew': nxt, 'hsrc': src})
                        live = [x for x in live if x != src] + [nxt]
                        nxt += 1
                out.append({'vkind': vkind, 'cache': cache, 'ops': ops})
    return out


# ---------------------------------------------------------------------------
# implementation
# ---------------------------------------------------------------------------

def file_state(path):
    """(fingerprint, scale) persisted at path, or None"""
    try:
        t = json.loads(bz2.decompress(open(path, 'rb').read()).decode('utf-8'))
        val = None
        for e in t['types']:
            if e[0] == 1:
                val = dict((k, v) for k, v in e[3]).get(9)
        return t['fingerprint'], (None if val is None else int(val / 100))
    except Exception:  # noqa
        return None


def run_impl(sc, wd):
    from eos.cache_handler import JsonCacheHandler
    from eos.eve_obj_builder import EveObjBuilder
    from eos.source import SourceManager
    from eos.source.exception import ExistingSourceError, UnknownSourceError
    cl.reset_source_manager()
    paths = {0: os.path.join(wd, 'h0.json.bz2'), 1: os.path.join(wd, 'h1.json.bz2')}
    for p in paths.values():
        if os.path.exists(p):
            os.remove(p)
    fp0 = initial_fp(sc['cache'], sc['vkind'])
    if fp0 is not None:
        w = JsonCacheHandler(paths[0])
        w.update_cache(EveObjBuilder.run(cl.CountingDataHandler(V0, 1)), fp0)
        if sc['cache'] == 'damaged':
            data = open(paths[0], 'rb').read()
            with open(paths[0], 'wb') as f:
                f.write(data[:len(data) // 2])
    handlers = {0: JsonCacheHandler(paths[0]), 1: JsonCacheHandler(paths[1])}
    retired = set()
    builds = 0
    obs = []
    log = []
    for op in sc['ops']:
        rec = {'op': op}
        if op['op'] == 'add':
            h = handlers[op['h']]
            dh = cl.CountingDataHandler(op['version'], op['scale'])
            rec['fp_before'] = h.get_fingerprint()
            rec['file_before'] = file_state(paths[op['h']])
            blocked = op.get('blocked') and op['h'] not in retired
            if blocked:
                # a directory sits where the cache file belongs: opening it for writing raises OSError
                pth = paths[op['h']]
                if os.path.exists(pth):
                    os.rename(pth, pth + '.kept')
                os.mkdir(pth)
            try:
                SourceManager.add(op['alias'], dh, h, make_default=op['md'])
                o = 'added:rebuilt' if dh.calls > 0 else 'added:kept'
            except ExistingSourceError:
                o = 'existing'
            except OSError:
                o = 'writefailed'
            finally:
                if blocked:
                    os.rmdir(pth)
                    if os.path.exists(pth + '.kept'):
                        os.rename(pth + '.kept', pth)
            if dh.calls > 0:
                builds += 1
            rec.update(calls=dh.calls, version_calls=dh.version_calls,
                       fp_after=h.get_fingerprint(), file_after=file_state(paths[op['h']]),
                       served=cl.served_value(h))
        elif op['op'] == 'get':
            try:
                s = SourceManager.get(op['alias'])
                hi = [i for i, x in handlers.items() if x is s.cache_handler]
                o = 'source:%s:%s' % (cl.hexs(s.alias), hi[0] if hi else '?')
            except UnknownSourceError:
                o = 'unknown'
        elif op['op'] == 'remove':
            try:
                SourceManager.remove(op['alias'])
                o = 'removed'
            except UnknownSourceError:
                o = 'unknown'
        elif op['op'] == 'list':
            o = 'list:' + ','.join(cl.hexs(a) for a in SourceManager.list())
        else:
            paths[op['hnew']] = paths[op['hsrc']]
            handlers[op['hnew']] = JsonCacheHandler(paths[op['hsrc']])
            retired.add(op['hsrc'])
            o = 'reopened'
        d = SourceManager.default
        if d is None:
            ds = 'D:-'
        else:
            hi = [i for i, x in handlers.items() if x is d.cache_handler]
            ds = 'D:%s:%s' % (cl.hexs(d.alias), hi[0] if hi else '?')
        hs = []
        for i in sorted(handlers):
            h = handlers[i]
            v = cl.served_value(h)
            mem = [cl.j_line(h.get_fingerprint()), '-' if v is None else str(int(v / 100))]
            if i in retired:
                hs.append(mem + ['*'])
            else:
                fs = file_state(paths[i])
                hs.append(mem + (['-'] if fs is None else [cl.j_line(fs[0]), str(fs[1])]))
        rec['default'] = ds
        rec['obs'] = o
        rec['list'] = list(SourceManager.list())
        log.append(rec)
        obs.append([o, ds + ' B:%d' % builds] + [' '.join(x) for x in hs])
    cl.reset_source_manager()
    return obs, log


# ---------------------------------------------------------------------------
# model
# ---------------------------------------------------------------------------

def model_line(sc):
    fp0 = initial_fp(sc['cache'], sc['vkind'])
    if fp0 is None or sc['cache'] == 'damaged':
        h0 = 'n - -'
    else:
        h0 = '%s 1 %s 1' % (cl.j_line(fp0), cl.j_line(fp0))
    toks = ['E', cl.hexs(engine()), 'H', '2', h0, 'n - -', 'O', str(len(sc['ops']))]
    retired_m = set()
    for op in sc['ops']:
        if op['op'] == 'reopen':
            retired_m.add(op['hsrc'])
        if op['op'] == 'add':
            toks += ['AB' if op.get('blocked') and op['h'] not in retired_m else 'A', cl.hexs(op['alias']),
                     '-' if op['version'] is None else cl.hexs(op['version']),
                     str(op['scale']), str(op['h']), '1' if op['md'] is True else '0']
        elif op['op'] == 'get':
            toks += ['G', cl.hexs(op['alias'])]
        elif op['op'] == 'remove':
            toks += ['R', cl.hexs(op['alias'])]
        elif op['op'] == 'list':
            toks += ['L']
        else:
            toks += ['N', str(op['hnew']), str(op['hsrc'])]
    return ' '.join(toks)


def parse_model(line, sc):
    if line.startswith('error'):
        raise common.TieBroken('model driver srcmgr', line)
    retired = set()
    nh = 2
    out = []
    steps = [s.strip() for s in line.split(' ;') if s.strip()]
    for op, s in zip(sc['ops'], steps):
        parts = [' '.join(p.split()) for p in s.split('|')]
        if op['op'] == 'reopen':
            retired.add(op['hsrc'])
            nh = max(nh, op['hnew'] + 1)
        hs = []
        for i, h in enumerate(parts[2:]):
            if i >= nh:
                continue
            t = h.split()
            hs.append(' '.join(t[:2] + ['*']) if i in retired else h)
        out.append([parts[0], parts[1]] + hs)
    return out


def compare(sc, iobs, mobs):
    if len(iobs) != len(mobs):
        return 'length'
    for k, (a, b) in enumerate(zip(iobs, mobs)):
        if a != b:
            return 'op %d (%s): impl %r, model %r' % (k, sc['ops'][k], a, b)
    return None


# ---------------------------------------------------------------------------
# direct oracle: the property text on the implementation's log
# ---------------------------------------------------------------------------

def oracle(sc, log):
    reg = {}
    order = []
    default = 'D:-'
    for k, r in enumerate(log):
        op = r['op']
        if op['op'] == 'add':
            cur = fmt(op['version'])
            if op['alias'] in reg:
                if r['obs'] != 'existing':
                    return 'op %d: second add of alias %r did not raise ExistingSourceError' % (k, op['alias'])
                if r['calls'] or r['version_calls'] or r['fp_after'] != r['fp_before']:
                    return 'op %d: add of an existing alias had side effects before raising' % k
            elif r['obs'] == 'writefailed':
                # the store refused the write: the call failed as a whole, nothing may remember it
                if not op.get('blocked'):
                    return 'op %d: add raised OSError although the cache path is writable' % k
                if r['fp_after'] != r['fp_before'] or r['file_after'] != r['file_before']:
                    return ('op %d: add failed (the cache could not be written) but left fingerprint %r '
                            '(before %r), persisted %r (before %r)' % (
                                k, r['fp_after'], r['fp_before'], r['file_after'], r['file_before']))
            else:
                if r['obs'] == 'existing':
                    return 'op %d: fresh alias rejected' % k
                must = op['version'] is None or r['fp_before'] != cur
                did = r['calls'] > 0
                if must != did:
                    return ('op %d: add %s the cache although data version=%r, cache fingerprint=%r, '
                            'current=%r' % (k, 'rebuilt' if did else 'did not rebuild',
                                            op['version'], r['fp_before'], cur))
                if r['fp_after'] != cur:
                    return 'op %d: fingerprint after add is %r, current is %r' % (k, r['fp_after'], cur)
                if did and (r['file_after'] is None or r['file_after'][0] != cur or
                            r['file_after'][1] != op['scale'] or r['served'] != 100.0 * op['scale']):
                    return ('op %d: after a rebuild the cache does not hold the current data '
                            '(file %r, served %r)' % (k, r['file_after'], r['served']))
                reg[op['alias']] = op['h']
                order.append(op['alias'])
                if op['md'] is True:
                    default = 'D:%s:%s' % (cl.hexs(op['alias']), op['h'])
        elif op['op'] == 'get':
            want = 'source:%s:%s' % (cl.hexs(op['alias']), reg[op['alias']]) \
                if op['alias'] in reg else 'unknown'
            if r['obs'] != want:
                return 'op %d: get gave %s, expected %s' % (k, r['obs'], want)
        elif op['op'] == 'remove':
            want = 'removed' if op['alias'] in reg else 'unknown'
            if r['obs'] != want:
                return 'op %d: remove gave %s, expected %s' % (k, r['obs'], want)
            if op['alias'] in reg:
                del reg[op['alias']]
                order.remove(op['alias'])
        if r['list'] != order:
            return 'op %d: list() is %r, added and not removed: %r' % (k, r['list'], order)
        if r['default'] != default:
            return 'op %d: default source is %s, requested %s' % (k, r['default'], default)
    return None


# ---------------------------------------------------------------------------

def write_dump(path, version, scale, rng):
    """a Phobos-style JSON dump holding the tables of cl.CountingDataHandler; the metadata rows in random order"""
    dh = cl.CountingDataHandler(version, scale)

    def put(miner, name, obj):
        d = os.path.join(path, miner)
        os.makedirs(d, exist_ok=True)
        with open(os.path.join(d, name + '.json'), 'w') as f:
            json.dump(obj, f)
    put('fsd_binary', 'types', {str(r['typeID']): r for r in dh.get_evetypes()})
    put('fsd_binary', 'groups', {str(r['groupID']): r for r in dh.get_evegroups()})
    put('fsd_binary', 'dogmaattributes', {str(r['attributeID']): r for r in dh.get_dgmattribs()})
    put('fsd_binary', 'dogmaeffects', {str(r['effectID']): r for r in dh.get_dgmeffects()})
    td = {}
    for r in dh.get_dgmtypeattribs():
        td.setdefault(str(r['typeID']), {}).setdefault('dogmaAttributes', []).append(
            {'attributeID': r['attributeID'], 'value': r['value']})
    for r in dh.get_dgmtypeeffects():
        td.setdefault(str(r['typeID']), {}).setdefault('dogmaEffects', []).append(
            {'effectID': r['effectID'], 'isDefault': r['isDefault']})
    put('fsd_binary', 'typedogma', td)
    put('fsd_binary', 'requiredskillsfortypes', {})
    put('fsd_lite', 'dbuffcollections', {str(r['buffID']): {k: v for k, v in r.items() if k != 'buffID'}
                                         for r in dh.get_dbuffcollections()})
    put('fsd_lite', 'fighterabilitiesbytype', {})
    meta = [{'field_name': 'dump_time', 'field_value': 1500000000},
            {'field_name': 'client_build', 'field_value': version},
            {'field_name': 'server', 'field_value': 'tq'}]
    if version is None:
        meta = [m for m in meta if m['field_name'] != 'client_build']
    rng.shuffle(meta)
    put('phobos', 'metadata', meta)
    return [m['field_name'] for m in meta]


def dump_oracle(wd, rng, n):
    """the real JSON data handler on generated dumps: the data version is the client build the dump's metadata
    states, wherever it stands in the list; adding twice with unchanged data builds once. -> None | why"""
    import shutil
    import eos
    from eos.cache_handler import JsonCacheHandler
    from eos.data_handler import JsonDataHandler
    from eos.source import SourceManager

    class Counting(JsonDataHandler):
        calls = 0

        def get_evetypes(self):
            Counting.calls += 1
            return JsonDataHandler.get_evetypes(self)
    for k in range(n):
        dump = os.path.join(wd, 'dump')
        cache = os.path.join(wd, 'dump_cache.json.bz2')
        shutil.rmtree(dump, ignore_errors=True)
        if os.path.exists(cache):
            os.remove(cache)
        version = rng.choice([1795357, 1800000 + k, '1795357', None])
        order = write_dump(dump, version, 1 + k % 3, rng)
        cl.reset_source_manager()
        try:
            got = Counting(dump).get_version()
            if got != version:
                return 'metadata %r: get_version() is %r, the dump says client_build %r' % (order, got, version)
            Counting.calls = 0
            SourceManager.add('a', Counting(dump), JsonCacheHandler(cache))
            first = Counting.calls
            SourceManager.add('b', Counting(dump), JsonCacheHandler(cache))
            second = Counting.calls - first
            fp = JsonCacheHandler(cache).get_fingerprint()
            want = '%s_%s' % (version, eos.__version__)
            if first == 0:
                return 'metadata %r: first add did not build' % (order,)
            if version is not None and second != 0:
                return 'metadata %r: second add with unchanged data (version %r) rebuilt the cache' % (order, version)
            if fp != want:
                return 'metadata %r: persisted fingerprint %r, current is %r' % (order, fp, want)
        finally:
            cl.reset_source_manager()
    return None


def run(rep):
    rng = random.Random(rep.seed)
    per = 8 if rep.tier == 'quick' else 150
    proved = common.prove(rep, PROP_FILE, TABLES, ['extract/X_srcmgr.vo'])
    if proved and rep.tier == 'thorough':
        common.coqchk(rep, PROP_FILE)
    wd = cl.workdir('C17')
    scs = common.load_corpus('C17') + gen_scenarios(rng, per)
    res = [run_impl(sc, wd) for sc in scs]
    ndump = 12 if rep.tier == 'quick' else 300
    why_dump = dump_oracle(wd, random.Random(rep.seed + 3), ndump)
    rep.cov['json_dumps_through_real_data_handler'] = ndump
    cl.cleanup('C17')
    rep.cov['evaluations'] = sum(len(sc['ops']) for sc in scs)
    rep.cov['exhaustive'] = True
    rep.cov['exhaustive_part'] = ('all 15 combinations data version {present, None, changed} x '
                                  'cache {absent, current, stale, damaged, other engine version} '
                                  'of the first add')
    rep.cov['rule'] = (
        'real SourceManager + real JsonCacheHandler (files under .work/C17) + a counting in-memory '
        'data handler through the real EveObjBuilder; every combination of the first add, each '
        'followed by sampled sequences of add (aliases a-c, same/other/None version, two handler '
        'objects, make_default True/False/1) / get / remove / list / reopening a new handler object '
        'on the same file; after every operation: outcome, whether the data getters were invoked, '
        'default source, list(), each handler\'s fingerprint and served value, the persisted '
        'fingerprint and value; class-level state reset between scenarios; non-trivial = at least '
        'two adds; distinct by content')
    rep.cov['distinct_nontrivial'] = len({json.dumps(sc, sort_keys=True) for sc in scs
                                          if sum(1 for o in sc['ops'] if o['op'] == 'add') >= 2})
    rep.cov['samples'] = [{'scenario': scs[k], 'impl': res[k][0]} for k in (1, len(scs) - 1)]
    hist = {}
    for _, log in res:
        for r in log:
            hist[r['obs'].split(':')[0] if not r['obs'].startswith('added') else r['obs']] = \
                hist.get(r['obs'].split(':')[0] if not r['obs'].startswith('added') else r['obs'], 0) + 1
    rep.cov['outcome_histogram'] = hist
    rep.cov['combination_table'] = {
        '%s/%s' % (sc['vkind'], sc['cache']): res[k][0][0][0]
        for k, sc in enumerate(scs) if len(sc['ops']) == 1}
    disagreements = []
    try:
        exe = common.build_driver('srcmgr')
        out = common.run_driver(exe, [model_line(sc) for sc in scs])
        for k, sc in enumerate(scs):
            d = compare(sc, res[k][0], parse_model(out[k], sc))
            if d:
                disagreements.append((k, d))
        rep.cov['traces_validated_against_impl'] = len(scs)
    except common.TieBroken as e:
        rep.broken.append('%s: %s' % (e.what, e.detail))
    finish(rep, scs, res, disagreements)
    if why_dump and not rep.violations:
        rep.violation({'kind': 'dump', 'fails': why_dump, 'seed': rep.seed + 3, 'n': ndump})


def finish(rep, scs, res, disagreements):
    if not rep.broken and not disagreements:
        return
    order = [k for k, _ in disagreements] + list(range(len(scs)))
    seen = set()
    best = None
    for k in order:
        if k in seen:
            continue
        seen.add(k)
        why = oracle(scs[k], res[k][1])
        if why and (best is None or len(scs[k]['ops']) < best[0]):
            best = (len(scs[k]['ops']), k, why)
    if best:
        _, k, why = best
        rep.violation({'kind': 'input', 'case': scs[k], 'fails': why, 'broken': rep.broken,
                       'impl': res[k][0],
                       'disagreement': next((d for kk, d in disagreements if kk == k), None)})
        return
    rep.violation({'kind': 'obligation', 'broken': rep.broken,
                   'disagreements': [{'case': scs[k], 'what': d} for k, d in disagreements[:3]]},
                  found_input=False)


def replay_dump(r):
    wd = cl.workdir('C17')
    why = dump_oracle(wd, random.Random(r['seed']), r['n'])
    cl.cleanup('C17')
    print('oracle:', why or 'property holds on these dumps')
    return 1 if why else 0


def replay(path):
    r = json.load(open(path))
    if r.get('kind') == 'dump':
        return replay_dump(r)
    if 'case' not in r:
        print(json.dumps(r, indent=1)[:3000])
        return 1
    wd = cl.workdir('C17')
    obs, log = run_impl(r['case'], wd)
    cl.cleanup('C17')
    for op, o in zip(r['case']['ops'], obs):
        print(op, '->', o)
    why = oracle(r['case'], log)
    print('oracle:', why or 'property holds on this input')
    return 1 if why else 0
