"""Translator for C03: eos/restriction/service.py, restriction/restriction/**,
the stat registers the restrictions read (stats/register/resource, /slot) and
the slot counters of stats/service.py  ->  coq/gen/T_restr.v.

Fail-closed. For every class the *shape* of each method (its source with enum
members, class names of messages/items and numeric literals replaced by
holes) must be the pinned one (SHAPES below); what fills the holes is emitted:
per class its `type`, the subscribed message kinds (keys of `_handler_map`),
class-level attribute/effect ids, and per method the enum members and numbers
it mentions in source order; per module the constant tuples. The obligations
that these are the constants the model uses are in proofs/Restrictions_p.v."""
import ast
import hashlib

from pyast import Shape, parse, dotted, expect

ENUMS = {'AttrId': 'eos/const/eve.py', 'EffectId': 'eos/const/eve.py', 'TypeCategoryId': 'eos/const/eve.py',
         'TypeGroupId': 'eos/const/eve.py', 'State': 'eos/const/eos.py', 'Restriction': 'eos/const/eos.py'}
MSG_KINDS = {'ItemAdded': 1, 'ItemRemoved': 2, 'StatesActivated': 3, 'StatesDeactivated': 4, 'ItemLoaded': 5,
             'ItemUnloaded': 6, 'StatesActivatedLoaded': 7, 'StatesDeactivatedLoaded': 8, 'EffectsStarted': 9,
             'EffectsStopped': 10}
ITEM_CLASSES = {'Ship': 1, 'Character': 2, 'Stance': 3, 'EffectBeacon': 4, 'Skill': 5, 'Implant': 6, 'Booster': 7,
                'Subsystem': 8, 'ModuleHigh': 9, 'ModuleMid': 10, 'ModuleLow': 11, 'Rig': 12, 'Drone': 13,
                'FighterSquad': 14, 'Charge': 15, 'Autocharge': 16}

FILES = [
    ('service', 'eos/restriction/service.py'),
    ('capital_item', 'eos/restriction/restriction/capital_item.py'),
    ('charge_group', 'eos/restriction/restriction/charge_group.py'),
    ('charge_size', 'eos/restriction/restriction/charge_size.py'),
    ('charge_volume', 'eos/restriction/restriction/charge_volume.py'),
    ('drone_group', 'eos/restriction/restriction/drone_group.py'),
    ('item_class', 'eos/restriction/restriction/item_class.py'),
    ('loaded_item', 'eos/restriction/restriction/loaded_item.py'),
    ('max_group', 'eos/restriction/restriction/max_group.py'),
    ('resource', 'eos/restriction/restriction/resource.py'),
    ('rig_size', 'eos/restriction/restriction/rig_size.py'),
    ('ship_type_group', 'eos/restriction/restriction/ship_type_group.py'),
    ('skill_requirement', 'eos/restriction/restriction/skill_requirement.py'),
    ('slot_index', 'eos/restriction/restriction/slot_index.py'),
    ('state', 'eos/restriction/restriction/state.py'),
    ('sq_ordered', 'eos/restriction/restriction/slot_quantity/ordered.py'),
    ('sq_stats_assisted', 'eos/restriction/restriction/slot_quantity/stats_assisted.py'),
    ('sq_unordered', 'eos/restriction/restriction/slot_quantity/unordered.py'),
    ('st_ship_regular', 'eos/stats/register/resource/ship_regular.py'),
    ('st_drone_bandwidth', 'eos/stats/register/resource/drone_bandwidth.py'),
    ('st_dronebay_volume', 'eos/stats/register/resource/dronebay_volume.py'),
    ('st_hardpoint_effect', 'eos/stats/register/slot/hardpoint_effect.py'),
    ('st_launched_drone', 'eos/stats/register/slot/launched_drone.py'),
    ('st_fighter_squad', 'eos/stats/register/slot/fighter_squad.py'),
    ('st_service', 'eos/stats/service.py'),
]
# of stats/service.py only what the slot restrictions read
ST_SERVICE_FUNCS = ('__init__', 'high_slots', 'mid_slots', 'low_slots', 'rig_slots', 'subsystem_slots',
                    'fighter_squads', '__get_slot_stats')


def enum_table(repo):
    known = {}
    for name, rel in ENUMS.items():
        tree = parse(repo, rel)
        for n in tree.body:
            if isinstance(n, ast.ClassDef) and n.name == name:
                mem = {}
                for st in n.body:
                    if isinstance(st, ast.Assign) and isinstance(st.targets[0], ast.Name) and \
                            isinstance(st.value, ast.Constant) and isinstance(st.value.value, int):
                        mem[st.targets[0].id] = st.value.value
                known[name] = mem
        expect(name in known, 'enum %s not found' % name)
    return known


class Holes(ast.NodeTransformer):
    """replace enum members / known class names / numbers by holes, recording them"""

    def __init__(self, known):
        self.known = known
        self.consts = []

    def visit_Attribute(self, node):
        if isinstance(node.value, ast.Name) and node.value.id in self.known:
            mem = self.known[node.value.id]
            expect(node.attr in mem, 'unknown member %s.%s' % (node.value.id, node.attr))
            self.consts.append(mem[node.attr])
            return ast.copy_location(ast.Name(id='_K', ctx=ast.Load()), node)
        return self.generic_visit(node)

    def visit_Constant(self, node):
        if isinstance(node.value, bool) or node.value is None or isinstance(node.value, str) \
                or node.value is Ellipsis:
            return node
        if isinstance(node.value, (int, float)):
            expect(float(node.value) == int(node.value), 'non-integral literal %r' % node.value)
            self.consts.append(int(node.value))
            return ast.copy_location(ast.Name(id='_N', ctx=ast.Load()), node)
        raise Shape('unexpected literal %r' % (node.value,))


def strip_doc(body):
    if body and isinstance(body[0], ast.Expr) and isinstance(body[0].value, ast.Constant) and \
            isinstance(body[0].value.value, str):
        return body[1:]
    return body


def func_shape(fn, known):
    fn = ast.fix_missing_locations(ast.parse(ast.unparse(fn)).body[0])
    fn.body = strip_doc(fn.body) or [ast.Pass()]
    h = Holes(known)
    fn = h.visit(fn)
    text = ast.unparse(fn)
    return hashlib.sha256(text.encode()).hexdigest()[:16], h.consts


def zl(xs):
    return '[' + '; '.join('(%d)%%Z' % x for x in xs) + ']'


def translate(repo):
    """-> (coq lines, {key: shape hash})"""
    known = enum_table(repo)
    out = []
    shapes = {}
    class_type = {}
    for mod, rel in FILES:
        tree = parse(repo, rel)
        for st in tree.body:
            if isinstance(st, (ast.Import, ast.ImportFrom)) or \
                    (isinstance(st, ast.Expr) and isinstance(st.value, ast.Constant)):
                continue
            if isinstance(st, ast.Assign):
                expect(len(st.targets) == 1 and isinstance(st.targets[0], ast.Name), '%s: assignment shape' % mod)
                name = st.targets[0].id
                v = st.value
                if isinstance(v, ast.Tuple):
                    vals = []
                    for e in v.elts:
                        if isinstance(e, ast.Attribute):
                            d = dotted(e)
                            c, _, m = d.partition('.')
                            expect(c in known and m in known[c], '%s.%s: unknown member %s' % (mod, name, d))
                            vals.append(known[c][m])
                        elif isinstance(e, ast.Name):
                            expect(e.id in ITEM_CLASSES, '%s.%s: unknown class %s' % (mod, name, e.id))
                            vals.append(ITEM_CLASSES[e.id])
                        else:
                            raise Shape('%s.%s: tuple element shape' % (mod, name))
                    out.append('Definition %s_%s : list Z := %s.' % (mod, name, zl(vals)))
                elif isinstance(v, ast.Constant) and isinstance(v.value, int) and not isinstance(v.value, bool):
                    out.append('Definition %s_%s : Z := (%d)%%Z.' % (mod, name, v.value))
                elif isinstance(v, ast.Call) and dotted(v.func) == 'namedtuple':
                    flds = v.args[1]
                    expect(isinstance(flds, ast.Tuple) and all(isinstance(e, ast.Constant) for e in flds.elts),
                           '%s.%s: namedtuple shape' % (mod, name))
                    shapes['%s.%s' % (mod, name)] = ','.join(e.value for e in flds.elts)
                elif isinstance(v, ast.Dict) and name == 'CLASS_VALIDATORS':
                    for k, lam in zip(v.keys, v.values):
                        expect(isinstance(k, ast.Name) and k.id in ITEM_CLASSES and isinstance(lam, ast.Lambda),
                               'CLASS_VALIDATORS entry shape')
                        h = Holes(known)
                        body = h.visit(ast.parse(ast.unparse(lam.body)).body[0].value)
                        shapes['%s.validator.%s' % (mod, k.id)] = ast.unparse(body)
                        out.append('Definition %s_validator_%s : list Z := %s.' % (mod, k.id, zl(h.consts)))
                    out.append('Definition %s_validated_classes : list Z := %s.' % (
                        mod, zl([ITEM_CLASSES[k.id] for k in v.keys])))
                else:
                    raise Shape('%s: unexpected module-level assignment %s' % (mod, name))
                continue
            expect(isinstance(st, ast.ClassDef), '%s: unexpected module-level statement %s' % (mod, type(st).__name__))
            cname = st.name
            ctype = None
            kinds = None
            attrs = []
            consts = []
            for it in strip_doc(st.body):
                if isinstance(it, ast.Assign):
                    expect(len(it.targets) == 1 and isinstance(it.targets[0], ast.Name), '%s: class assignment' % cname)
                    an = it.targets[0].id
                    if an == 'type':
                        d = dotted(it.value)
                        c, _, m = d.partition('.')
                        expect(c == 'Restriction' and m in known[c], '%s.type shape' % cname)
                        ctype = known[c][m]
                    elif an == '_handler_map':
                        expect(isinstance(it.value, ast.Dict), '%s._handler_map shape' % cname)
                        kinds = []
                        hm = []
                        for k, v in zip(it.value.keys, it.value.values):
                            expect(isinstance(k, ast.Name) and k.id in MSG_KINDS and isinstance(v, ast.Name),
                                   '%s._handler_map entry' % cname)
                            kinds.append(MSG_KINDS[k.id])
                            hm.append('%s:%s' % (k.id, v.id))
                        shapes['%s.%s._handler_map' % (mod, cname)] = ','.join(hm)
                    elif isinstance(it.value, ast.Attribute):
                        d = dotted(it.value)
                        c, _, m = d.partition('.')
                        expect(c in known and m in known[c], '%s.%s: unknown member' % (cname, an))
                        attrs.append(known[c][m])
                        shapes['%s.%s.%s' % (mod, cname, an)] = c
                    elif isinstance(it.value, ast.Name) and it.value.id in ITEM_CLASSES:
                        attrs.append(ITEM_CLASSES[it.value.id])
                        shapes['%s.%s.%s' % (mod, cname, an)] = 'class'
                    elif isinstance(it.value, ast.Constant) and isinstance(it.value.value, str):
                        shapes['%s.%s.%s' % (mod, cname, an)] = 'str:' + it.value.value
                    else:
                        raise Shape('%s.%s: unexpected class attribute' % (cname, an))
                elif isinstance(it, ast.FunctionDef):
                    if mod == 'st_service' and it.name not in ST_SERVICE_FUNCS:
                        continue
                    h, cs = func_shape(it, known)
                    shapes['%s.%s.%s' % (mod, cname, it.name)] = h
                    consts += cs + [-1]
                elif isinstance(it, ast.Expr) and isinstance(it.value, ast.Constant) and it.value.value is Ellipsis:
                    continue
                else:
                    raise Shape('%s: unexpected class member %s' % (cname, type(it).__name__))
            shapes['%s.%s.bases' % (mod, cname)] = ','.join(ast.unparse(b) for b in st.bases)
            if ctype is not None:
                class_type[cname] = ctype
                out.append('Definition %s_%s_type : Z := (%d)%%Z.' % (mod, cname, ctype))
            if kinds is not None:
                out.append('Definition %s_%s_kinds : list Z := %s.' % (mod, cname, zl(kinds)))
            if attrs:
                out.append('Definition %s_%s_attrs : list Z := %s.' % (mod, cname, zl(attrs)))
            out.append('Definition %s_%s_consts : list Z := %s.' % (mod, cname, zl(consts)))
            if mod == 'service':
                init = [f for f in st.body if isinstance(f, ast.FunctionDef) and f.name == '__init__'][0]
                regs = []
                for n in ast.walk(init):
                    if isinstance(n, ast.Set):
                        for e in n.elts:
                            expect(isinstance(e, ast.Call) and isinstance(e.func, ast.Name) and len(e.args) == 1,
                                   'service registration shape')
                            regs.append(e.func.id)
                shapes['service.registered'] = ','.join(regs)
                service_regs = regs
    expect(set(service_regs) == set(class_type), 'registered restrictions %s differ from the classes with a type %s'
           % (sorted(set(service_regs) ^ set(class_type)), ''))
    out.append('Definition service_types : list Z := %s.' % zl([class_type[c] for c in service_regs]))
    return out, shapes


# pinned shapes (method bodies with holes, handler maps, base classes, error-data
# fields); regenerate with `python harness/tables_restr.py --shapes` after a
# reviewed change of the source and re-check the model against it
SHAPES = None


def load_shapes():
    import json
    import os
    p = os.path.join(os.path.dirname(os.path.abspath(__file__)), 'tables_restr_shapes.json')
    return json.load(open(p))


def generate(repo):
    out, shapes = translate(repo)
    want = load_shapes()
    diff = sorted(k for k in set(want) | set(shapes) if want.get(k) != shapes.get(k))
    expect(not diff, 'source shape changed: ' + ', '.join(diff[:8]))
    head = ['(* GENERATED by harness/tables_restr.py -- do not edit *)',
            'From Coq Require Import ZArith List.', 'Import ListNotations.']
    return '\n'.join(head + out) + '\n'


if __name__ == '__main__':
    import json
    import os
    import sys
    repo = os.environ.get('VERIF_REPO', '/repo')
    out, shapes = translate(repo)
    if '--shapes' in sys.argv:
        p = os.path.join(os.path.dirname(os.path.abspath(__file__)), 'tables_restr_shapes.json')
        json.dump(shapes, open(p, 'w'), indent=1, sort_keys=True)
        print('wrote', p, len(shapes))
    else:
        print('\n'.join(out))
