"""C18 -- the data build keeps exactly what is reachable and leaves nothing
dangling.

proof side : coq/props/C18.v (model coq/model/Builder.v, tables regenerated
             from eos/eve_obj_builder/*.py by harness/tables_builder.py)
tie        : generated raw data sets through the real EveObjBuilder.run (three
             PYTHONHASHSEED values, separate interpreters) and through the
             extracted model (bin/builder); built ids and reference fields are
             compared after canonicalisation
oracle     : implementation only (independent reachability over the raw rows,
             dangling-reference check, first-row-wins, hash-seed invariance);
             run only when something broke."""
import json
import math
import os
import random
from concurrent.futures import ThreadPoolExecutor
from fractions import Fraction
from numbers import Integral, Real

import common
import c18_impl
from c18_impl import TABLES, EFFECT_ARGS, bits, hexs, canon

PROP_FILE = 'props/C18.v'
TABLE_NAMES = ['builder']
HASH_SEEDS = ['0', '1', '4242']

# ids the generator needs; read from the repo under test at run time
CONST = {}


def load_const():
    if CONST:
        return CONST
    from eos.const.eve import AttrId, EffectId, TypeCategoryId, TypeGroupId
    CONST.update(
        strong_cats=[int(TypeCategoryId[n]) for n in
                     ('charge', 'drone', 'fighter', 'implant', 'module', 'ship', 'skill', 'subsystem')],
        strong_groups=[int(TypeGroupId.character), int(TypeGroupId.effect_beacon)],
        autocharge=[int(AttrId.ammo_loaded), int(AttrId.fighter_ability_launch_bomb_type)],
        buffattrs=[int(AttrId.warfare_buff_1_id), int(AttrId.warfare_buff_2_id),
                   int(AttrId.warfare_buff_3_id), int(AttrId.warfare_buff_4_id)],
        norm={'radius': int(AttrId.radius), 'mass': int(AttrId.mass),
              'volume': int(AttrId.volume), 'capacity': int(AttrId.capacity)},
        racks=[int(EffectId.hi_power), int(EffectId.med_power), int(EffectId.lo_power)])
    return CONST


# ---------------------------------------------------------------------------
# generator
# ---------------------------------------------------------------------------

OPERATIONS = ['PreAssignment', 'PreMul', 'PreDiv', 'ModAdd', 'ModSub', 'PostMul', 'PostDiv',
              'PostPercent', 'PostAssignment']
FUNCS = ['ItemModifier', 'LocationModifier', 'LocationGroupModifier',
         'LocationRequiredSkillModifier', 'OwnerRequiredSkillModifier']


def odd_scalar(rng):
    """a value that is not a plain integer id"""
    return rng.choice([None, 'abc', '', '12', ' 7 ', 2.5, -1.5, float('nan'), float('inf'),
                       float('-inf'), True, False, 'x y', 1e300, -0.0])


class Gen:
    def __init__(self, rng, malformed):
        self.rng = rng
        self.mal = malformed
        self.c = load_const()
        r = rng
        self.n_types = r.randint(3, 14)
        self.n_groups = r.randint(2, 6)
        self.n_attrs = r.randint(3, 12)
        self.n_effects = r.randint(3, 9)
        self.n_buffs = r.randint(0, 4)
        # id pools (a few ids are never defined -> dangling references)
        self.type_ids = r.sample(range(1, 40), self.n_types)
        self.group_ids = r.sample(range(2, 30), self.n_groups)
        if r.random() < 0.3:
            self.group_ids[0] = r.choice(self.c['strong_groups'])
        self.attr_ids = r.sample(range(1, 60), self.n_attrs)
        self.effect_ids = r.sample(range(20, 60), self.n_effects)
        self.buff_ids = r.sample(range(1, 20), self.n_buffs) if self.n_buffs else []
        self.p_odd = 0.25 if malformed else 0.03
        self.p_dup = 0.3 if malformed else 0.08
        self.p_dangle = 0.2 if malformed else 0.08

    # -- references ---------------------------------------------------------
    def ref(self, pool, universe=60):
        r = self.rng
        k = r.random()
        if k < self.p_odd:
            return odd_scalar(r)
        if k < self.p_odd + self.p_dangle or not pool:
            return r.randint(1, universe)      # possibly undefined
        v = r.choice(pool)
        if r.random() < (0.1 if self.mal else 0.02):
            return float(v)                    # 5.0 == 5 as a set key
        return v

    def optref(self, pool, p_none=0.5):
        if self.rng.random() < p_none:
            return None
        return self.ref(pool)

    def pk(self, v):
        """primary key value, sometimes not an integer"""
        r = self.rng
        if type(v) is int and r.random() < (0.12 if self.mal else 0.015):
            return r.choice([float(v), str(v), None, v + 0.5, True])
        return v

    def maybe_drop(self, row, field, p=None):
        p = (0.1 if self.mal else 0.01) if p is None else p
        if field in row and self.rng.random() < p:
            del row[field]

    def dup_rows(self, rows, mutate):
        """duplicate primary keys: a later row with the same key, other content"""
        r = self.rng
        extra = []
        for row in rows:
            if r.random() < self.p_dup:
                d = dict(row)
                mutate(d)
                extra.append(d)
        for d in extra:
            rows.insert(r.randint(0, len(rows)), d)

    # -- tables -------------------------------------------------------------
    def build(self):
        r = self.rng
        c = self.c
        t = {}
        cats = c['strong_cats'] + [1, 2, 3, 9, 17, 25]
        # groups: about half in a kept category
        t['evegroups'] = []
        for gi, g in enumerate(self.group_ids):
            cat = r.choice(c['strong_cats']) if r.random() < 0.45 else r.choice([2, 3, 9, 17, 25, None])
            if gi == 0:
                cat = r.choice(c['strong_cats'])      # some kept category ...
            elif gi == 1:
                cat = r.choice([2, 3, 9, 17, 25])      # ... and some other one
            if r.random() < self.p_odd:
                cat = r.choice([float(r.choice(c['strong_cats'])), 'abc', None])
            row = {'groupID': self.pk(g), 'categoryID': cat}
            self.maybe_drop(row, 'categoryID')
            self.maybe_drop(row, 'groupID', 0.05 if self.mal else 0.005)
            t['evegroups'].append(row)
        self.dup_rows(t['evegroups'], lambda d: d.update(categoryID=r.choice(cats)))
        # types
        t['evetypes'] = []
        for ty in self.type_ids:
            row = {'typeID': self.pk(ty), 'groupID': self.ref(self.group_ids, 30)}
            for f in ('radius', 'mass', 'volume', 'capacity'):
                k = r.random()
                if k < 0.25:
                    row[f] = r.choice([0.0, 1.5, 100, 2500.0])
                elif k < 0.35:
                    row[f] = None
                elif k < 0.35 + self.p_odd:
                    row[f] = odd_scalar(r)
            self.maybe_drop(row, 'groupID')
            self.maybe_drop(row, 'typeID', 0.05 if self.mal else 0.005)
            t['evetypes'].append(row)
        self.dup_rows(t['evetypes'], lambda d: d.update(groupID=self.ref(self.group_ids, 30)))
        # attributes (maxAttributeID chains and cycles)
        t['dgmattribs'] = []
        for a in self.attr_ids + [x for x in c['autocharge'] + c['buffattrs'] + list(c['norm'].values())
                                  if r.random() < 0.5]:
            row = {'attributeID': self.pk(a), 'maxAttributeID': self.optref(self.attr_ids, 0.6),
                   'defaultValue': r.choice([0.0, 1.0, None]), 'highIsGood': r.choice([True, False, 1, 0]),
                   'stackable': r.choice([True, False])}
            self.maybe_drop(row, 'maxAttributeID')
            t['dgmattribs'].append(row)
        self.dup_rows(t['dgmattribs'], lambda d: d.update(maxAttributeID=self.optref(self.attr_ids, 0.3)))
        # effects
        t['dgmeffects'] = []
        for e in self.effect_ids + [x for x in c['racks'] if r.random() < 0.6]:
            row = {'effectID': self.pk(e), 'effectCategory': r.choice([0, 1, 2, 3, 4, 5, 6, 7, None]),
                   'isOffensive': r.choice([True, False]), 'isAssistance': r.choice([True, False])}
            for f in ('durationAttributeID', 'dischargeAttributeID', 'rangeAttributeID',
                      'falloffAttributeID', 'trackingSpeedAttributeID',
                      'fittingUsageChanceAttributeID', 'resistanceAttributeID'):
                if r.random() < 0.75:
                    row[f] = self.optref(self.attr_ids, 0.6)
            if r.random() < 0.15:
                row['resistanceID'] = self.optref(self.attr_ids, 0.3)   # pre-rename field name
            k = r.random()
            if k < 0.45:
                row['modifierInfo'] = self.modinfo()
            elif k < 0.6:
                row['modifierInfo'] = r.choice([None, [], '', 0])
            t['dgmeffects'].append(row)
        self.dup_rows(t['dgmeffects'], lambda d: d.update(
            rangeAttributeID=self.optref(self.attr_ids, 0.3), modifierInfo=self.modinfo()))
        # type attributes, incl. autocharge and buff references
        rows = []
        for ty in self.type_ids:
            for a in r.sample(self.attr_ids, r.randint(0, min(3, len(self.attr_ids)))):
                v = r.choice([0.0, 1.0, 5, 12.5, -3.0, 100])
                if r.random() < self.p_odd:
                    v = odd_scalar(r)
                rows.append({'typeID': self.pk(ty), 'attributeID': self.pk(a), 'value': v})
            if r.random() < 0.35:
                v = self.ref(self.type_ids, 40)
                if isinstance(v, int) and r.random() < 0.3:
                    v = float(v) + r.choice([0.0, 0.0, 0.25])
                rows.append({'typeID': ty, 'attributeID': r.choice(c['autocharge']), 'value': v})
            if self.buff_ids and r.random() < 0.3:
                v = self.ref(self.buff_ids, 20)
                if isinstance(v, int) and r.random() < 0.5:
                    v = float(v)
                rows.append({'typeID': ty, 'attributeID': r.choice(c['buffattrs']), 'value': v})
            if r.random() < 0.1:
                rows.append({'typeID': ty, 'attributeID': r.choice(list(c['norm'].values())),
                             'value': r.choice([7.0, 'abc', None])})
        if r.random() < self.p_dangle:
            rows.append({'typeID': r.randint(1, 40), 'attributeID': self.ref(self.attr_ids), 'value': 1.0})
        r.shuffle(rows)
        for row in rows:
            self.maybe_drop(row, 'value')
            self.maybe_drop(row, 'attributeID', 0.03 if self.mal else 0.003)
        t['dgmtypeattribs'] = rows
        self.dup_rows(rows, lambda d: d.update(value=r.choice([9.0, self.ref(self.type_ids, 40)])))
        # type effects: default and rack collisions
        rows = []
        eff_pool = self.effect_ids + c['racks']
        for ty in self.type_ids:
            for e in r.sample(self.effect_ids, r.randint(0, 2)):
                d = r.random()
                isd = True if d < 0.3 else (False if d < 0.85 else r.choice([1, 0, None, 'yes', 2.0]))
                rows.append({'typeID': self.pk(ty), 'effectID': self.pk(e), 'isDefault': isd})
            k = r.random()
            nrack = 0 if k < 0.5 else (1 if k < 0.8 else r.randint(2, 3))
            for e in r.sample(c['racks'], nrack):
                rows.append({'typeID': ty, 'effectID': e, 'isDefault': r.random() < 0.15})
        if r.random() < self.p_dangle:
            rows.append({'typeID': r.choice(self.type_ids), 'effectID': r.randint(1, 70), 'isDefault': False})
        r.shuffle(rows)
        for row in rows:
            self.maybe_drop(row, 'isDefault', 0.1)
        t['dgmtypeeffects'] = rows
        self.dup_rows(rows, lambda d: d.update(isDefault=r.choice([True, False])))
        # buffs
        t['dbuffcollections'] = []
        for b in self.buff_ids:
            row = {'buffID': self.pk(b), 'operationName': r.choice(OPERATIONS),
                   'aggregateMode': r.choice(['Minimum', 'Maximum'])}
            if r.random() < (0.1 if self.mal else 0.01):
                row[r.choice(['operationName', 'aggregateMode'])] = r.choice(['Bogus', None, 3])
            self.maybe_drop(row, 'operationName', 0.05 if self.mal else 0.005)
            for sec, extra, pool in (('itemModifiers', None, None), ('locationModifiers', None, None),
                                     ('locationGroupModifiers', 'groupID', self.group_ids),
                                     ('locationRequiredSkillModifiers', 'skillID', self.type_ids)):
                if r.random() < 0.45:
                    mods = []
                    for _ in range(r.randint(0, 2)):
                        m = {'dogmaAttributeID': self.ref(self.attr_ids)}
                        if extra:
                            m[extra] = self.ref(pool, 40)
                        if r.random() < (0.08 if self.mal else 0.005):
                            del m[r.choice(sorted(m))]
                        mods.append(m)
                    row[sec] = mods
            t['dbuffcollections'].append(row)
        self.dup_rows(t['dbuffcollections'], lambda d: d.update(
            itemModifiers=[{'dogmaAttributeID': self.ref(self.attr_ids)}]))
        # skill requirements (chains and cycles between types)
        rows = []
        for ty in self.type_ids:
            for _ in range(r.choice([0, 1, 1, 2])):
                rows.append({'typeID': self.pk(ty), 'skillTypeID': self.pk(self.ref(self.type_ids, 40))
                             if r.random() < 0.2 else self.ref(self.type_ids, 40),
                             'level': r.choice([1, 2, 3, 4, 5, 5.0, None])})
        r.shuffle(rows)
        for row in rows:
            self.maybe_drop(row, 'level', 0.04 if self.mal else 0.003)
        t['skillreqs'] = rows
        self.dup_rows(rows, lambda d: d.update(level=r.randint(1, 5)))
        # fighter abilities
        rows = []
        for ty in self.type_ids:
            if r.random() < 0.15:
                row = {'typeID': ty, 'abilityID': r.choice([9, 27, 26, 12, 11, 999])}
                if r.random() < 0.5:
                    row['cooldownSeconds'] = r.choice([0, 10, 60.0])
                if r.random() < 0.3:
                    row['chargeCount'] = r.randint(1, 9)
                rows.append(row)
        t['typefighterabils'] = rows
        for name in TABLES:
            if self.rng.random() < 0.1:
                self.rng.shuffle(t[name])
        return {'tables': t, 'stream': 'malformed' if self.mal else 'valid'}

    def modinfo(self):
        r = self.rng
        mods = []
        for _ in range(r.randint(1, 3)):
            f = r.choice(FUNCS)
            m = {'func': f, 'domain': r.choice(['shipID', 'charID', 'itemID', 'targetID', 'otherID', None]),
                 'operation': r.choice([-1, 0, 1, 2, 3, 4, 5, 6, 7]),
                 'modifiedAttributeID': self.modref(self.attr_ids),
                 'modifyingAttributeID': self.modref(self.attr_ids)}
            if f == 'LocationGroupModifier':
                m['groupID'] = self.modref(self.group_ids)
            elif f.endswith('RequiredSkillModifier'):
                m['skillTypeID'] = self.modref(self.type_ids)
            if r.random() < (0.15 if self.mal else 0.02):
                m[r.choice(['func', 'operation', 'domain'])] = r.choice(['Bogus', 99, None])
            if r.random() < (0.1 if self.mal else 0.01):
                del m[r.choice(sorted(m))]
            if r.random() < 0.1:   # a field the handler of this func does not read
                m[r.choice(['groupID', 'skillTypeID'])] = self.modref(self.type_ids)
            mods.append(m)
        return mods

    def modref(self, pool):
        """ids inside modifier infos: integers (defined or not), sometimes as a
        numeric string or a float (the modifier builder reads them through
        int()), sometimes not an id at all"""
        r = self.rng
        k = r.random()
        if k < self.p_odd:
            return r.choice([None, 'abc', True, float('nan'), float('inf'), ''])
        if k < self.p_odd + self.p_dangle or not pool:
            v = r.randint(1, 60)
        else:
            v = r.choice(pool)
        if r.random() < (0.2 if self.mal else 0.04):
            return r.choice([str(v), float(v), v + 0.5, ' %d ' % v])
        return v


def gen_cases(rng, n):
    cases = []
    for i in range(n):
        cases.append(Gen(rng, malformed=(i % 4 == 3)).build())
    return cases


# ---------------------------------------------------------------------------
# model side: encode a data set for bin/builder, parse its answer
# ---------------------------------------------------------------------------

def py_int_of_str(s):
    try:
        return int(s)
    except ValueError:
        return None


def enc_scalar(v, out):
    if v is None:
        out.append('n')
    elif isinstance(v, bool):
        out += ['b', '1' if v else '0']
    elif isinstance(v, int):
        out += ['i', bits(v)]
    elif isinstance(v, float):
        if math.isnan(v):
            out.append('nan')
        elif math.isinf(v):
            out.append('inf+' if v > 0 else 'inf-')
        else:
            f = Fraction(v)
            out += ['f', '%s/%s' % (bits(f.numerator), bits(f.denominator))]
    elif isinstance(v, str):
        p = py_int_of_str(v)
        out += ['s', hexs(v), '-' if p is None else bits(p)]
    else:
        raise ValueError('value outside the modelled domain: %r' % (v,))


def enc_value(v, out):
    if isinstance(v, (list, tuple)):
        out += ['L', str(len(v))]
        for d in v:
            if not isinstance(d, dict):
                raise ValueError('list element outside the modelled domain: %r' % (d,))
            out.append(str(len(d)))
            for k, x in d.items():
                out.append(hexs(k))
                enc_scalar(x, out)
    else:
        enc_scalar(v, out)


def model_line(case):
    out = []
    for name in TABLES:
        rows = case['tables'].get(name, [])
        out.append(str(len(rows)))
        for row in rows:
            out.append(str(len(row)))
            for k, v in row.items():
                out.append(hexs(k))
                enc_value(v, out)
    return ' '.join(out)


class Toks:
    def __init__(self, line):
        self.t = line.split()
        self.i = 0

    def next(self):
        x = self.t[self.i]
        self.i += 1
        return x

    def z(self):
        return int(self.next(), 2)

    def many(self, f):
        return [f() for _ in range(int(self.next()))]


def parse_model(line):
    """model answer -> the same structure c18_impl.observe builds"""
    tk = Toks(line)
    head = tk.next()
    if head == 'crash':
        return {'raise': tk.next()}
    if head != 'ok':
        return {'model_error': line[:300]}
    o = {'types': {}, 'attrs': {}, 'effects': {}, 'buffs': []}

    def one_type():
        tid = tk.z()
        grp = tk.next()
        cat = tk.next()
        attrs = dict(tk.many(lambda: (str(tk.z()), tk.next())))
        effs = sorted(set(str(x) for x in tk.many(tk.z)))
        d = tk.next()
        skills = dict(tk.many(lambda: (str(tk.z()), tk.next())))
        o['types'][str(tid)] = {'group': grp, 'category': cat, 'attrs': attrs, 'effects': effs,
                                'default': None if d == 'n' else str(int(d[2:], 2)), 'skills': skills}
    tk.many(one_type)

    def one_attr():
        aid = tk.z()
        o['attrs'][str(aid)] = dict(tk.many(lambda: (tk.next(), tk.next())))
    tk.many(one_attr)

    def one_effect():
        eid = tk.z()
        args = dict(tk.many(lambda: (tk.next(), tk.next())))
        refs = tk.many(lambda: (tk.next(), tk.next(), tk.z()))
        o['effects'][str(eid)] = {'args': args, 'modrefs': sorted(set(refs))}
    tk.many(one_effect)
    o['buffs'] = sorted(tk.many(lambda: [str(tk.z()), tk.next(), tk.next(), tk.next()]))
    return o


# ---------------------------------------------------------------------------
# comparison implementation <-> model
# ---------------------------------------------------------------------------

MOD_FILTER_TGT = {3: ('evegroups', 'groupID'), 4: ('evetypes', 'typeID'), 5: ('evetypes', 'typeID')}


def canon_to_int(c):
    return int(c[2:], 2) if c.startswith('i:') else None


def compare(iobs, mobs):
    """None when the implementation's observation equals the model's."""
    if 'model_error' in mobs:
        return 'model driver error: ' + mobs['model_error']
    if 'raise' in mobs or 'raise' in iobs:
        if mobs.get('raise') == 'OutOfDomain':
            return None     # shape outside the modelled domain (never generated)
        if iobs.get('raise') != mobs.get('raise'):
            return 'outcome: impl %s, model %s' % (
                iobs.get('raise', 'built') + (': ' + iobs['msg'] if 'msg' in iobs else ''),
                mobs.get('raise', 'built'))
        return None
    if iobs.get('dup_ids'):
        return 'impl built two objects with one id'
    for kind in ('types', 'attrs', 'effects'):
        if set(iobs[kind]) != set(mobs[kind]):
            return 'built %s differ: only impl %s, only model %s' % (
                kind, sorted(set(iobs[kind]) - set(mobs[kind])),
                sorted(set(mobs[kind]) - set(iobs[kind])))
    for tid, it in iobs['types'].items():
        mt = mobs['types'][tid]
        for f in ('group', 'category', 'attrs', 'effects', 'default', 'skills'):
            if it[f] != mt[f]:
                return 'type %s field %s: impl %s, model %s' % (tid, f, it[f], mt[f])
        if not it['effects_consistent']:
            return 'type %s: effects keyed inconsistently' % tid
    for aid, ia in iobs['attrs'].items():
        if ia != mobs['attrs'][aid]:
            return 'attr %s: impl %s, model %s' % (aid, ia, mobs['attrs'][aid])
    for eid, ie in iobs['effects'].items():
        me = mobs['effects'][eid]
        if ie['args'] != me['args']:
            return 'effect %s args: impl %s, model %s' % (eid, ie['args'], me['args'])
        # ids the built modifiers point at must be among those the row's
        # modifier infos name (the relation the cleaner follows)
        refs = set(tuple(x) for x in me['modrefs'])
        for filt, extra, a1, a2 in ie['mods']:
            for a in (a1, a2):
                k = canon_to_int(a)
                if k is None or ('dgmattribs', 'attributeID', k) not in refs:
                    return 'effect %s: built modifier attribute %s is not among the ids its ' \
                           'modifier infos name for the cleaner %s' % (eid, a, sorted(refs))
            if filt in MOD_FILTER_TGT:
                k = canon_to_int(extra)
                t, c = MOD_FILTER_TGT[filt]
                if k is None or (t, c, k) not in refs:
                    return 'effect %s: built modifier filter argument %s not followed by the cleaner' % (eid, extra)
    if iobs['buffs'] != mobs['buffs']:
        return 'buff templates: impl %s, model %s' % (iobs['buffs'], mobs['buffs'])
    return None


# ---------------------------------------------------------------------------
# direct oracle (implementation only; shares nothing with the model)
# ---------------------------------------------------------------------------

def is_int(v):
    return isinstance(v, Integral)


def first_rows(rows, pks):
    """rows surviving 'integer primary key, first row wins', keyed by pk"""
    out = {}
    for row in rows:
        k = tuple(row.get(p) for p in pks)
        if all(is_int(x) for x in k):
            k = tuple(int(x) for x in k)
            out.setdefault(k, row)
    return out


def as_key(v):
    """the integer id a reference value denotes, if any"""
    if is_int(v):
        return int(v)
    if isinstance(v, float) and math.isfinite(v) and v == int(v):
        return int(v)
    return None


def as_int(v):
    try:
        return int(v)
    except (TypeError, ValueError, OverflowError):
        return None


class Raw:
    """independent reading of a raw data set"""

    def __init__(self, case):
        c = load_const()
        t = case['tables']
        self.types = {k[0]: r for k, r in first_rows(t.get('evetypes', []), ['typeID']).items()}
        self.groups = {k[0]: r for k, r in first_rows(t.get('evegroups', []), ['groupID']).items()}
        self.attrs = {k[0]: r for k, r in first_rows(t.get('dgmattribs', []), ['attributeID']).items()}
        self.effects = {k[0]: r for k, r in first_rows(t.get('dgmeffects', []), ['effectID']).items()}
        self.buffs = {k[0]: r for k, r in first_rows(t.get('dbuffcollections', []), ['buffID']).items()}
        self.tattrs = first_rows(t.get('dgmtypeattribs', []), ['typeID', 'attributeID'])
        self.teffects = first_rows(t.get('dgmtypeeffects', []), ['typeID', 'effectID'])
        self.skills = first_rows(t.get('skillreqs', []), ['typeID', 'skillTypeID'])
        # normaliser: built-in attributes of evetypes rows
        self.tattr_vals = {k: r.get('value') for k, r in self.tattrs.items()}
        for tid, row in self.types.items():
            for f, a in c['norm'].items():
                if row.get(f) is not None and (tid, a) not in self.tattr_vals:
                    self.tattr_vals[(tid, a)] = row[f]
        strong_groups = set(c['strong_groups'])
        for g, row in self.groups.items():
            if as_key(row.get('categoryID')) in c['strong_cats']:
                strong_groups.add(g)
        self.strong = {tid for tid, row in self.types.items()
                       if as_key(row.get('groupID')) in strong_groups}
        self.c = c

    def closure(self, numeric_only):
        """least set of (kind, id) containing the strong types and closed under
        the references a built object carries.  numeric_only=True follows only
        references that survive into the built objects (lower bound of what
        must be kept); False also follows rows the later validation drops
        (upper bound of what may be kept)."""
        c = self.c
        seen = set()
        todo = [('type', t) for t in self.strong]

        def push(kind, v, coerce=as_key):
            k = coerce(v)
            table = {'type': self.types, 'attr': self.attrs, 'effect': self.effects,
                     'group': self.groups, 'buff': self.buffs}[kind]
            if k is not None and k in table and (kind, k) not in seen:
                todo.append((kind, k))
        while todo:
            x = todo.pop()
            if x in seen:
                continue
            seen.add(x)
            kind, i = x
            if kind == 'type':
                push('group', self.types[i].get('groupID'))
                for (t, a), v in self.tattr_vals.items():
                    if t != i:
                        continue
                    if numeric_only and not isinstance(v, Real):
                        continue
                    push('attr', a)
                    if a in c['autocharge']:
                        push('type', v, as_int)
                    if a in c['buffattrs']:
                        push('buff', v, as_int)
                racked = False
                for (t, e), row in sorted(self.teffects.items(),
                                          key=lambda kv: kv[1].get('_pos', 0)):
                    if t != i:
                        continue
                    if numeric_only and e in c['racks']:
                        if racked:
                            continue
                        racked = True
                    push('effect', e)
                for (t, s), row in self.skills.items():
                    if t == i:
                        push('type', s)
            elif kind == 'attr':
                push('attr', self.attrs[i].get('maxAttributeID'))
            elif kind == 'effect':
                row = self.effects[i]
                for f in ('durationAttributeID', 'dischargeAttributeID', 'rangeAttributeID',
                          'falloffAttributeID', 'trackingSpeedAttributeID',
                          'fittingUsageChanceAttributeID', 'resistanceAttributeID'):
                    push('attr', row.get(f))
                mi = row.get('modifierInfo')
                if isinstance(mi, (list, tuple)):
                    for m in mi:
                        if not isinstance(m, dict):
                            continue
                        if not numeric_only:
                            push('type', m.get('skillTypeID'), as_int)
                            push('group', m.get('groupID'), as_int)
                            push('attr', m.get('modifyingAttributeID'), as_int)
                            push('attr', m.get('modifiedAttributeID'), as_int)
            elif kind == 'buff':
                row = self.buffs[i]
                for sec in ('itemModifiers', 'locationModifiers', 'locationGroupModifiers',
                            'locationRequiredSkillModifiers'):
                    for m in row.get(sec, ()) or ():
                        push('attr', m.get('dogmaAttributeID'))
                        if sec == 'locationGroupModifiers':
                            push('group', m.get('groupID'))
                        if sec == 'locationRequiredSkillModifiers':
                            push('type', m.get('skillID'))
        return seen


def tag_positions(case):
    """copy of the case whose dgmtypeeffects rows know their table position
    (the oracle needs it for the rack tie-break)"""
    c = {'tables': {k: [dict(r) for r in v] for k, v in case['tables'].items()}}
    for i, r in enumerate(c['tables'].get('dgmtypeeffects', [])):
        r['_pos'] = i
    return c


def oracle(case, obs_by_seed):
    """The property stated directly on the implementation's outputs.  Returns a
    description of the first failure, or None."""
    c = load_const()
    first = obs_by_seed[0]
    for k, o in enumerate(obs_by_seed[1:], 1):
        if o != first:
            return 'result depends on hash iteration order: PYTHONHASHSEED=%s and %s differ' % (
                HASH_SEEDS[0], HASH_SEEDS[k])
    raw = Raw(tag_positions(case))
    upper = raw.closure(numeric_only=False)
    if 'raise' in first:
        # KeyError on a reachable row lacking a mandatory non-key field (skill
        # level, buff operation/aggregate/modifier fields) is outside the
        # property's domain; anything else is the build aborting on raw data
        if first['raise'] == 'KeyError' and mandatory_field_missing(raw, upper):
            return None
        return 'EveObjBuilder.run raised %s: %s' % (first['raise'], first.get('msg', ''))
    if first.get('dup_ids'):
        return 'two built objects share one id'
    for kind in ('types', 'attrs', 'effects'):
        for k in first[kind]:
            if not k.lstrip('-').isdigit():
                return 'a built object of %s has the non-integer id %s (first row with an integer ' \
                       'key was not the one kept)' % (kind, k)
    for tid, t in first['types'].items():
        for k in list(t['attrs']) + list(t['skills']) + list(t['effects']) + \
                ([t['default']] if t['default'] is not None else []):
            if not k.lstrip('-').isdigit():
                return 'built type %s is keyed by the non-integer id %s (a row whose key is not an ' \
                       'integer survived validation)' % (tid, k)
    for bt in first['buffs']:
        if not bt[0].lstrip('-').isdigit():
            return 'a buff template has the non-integer id %s' % bt[0]
    built = {'type': set(int(x) for x in first['types']), 'attr': set(int(x) for x in first['attrs']),
             'effect': set(int(x) for x in first['effects'])}
    lower = raw.closure(numeric_only=True)
    # completeness: strong types and everything built objects can reach
    for kind, i in sorted(lower):
        if kind in built and i not in built[kind]:
            return '%s %d is referenced from kept rows (or is a type of a supported category/group) ' \
                   'but was not built' % (kind, i)
    # minimality: nothing unreachable
    for kind in built:
        for i in sorted(built[kind]):
            if (kind, i) not in upper:
                return '%s %d was built but nothing kept references it' % (kind, i)
    # no dangling reference out of built objects
    def dangling(kind, v, what, coerce=as_key):
        k = coerce(v)
        table = {'type': raw.types, 'attr': raw.attrs, 'effect': raw.effects}[kind]
        if k is not None and k in table and k not in built[kind]:
            return '%s references %s %d, which exists in the raw data but was dropped' % (what, kind, k)
        return None
    for tid, t in first['types'].items():
        for a, v in t['attrs'].items():
            d = dangling('attr', int(a), 'type %s attrs' % tid)
            if d:
                return d
            pv = parse_canon(v)
            if int(a) in c['autocharge']:
                d = dangling('type', pv, 'type %s autocharge attribute %s' % (tid, a), as_int)
                if d:
                    return d
            if int(a) in c['buffattrs']:
                k = as_int(pv)
                if k is not None and k in raw.buffs and buff_complete(raw.buffs[k]) and \
                        count_mods(raw.buffs[k]) != sum(1 for b in first['buffs'] if b[0] == str(k)):
                    return 'type %s names buff %d, whose templates were not built' % (tid, k)
        for s in t['skills']:
            d = dangling('type', int(s), 'type %s required skills' % tid)
            if d:
                return d
        racks = [int(e) for e in t['effects'] if int(e) in c['racks']]
        if len(racks) > 1:
            return 'type %s carries %d rack effects %s' % (tid, len(racks), racks)
        # first row wins among the rack rows of the type
        cand = sorted((row['_pos'], e) for (ty, e), row in raw.teffects.items()
                      if ty == int(tid) and e in c['racks'])
        if cand and cand[0][1] in raw.effects and racks != [cand[0][1]]:
            return 'type %s: rack effect %s kept, the first rack row names %d' % (tid, racks, cand[0][1])
        # default effect: the first truthy-default row of the type decides
        dcand = sorted((row['_pos'], e, row.get('isDefault')) for (ty, e), row in raw.teffects.items()
                       if ty == int(tid) and row.get('isDefault'))
        want = None
        if dcand and dcand[0][2] is True and dcand[0][1] in built['effect'] and \
                (dcand[0][1] not in c['racks'] or racks == [dcand[0][1]]):
            want = dcand[0][1]
        if t['default'] != (None if want is None else str(want)):
            return 'type %s default effect %s, the first default row gives %s' % (tid, t['default'], want)
        g = as_key(parse_canon(t['group']))
        want_cat = canon(raw.groups[g].get('categoryID')) if g in raw.groups else 'n'
        if t['category'] != want_cat:
            return 'type %s category %s, its group row says %s' % (tid, t['category'], want_cat)
    for aid, a in first['attrs'].items():
        # first row wins for duplicate primary keys
        if a['max_attr_id'] != canon(raw.attrs[int(aid)].get('maxAttributeID')):
            return 'attribute %s was not built from the first row with that key' % aid
        d = dangling('attr', parse_canon(a['max_attr_id']), 'attribute %s max_attr_id' % aid)
        if d:
            return d
    for eid, e in first['effects'].items():
        for arg, v in e['args'].items():
            d = dangling('attr', parse_canon(v), 'effect %s %s' % (eid, arg))
            if d:
                return d
        for filt, extra, a1, a2 in e['mods']:
            for a in (a1, a2):
                d = dangling('attr', parse_canon(a), 'effect %s modifier' % eid)
                if d:
                    return d
            if filt in (4, 5):
                d = dangling('type', parse_canon(extra), 'effect %s modifier skill' % eid)
                if d:
                    return d
    for bid, filt, extra, attr in first['buffs']:
        d = dangling('attr', parse_canon(attr), 'buff %s template' % bid)
        if d:
            return d
        if filt == 'domain_skillrq':
            d = dangling('type', parse_canon(extra), 'buff %s template skill' % bid)
            if d:
                return d
    return None


def count_mods(row):
    return sum(len(row.get(s, ()) or ()) for s in
               ('itemModifiers', 'locationModifiers', 'locationGroupModifiers',
                'locationRequiredSkillModifiers'))


def buff_complete(row):
    if count_mods(row) == 0:
        return True
    if row.get('operationName') not in OPERATIONS or row.get('aggregateMode') not in ('Minimum', 'Maximum'):
        return False
    for sec, extra in (('itemModifiers', None), ('locationModifiers', None),
                       ('locationGroupModifiers', 'groupID'),
                       ('locationRequiredSkillModifiers', 'skillID')):
        for m in row.get(sec, ()) or ():
            if 'dogmaAttributeID' not in m or (extra and extra not in m):
                return False
    return True


def mandatory_field_missing(raw, reach):
    for (t, s), row in raw.skills.items():
        if ('type', t) in reach and 'level' not in row:
            return True
    for b, row in raw.buffs.items():
        if ('buff', b) in reach and not buff_complete(row):
            return True
    return False


def parse_canon(c):
    if c.startswith('i:'):
        return int(c[2:], 2)
    if c.startswith('b:'):
        return c == 'b:1'
    if c.startswith('f:'):
        n, d = c[2:].split('/')
        return float(Fraction(int(n, 2), int(d, 2)))
    if c == 'nan':
        return float('nan')
    if c in ('inf+', 'inf-'):
        return float('inf') if c == 'inf+' else float('-inf')
    if c.startswith('s:'):
        return bytes.fromhex(c[3:]).decode('utf-8')
    return None


# ---------------------------------------------------------------------------
# running the implementation (one interpreter per hash seed and shard)
# ---------------------------------------------------------------------------

def run_impl_all(cases):
    """[[obs under seed 0, seed 1, seed 2] for each case]"""
    n = len(cases)
    shards = 1 if n <= 400 else 16
    size = (n + shards - 1) // shards
    jobs = []
    for hs in HASH_SEEDS:
        for lo in range(0, n, size):
            jobs.append((hs, lo, cases[lo:lo + size]))

    def work(job):
        hs, lo, chunk = job
        return hs, lo, common.run_impl_script('c18_impl.py', {'cases': chunk}, hashseed=hs)
    res = {hs: [None] * n for hs in HASH_SEEDS}
    with ThreadPoolExecutor(max_workers=min(16, len(jobs))) as ex:
        for hs, lo, out in ex.map(work, jobs):
            res[hs][lo:lo + len(out)] = out
    return [[res[hs][k] for hs in HASH_SEEDS] for k in range(n)]


def nontrivial(case, obs):
    """at least one type kept only because it is referenced, and at least one
    type, attribute and effect row dropped"""
    if 'raise' in obs:
        return False
    raw = Raw(tag_positions(case))

    def ints(keys):
        return set(int(x) for x in keys if x.lstrip('-').isdigit())
    bt = ints(obs['types'])
    return bool(bt - raw.strong) and bool(set(raw.types) - bt) and \
        bool(set(raw.attrs) - ints(obs['attrs'])) and \
        bool(set(raw.effects) - ints(obs['effects']))


def strip(case):
    return {'tables': case['tables']}


def run(rep):
    rng = random.Random(rep.seed)
    n = 200 if rep.tier == 'quick' else 10000
    proved = common.prove(rep, PROP_FILE, TABLE_NAMES, ['extract/X_builder.vo'])
    if proved and rep.tier == 'thorough':
        common.coqchk(rep, PROP_FILE)
    load_const()
    corpus = common.load_corpus('C18')
    cases = corpus + gen_cases(rng, n)
    rep.cov['rule'] = (
        'raw data sets of nine tables (3-14 types, 2-6 groups about half in kept categories, 3-12 '
        'attributes with maxAttributeID chains/cycles, 2-8 effects plus rack effects with the seven '
        'attribute fields and modifier infos, buff rows with the four modifier sections, skill '
        'requirement chains/cycles, autocharge and buff-id attribute values); mostly-valid stream '
        '(3 of 4) and malformed stream (1 of 4): duplicate/missing/non-integer primary keys, '
        'float/bool/string/None/nan/inf ids and values, dangling ids, surplus default and rack '
        'effects, missing mandatory fields; each data set run under PYTHONHASHSEED %s; non-trivial = '
        'some type kept only by reference and some type, attribute and effect row dropped; distinct '
        'by content' % '/'.join(HASH_SEEDS))
    obs = run_impl_all([strip(c) for c in cases])
    rep.cov['evaluations'] = len(cases) * len(HASH_SEEDS)
    seen = set()
    for c, o in zip(cases, obs):
        if nontrivial(c, o[0]):
            seen.add(json.dumps(c['tables'], sort_keys=True))
    rep.cov['distinct_nontrivial'] = len(seen)
    rep.cov['samples'] = [{'case': cases[k]['tables'], 'impl': obs[k][0]}
                          for k in range(len(corpus), len(corpus) + 2)]
    hist = {'built': 0}
    for o in obs:
        k = 'raise ' + o[0]['raise'] if 'raise' in o[0] else 'built'
        hist[k] = hist.get(k, 0) + 1
    rep.cov['outcome_histogram'] = hist
    rep.cov['stream_histogram'] = {
        s: sum(1 for c in cases if c.get('stream') == s) for s in ('valid', 'malformed', None)}
    rep.cov['hash_seeds'] = HASH_SEEDS
    disagreements = []
    try:
        exe = common.build_driver('builder')
        out = common.run_driver(exe, [model_line(c) for c in cases])
        rep.cov['model_out_of_domain'] = 0
        for k in range(len(cases)):
            mobs = parse_model(out[k])
            if mobs.get('raise') == 'OutOfDomain':
                rep.cov['model_out_of_domain'] += 1
            for s in range(len(HASH_SEEDS)):
                d = compare(obs[k][s], mobs)
                if d:
                    disagreements.append((k, 'PYTHONHASHSEED=%s: %s' % (HASH_SEEDS[s], d), mobs))
                    break
        rep.cov['traces_validated_against_impl'] = len(cases)
    except common.TieBroken as e:
        rep.broken.append('%s: %s' % (e.what, e.detail))
    # fixed findings: their witnesses are corpus cases; they must pass the oracle
    for f in common.known_findings('C18'):
        if f['status'] == 'fixed':
            w = json.load(open(os.path.join(common.VERIF, f['witness'])))['case']
            wobs = run_impl_all([strip(w)])[0]
            why = oracle(w, wobs)
            if why:
                rep.violation({'kind': 'input', 'case': strip(w), 'impl': wobs[0], 'fails': why,
                               'note': 'witness of fixed finding %s fails again' % f['id']})
    finish(rep, cases, obs, disagreements)


def failure_class(why):
    """coarse class of an oracle failure, kept fixed while shrinking"""
    for key in ('hash iteration order', 'raised', 'non-integer id', 'was not built', 'nothing kept references',
                'was dropped', 'rack effect', 'default effect', 'first row', 'templates', 'category'):
        if key in why:
            return key
    return why[:20]


def shrink(case, why):
    """greedy row removal (then field removal) keeping an oracle failure of
    the same class; in-process runs unless the failure is about hash order"""
    cls = failure_class(why)
    if cls == 'hash iteration order':
        return case, why

    def fails(c):
        o = c18_impl.run_case(c)
        w = oracle(c, [o, o, o])
        return w if w and failure_class(w) == cls else None
    import logging
    logging.disable(logging.CRITICAL)
    cur = {'tables': {t: [dict(r) for r in case['tables'].get(t, [])] for t in TABLES}}
    if not fails(cur):
        return case, why
    progress = True
    while progress:
        progress = False
        for t in TABLES:
            i = 0
            while i < len(cur['tables'][t]):
                cand = {'tables': dict(cur['tables'])}
                cand['tables'][t] = cur['tables'][t][:i] + cur['tables'][t][i + 1:]
                if fails(cand):
                    cur = cand
                    progress = True
                else:
                    i += 1
    for t in TABLES:
        for i, row in enumerate(cur['tables'][t]):
            for f in list(row):
                cand = {'tables': {tt: [dict(r) for r in rows] for tt, rows in cur['tables'].items()}}
                del cand['tables'][t][i][f]
                if fails(cand):
                    cur = cand
    return cur, fails(cur)


def finish(rep, cases, obs, disagreements):
    if not rep.broken and not disagreements:
        return
    order = [k for k, _, _ in disagreements] + list(range(len(cases)))
    seen = set()
    for k in order:
        if k in seen:
            continue
        seen.add(k)
        why = oracle(cases[k], obs[k])
        if why:
            small, why_small = shrink(strip(cases[k]), why)
            rep.violation({'kind': 'input', 'case': small, 'fails': why_small,
                           'impl': c18_impl.run_case(small),
                           'unshrunk': {'case': strip(cases[k]), 'fails': why},
                           'broken': rep.broken,
                           'disagreement': next((d for kk, d, _ in disagreements if kk == k), None)})
            return
    rep.violation({'kind': 'obligation', 'broken': rep.broken,
                   'disagreements': [{'case': strip(cases[k]), 'impl': obs[k][0], 'model': m, 'what': d}
                                     for k, d, m in disagreements[:3]]},
                  found_input=False)


def replay(path):
    r = json.load(open(path))
    if 'case' not in r:
        print(json.dumps(r, indent=1, default=str)[:4000])
        return 1
    load_const()
    obs = run_impl_all([strip(r['case'])])[0]
    why = oracle(r['case'], obs)
    print('impl (PYTHONHASHSEED=%s):' % HASH_SEEDS[0], json.dumps(obs[0])[:3000])
    print('oracle:', why or 'property holds on this input')
    return 1 if why else 0
