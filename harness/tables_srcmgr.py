"""Translator for C17: eos/source/manager.py (+ source.py) -> coq/gen/T_srcmgr.v.

Emitted: the statement order of SourceManager.add (alias check first, before
any side effect), the rebuild condition as an expression tree, the fingerprint
format string split into pieces with its argument order, the arguments of the
update_cache call, the make_default test.  get/remove/list and the Source
namedtuple are matched against their one expected shape.  Fail closed."""
import ast

from pyast import Shape, parse, find_class, find_func, dotted, expect


def body_of(fn):
    return [s for s in fn.body
            if not (isinstance(s, ast.Expr) and isinstance(s.value, ast.Constant))]


def is_log(st):
    return isinstance(st, ast.Expr) and isinstance(st.value, ast.Call) and \
        dotted(st.value.func).startswith('logger.')


def cstr(s):
    expect('"' not in s and '\\' not in s, 'unexpected character in %r' % s)
    return '"%s"' % s


VARS = {'data_version': 'VVersion', 'cache_fp': 'VCacheFp', 'current_fp': 'VCurrentFp'}


def operand(e):
    if isinstance(e, ast.Constant) and e.value is None:
        return 'VNone'
    if isinstance(e, ast.Name) and e.id in VARS:
        return VARS[e.id]
    raise Shape('rebuild condition: unexpected operand %s' % ast.dump(e)[:80])


def cond(e):
    if isinstance(e, ast.BoolOp):
        op = {ast.Or: 'COr', ast.And: 'CAnd'}[type(e.op)]
        out = cond(e.values[0])
        for v in e.values[1:]:
            out = '(%s %s %s)' % (op, out, cond(v))
        return out
    if isinstance(e, ast.UnaryOp) and isinstance(e.op, ast.Not):
        return '(CNot %s)' % cond(e.operand)
    if isinstance(e, ast.Compare):
        expect(len(e.ops) == 1, 'rebuild condition: chained comparison')
        op = {ast.Is: 'CIs', ast.IsNot: 'CIsNot', ast.Eq: 'CEq', ast.NotEq: 'CNe'}.get(type(e.ops[0]))
        expect(op is not None, 'rebuild condition: unsupported comparison %s' %
               type(e.ops[0]).__name__)
        return '(%s %s %s)' % (op, operand(e.left), operand(e.comparators[0]))
    raise Shape('rebuild condition: unsupported expression %s' % ast.dump(e)[:80])


def format_pieces(s):
    """'{}_{}' -> [FArg 0; FLit "_"; FArg 1]; only auto-numbered plain fields"""
    out = []
    n = 0
    lit = ''
    i = 0
    while i < len(s):
        c = s[i]
        if c == '{':
            expect(s[i:i + 2] == '{}', 'format string: only plain {} fields are supported')
            if lit:
                out.append('FLit %s' % cstr(lit))
                lit = ''
            out.append('FArg %d' % n)
            n += 1
            i += 2
            continue
        expect(c != '}', 'format string: stray }')
        lit += c
        i += 1
    if lit:
        out.append('FLit %s' % cstr(lit))
    return out, n


def generate(repo):
    tree = parse(repo, 'eos/source/manager.py')
    # eos_version must be the package version
    imp = [n for n in tree.body if isinstance(n, ast.ImportFrom) and n.module == 'eos']
    expect(len(imp) == 1 and len(imp[0].names) == 1 and imp[0].names[0].name == '__version__'
           and imp[0].names[0].asname == 'eos_version', 'import of eos.__version__ as eos_version')
    cls = find_class(tree, 'SourceManager')
    # class-level state
    lvl = {}
    for st in cls.body:
        if isinstance(st, ast.Assign) and isinstance(st.targets[0], ast.Name):
            lvl[st.targets[0].id] = st.value
    expect(set(lvl) == {'_sources', 'default'} and isinstance(lvl['_sources'], ast.Dict)
           and not lvl['_sources'].keys and isinstance(lvl['default'], ast.Constant)
           and lvl['default'].value is None, 'class-level state shape')

    add = find_func(cls, 'add')
    expect([a.arg for a in add.args.args] ==
           ['cls', 'alias', 'data_handler', 'cache_handler', 'make_default'] and
           len(add.args.defaults) == 1 and isinstance(add.args.defaults[0], ast.Constant)
           and add.args.defaults[0].value is False, 'add signature')
    steps = []
    rebuild = None
    upd_args = None
    dflt = None
    for st in body_of(add):
        if is_log(st):
            continue
        if isinstance(st, ast.If):
            t = st.test
            if isinstance(t, ast.Compare) and isinstance(t.ops[0], ast.In) and \
                    dotted(t.left) == 'alias' and dotted(t.comparators[0]) == 'cls._sources':
                expect(len(st.body) == 1 and isinstance(st.body[0], ast.Raise) and
                       dotted(st.body[0].exc.func) == 'ExistingSourceError' and not st.orelse,
                       'alias check shape')
                steps.append('ACheckAlias')
                continue
            if isinstance(t, ast.Compare) and dotted(t.left) == 'make_default':
                expect(len(t.ops) == 1 and isinstance(t.ops[0], ast.Is) and
                       isinstance(t.comparators[0], ast.Constant) and
                       t.comparators[0].value is True, 'make_default test shape')
                expect(len(st.body) == 1 and isinstance(st.body[0], ast.Assign) and
                       dotted(st.body[0].targets[0]) == 'cls.default' and
                       dotted(st.body[0].value) == 'source' and not st.orelse,
                       'default assignment shape')
                dflt = 'DIsTrue'
                steps.append('ADefaultIf')
                continue
            # rebuild
            expect(rebuild is None and not st.orelse, 'second conditional in add')
            rebuild = cond(t)
            inner = [s for s in st.body if not is_log(s)]
            # logging-only if/else allowed
            inner = [s for s in inner if not (
                isinstance(s, ast.If) and all(
                    is_log(x) or (isinstance(x, ast.Assign) and isinstance(x.targets[0], ast.Name)
                                  and x.targets[0].id == 'msg')
                    for x in s.body + s.orelse))]
            expect(len(inner) == 2, 'rebuild body: expected build + update_cache')
            b, u = inner
            expect(isinstance(b, ast.Assign) and dotted(b.targets[0]) == 'eve_objects' and
                   isinstance(b.value, ast.Call) and dotted(b.value.func) == 'EveObjBuilder.run'
                   and [dotted(a) for a in b.value.args] == ['data_handler'], 'builder call shape')
            expect(isinstance(u, ast.Expr) and isinstance(u.value, ast.Call) and
                   dotted(u.value.func) == 'cache_handler.update_cache' and
                   not u.value.keywords, 'update_cache call shape')
            names = {'eve_objects': 'UObjs', 'current_fp': 'UCurrentFp', 'cache_fp': 'UCacheFp',
                     'data_version': 'UVersion'}
            upd_args = []
            for a in u.value.args:
                expect(dotted(a) in names, 'update_cache argument %s' % dotted(a))
                upd_args.append(names[dotted(a)])
            steps.append('ARebuildIf')
            continue
        expect(isinstance(st, ast.Assign) and len(st.targets) == 1, 'add: unexpected statement %s'
               % ast.dump(st)[:80])
        tgt = st.targets[0]
        v = st.value
        if isinstance(tgt, ast.Name) and tgt.id == 'cache_fp':
            expect(isinstance(v, ast.Call) and dotted(v.func) == 'cache_handler.get_fingerprint'
                   and not v.args, 'cache_fp shape')
            steps.append('AGetFp')
        elif isinstance(tgt, ast.Name) and tgt.id == 'data_version':
            expect(isinstance(v, ast.Call) and dotted(v.func) == 'data_handler.get_version'
                   and not v.args, 'data_version shape')
            steps.append('AGetVersion')
        elif isinstance(tgt, ast.Name) and tgt.id == 'current_fp':
            expect(isinstance(v, ast.Call) and dotted(v.func) == 'cls.__format_fingerprint' and
                   [dotted(a) for a in v.args] == ['data_version'], 'current_fp shape')
            steps.append('AFormat')
        elif isinstance(tgt, ast.Name) and tgt.id == 'source':
            expect(isinstance(v, ast.Call) and dotted(v.func) == 'Source' and not v.args and
                   {k.arg: dotted(k.value) for k in v.keywords} ==
                   {'alias': 'alias', 'cache_handler': 'cache_handler'}, 'Source(...) shape')
            steps.append('AMakeSource')
        elif isinstance(tgt, ast.Subscript):
            expect(dotted(tgt.value) == 'cls._sources' and dotted(tgt.slice) == 'alias' and
                   dotted(v) == 'source', 'registry store shape')
            steps.append('AStore')
        else:
            raise Shape('add: unexpected assignment %s' % ast.dump(st)[:80])
    expect(rebuild is not None and dflt is not None and upd_args is not None, 'add: parts missing')

    ff = find_func(cls, '__format_fingerprint')
    fb = body_of(ff)
    expect([a.arg for a in ff.args.args] == ['data_version'] and len(fb) == 1 and
           isinstance(fb[0], ast.Return), '__format_fingerprint shape')
    c = fb[0].value
    expect(isinstance(c, ast.Call) and isinstance(c.func, ast.Attribute) and
           c.func.attr == 'format' and isinstance(c.func.value, ast.Constant) and
           isinstance(c.func.value.value, str) and not c.keywords, 'format call shape')
    pieces, n = format_pieces(c.func.value.value)
    argn = {'data_version': 'FVersion', 'eos_version': 'FEngine'}
    fargs = []
    for a in c.args:
        expect(dotted(a) in argn, 'format argument %s' % dotted(a))
        fargs.append(argn[dotted(a)])
    expect(len(fargs) == n, 'format: %d fields, %d arguments' % (n, len(fargs)))

    # get / remove / list
    g = body_of(find_func(cls, 'get'))
    expect(len(g) == 1 and isinstance(g[0], ast.Try) and len(g[0].body) == 1 and
           isinstance(g[0].body[0], ast.Return) and
           isinstance(g[0].body[0].value, ast.Subscript) and
           dotted(g[0].body[0].value.value) == 'cls._sources' and
           dotted(g[0].body[0].value.slice) == 'alias' and len(g[0].handlers) == 1 and
           dotted(g[0].handlers[0].type) == 'KeyError' and
           dotted(g[0].handlers[0].body[0].exc.func) == 'UnknownSourceError', 'get shape')
    r = [s for s in body_of(find_func(cls, 'remove')) if not is_log(s)]
    expect(len(r) == 1 and isinstance(r[0], ast.Try) and len(r[0].body) == 1 and
           isinstance(r[0].body[0], ast.Delete) and
           dotted(r[0].body[0].targets[0].value) == 'cls._sources' and
           dotted(r[0].body[0].targets[0].slice) == 'alias' and len(r[0].handlers) == 1 and
           dotted(r[0].handlers[0].type) == 'KeyError' and
           dotted(r[0].handlers[0].body[0].exc.func) == 'UnknownSourceError', 'remove shape')
    li = body_of(find_func(cls, 'list'))
    expect(len(li) == 1 and isinstance(li[0], ast.Return) and isinstance(li[0].value, ast.Call)
           and dotted(li[0].value.func) == 'list' and
           isinstance(li[0].value.args[0], ast.Call) and
           dotted(li[0].value.args[0].func) == 'cls._sources.keys', 'list shape')
    # Source namedtuple
    stree = parse(repo, 'eos/source/source.py')
    src = [n for n in stree.body if isinstance(n, ast.Assign) and dotted(n.targets[0]) == 'Source']
    expect(len(src) == 1 and isinstance(src[0].value, ast.Call) and
           dotted(src[0].value.func) == 'namedtuple' and
           [e.value for e in src[0].value.args[1].elts] == ['alias', 'cache_handler'],
           'Source namedtuple shape')

    def lst(items):
        return '[' + '; '.join(items) + ']'
    return ('(* GENERATED by harness/tables_srcmgr.py from eos/source/manager.py -- do not edit *)\n'
            'From Coq Require Import List String.\n'
            'From EosV Require Import model.SourceMgr.\n'
            'Import ListNotations.\nLocal Open Scope string_scope.\n\n'
            'Definition add_steps : list astep := %s.\n'
            'Definition rebuild_cond : cond := %s.\n'
            'Definition update_args : list uarg := %s.\n'
            'Definition fp_pieces : list fpiece := %s.\n'
            'Definition fp_args : list farg := %s.\n'
            'Definition default_test : dtest := %s.\n'
            'Definition gen_mgr : mgr_tables :=\n'
            '  mkMgrTables add_steps rebuild_cond update_args fp_pieces fp_args default_test.\n'
            % (lst(steps), rebuild, lst(upd_args), lst(pieces), lst(fargs), dflt))


if __name__ == '__main__':
    import sys
    print(generate(sys.argv[1] if len(sys.argv) > 1 else '/repo'))
