"""Shared driver of the engine-family checks (C01, C02, C05-C11, C13, C14):
proof side + correspondence of the extracted engine model with the real eos on
generated histories + direct oracle search when something broke."""
import glob
import json
import os
import random

import common
import eng_gen
import eng_impl
import eng_oracle
import eng_run
import eng_shrink

TABLES = ['eos']
EXTRA = ['extract/X_engine.vo']


def corpus_histories(pid):
    out = []
    for d in ('engine', pid):
        for f in sorted(glob.glob(os.path.join(common.VERIF, 'corpus', d, '*.json'))):
            c = json.load(open(f))
            if 'ulines' in c and 'ops' in c:
                out.append((os.path.basename(f), c))
    return out


def meta_of(ulines, ops):
    items, fits, sss, attrs = set(), set(), set(), set()
    for l in ops:
        t = l.split()
        if t[0] == 'new':
            items.add(int(t[1]))
        elif t[0] == 'fit':
            fits.add(int(t[1]))
            items.add(int(t[2]))
        elif t[0] == 'solsys':
            sss.add(int(t[1]))
    for l in ulines:
        t = l.split()
        if t[0] == 'u_attr':
            attrs.add(int(t[2]))
    return dict(items=sorted(items), fits=sorted(fits), sss=sorted(sss), attrs=sorted(attrs), setup_len=0)


def run(rep, pid, prop_file, gen, n_quick, n_thorough, disciplines, oracle, rule,
        internal_is_violation=False, post=None, extra_histories=None, exact_penalty=True,
        real_penalty_share=0.25, direct=0):
    """gen(rng) -> (ulines, oplines, meta); oracle(ulines, lines, meta) -> None | dict(fails=...)"""
    rng = random.Random(rep.seed)
    n = n_quick if rep.tier == 'quick' else n_thorough
    proved = common.prove(rep, prop_file, TABLES, EXTRA)
    if proved and rep.tier == 'thorough':
        common.coqchk(rep, prop_file)
    rep.cov['rule'] = rule
    hists = []          # (name, ulines, lines(with kinds), meta, plain op lines)
    for name, c in corpus_histories(pid):
        meta = meta_of(c['ulines'], c['ops'])
        script = eng_run.build_script(c['ulines'], c['ops'], meta, 'end', rng)
        hists.append((name, c['ulines'], script, meta, c['ops']))
    for k in range(n):
        ul, ol, meta = gen(rng)
        if post:
            ol = ol + post(meta)
        disc = disciplines[k % len(disciplines)]
        hists.append(('gen%d/%s' % (k, disc), ul, eng_run.build_script(ul, ol, meta, disc, rng), meta, ol))
    if extra_histories:
        for name, ul, ol, meta in extra_histories(rng, rep.tier):
            hists.append((name, ul, eng_run.build_script(ul, ol, meta, 'all', rng), meta, ol))
    # feature-interaction scenarios (eng_scen): corners random histories seldom reach
    import eng_scen
    for k, (name, ul, ol, meta) in enumerate(eng_scen.scenarios(rng, rep.tier)):
        disc = 'all' if k % 3 else 'some'
        hists.append((name, ul, eng_run.build_script(ul, ol, meta, disc, rng), meta, ol))
    res = eng_run.Result()
    model_ok = True
    try:
        exe = common.build_driver('engine')
        # exact mode (PENALTY_BASE = 0.5) and real-constant mode
        split = int(len(hists) * (1 - real_penalty_share)) if exact_penalty else 0
        for part, base in ((hists[:split], 0.5), (hists[split:], None)):
            if not part:
                continue
            eng_impl.set_penalty_base(base)
            pens = eng_impl.penalties()
            off = len(res.disagreements), len(res.internal), res.histories
            eng_run.run_histories(exe, [h[2] for h in part], pens, eng_impl.Impl, res)
            for d in res.disagreements[off[0]:]:
                d['history'] += off[2]
                d['penalty_base'] = base
            for d in res.internal[off[1]:]:
                d['history'] += off[2]
                d['penalty_base'] = base
        eng_impl.set_penalty_base(None)
    except common.TieBroken as e:
        model_ok = False
        rep.broken.append('%s: %s' % (e.what, e.detail))
    cov = rep.cov
    cov['evaluations'] = res.lines
    cov['histories'] = res.histories
    cov['operations'] = res.ops
    cov['distinct_nontrivial'] = len(res.nontrivial)
    cov['traces_validated_against_impl'] = res.histories if model_ok else 0
    cov['operation_histogram'] = res.op_hist
    cov['exception_histogram'] = res.exn_hist
    cov['message_histogram'] = res.msg_hist
    cov['values_exactly_equal'] = res.exact_vals
    cov['values_equal_within_1e-9'] = res.inexact_vals
    cov['values_equal_only_under_absolute_floor_1e-9'] = res.floor_vals
    cov['histories_discarded_zero_division'] = res.zero_div
    cov['histories_ending_in_internal_error'] = len(res.internal)
    cov['samples'] = [{'name': h[0], 'ops': h[4][-12:]} for h in hists[:2]] or [{'none': True}]
    problems = list(res.disagreements) + (list(res.internal) if internal_is_violation else [])
    if not rep.broken and not problems:
        # the theorems of this property are partial for the engine as a whole: additionally
        # evaluate the property itself on the implementation for a sample of the histories
        # (a search aid that can only produce a genuine failing input, never the deciding method)
        nd = direct if rep.tier == 'quick' else direct * 10
        checked = 0
        per_kind = {}
        for hi, (name, ul, script, meta, ol) in enumerate(hists):
            if name.startswith('row'):
                continue
            if name.startswith('scen:'):
                # one instance (three in thorough runs) of every scenario kind, whatever the sample size
                kind = name.rstrip('0123456789')
                per_kind[kind] = per_kind.get(kind, 0) + 1
                if direct == 0 or per_kind[kind] > (2 if rep.tier == 'quick' else 6):
                    continue
            elif checked >= nd:
                continue
            else:
                checked += 1
            lines = [l for l, k in script if not l.startswith(('u_', 'commit'))]
            eng_impl.set_penalty_base(0.5)
            try:
                why = oracle(ul, lines, meta)
            finally:
                eng_impl.set_penalty_base(None)
            if why:
                upto = why.get('upto')
                rep.violation({'kind': 'history', 'name': name, 'ulines': ul,
                               'ops': lines if upto is None else lines[:upto + 1], 'fails': why['fails'],
                               'penalty_base': 0.5, 'broken': [],
                               'note': 'model and implementation agree on this history; the property itself fails'})
                break
        cov['property_evaluated_directly_on_implementation'] = checked
        return res, hists
    # ---- something broke: search for a failing input with the direct oracle
    order = [d['history'] for d in problems] + list(range(len(hists)))
    seen = set()
    budget = 60 if rep.tier == 'quick' else 400
    for hi in order:
        if hi in seen or len(seen) >= budget:
            continue
        seen.add(hi)
        name, ul, script, meta, ol = hists[hi]
        lines = [l for l, k in script if not l.startswith(('u_', 'commit'))]
        base = next((d.get('penalty_base') for d in problems if d['history'] == hi), 0.5)
        eng_impl.set_penalty_base(base)
        try:
            why = oracle(ul, lines, meta)
        finally:
            eng_impl.set_penalty_base(None)
        if why:
            upto = why.get('upto')
            keep = lines if upto is None else lines[:upto + 1]
            rep.violation({'kind': 'history', 'name': name, 'ulines': ul, 'ops': keep, 'fails': why['fails'],
                           'penalty_base': base, 'broken': rep.broken,
                           'disagreement': next((d for d in problems if d['history'] == hi), None)})
            return res, hists
    # none found: shrink the first disagreement for the report
    detail = None
    if problems and model_ok:
        d = problems[0]
        name, ul, script, meta, ol = hists[d['history']]
        lines = [l for l, k in script if not l.startswith(('u_', 'commit'))]
        try:
            eng_impl.set_penalty_base(d.get('penalty_base', 0.5))
            small, dd = eng_shrink.shrink(exe, eng_impl.penalties(), ul, lines, internal_is_violation, budget=150)
            detail = {'ulines': ul, 'ops': small, 'first_difference': dd}
        except Exception as e:  # noqa
            detail = {'ulines': ul, 'ops': lines[:d['index'] + 1], 'first_difference': d, 'shrink_error': str(e)}
        finally:
            eng_impl.set_penalty_base(None)
    rep.violation({'kind': 'obligation', 'broken': rep.broken,
                   'correspondence_case': detail,
                   'note': 'model and implementation disagree or a proof obligation failed, and the direct '
                           'oracle found no input on which the property itself fails'},
                  found_input=False)
    return res, hists


def replay(path, oracle):
    r = json.load(open(path))
    if 'ops' not in r and r.get('correspondence_case'):
        r = r['correspondence_case']
    if 'ops' not in r:
        print(json.dumps(r, indent=1)[:3000])
        return 1
    eng_impl.set_penalty_base(r.get('penalty_base', 0.5))
    meta = meta_of(r['ulines'], r['ops'])
    why = oracle(r['ulines'], r['ops'], meta)
    impl = eng_impl.Impl()
    for l in r['ulines']:
        impl.run(l)
    for l in r['ops'][-15:] if False else []:
        pass
    print('oracle:', why['fails'] if why else 'property holds on this input')
    return 1 if why else 0
