"""Translator for C18: eos/eve_obj_builder/{builder,validator_preclean,
normalizer,cleaner,validator_preconv,converter,buff_template_builder}.py and the
enum values they name in eos/const/eve.py -> coq/gen/T_builder.v.

Every extractor matches one expected source shape and raises (fail-closed) on
anything else.  What is emitted:

  table, gen_tables            builder.py getter_map (9 tables, getter names)
  gen_stage_order              builder.py: order of the five stages
  gen_pk_spec                  validator_preclean.py pk_spec
  gen_norm_attr_map            normalizer.py attr_map
  gen_strong_categories/groups cleaner.py _pump_evetypes
  gen_aux_tables               cleaner.py _reanimate_auxiliary_friends
  gen_foreign_keys             cleaner.py _get_tgts_relational
  gen_modinfo_rel              cleaner.py _modinfo_relations + _get_tgts_modinfo
  gen_autocharge_attrs/_tgt/_catches, gen_buffattr_attrs/_tgt/_catches
                               cleaner.py _get_tgts_attr_autocharge/_buff
  gen_buff_sections            cleaner.py _get_tgts_buff
  gen_cleanup_shape            cleaner.py _autocleanup/_reestablish call order
  gen_preconv_order, gen_rack_effects   validator_preconv.py
  gen_attr_ctor, gen_effect_ctor, gen_conv_reads, gen_type_ctor
                               converter.py
  gen_buff_tpl, gen_buff_operator_field/_names, gen_buff_aggregate_field/_names
                               buff_template_builder.py
"""
import ast

from pyast import Shape, parse, find_class, find_func, dotted, expect, enum_members

TABLES = ['evetypes', 'evegroups', 'dgmattribs', 'dgmtypeattribs', 'dgmeffects',
          'dgmtypeeffects', 'dbuffcollections', 'skillreqs', 'typefighterabils']


# ---------------------------------------------------------------------------
# small ast helpers
# ---------------------------------------------------------------------------

def body_of(fn):
    b = fn.body
    if b and isinstance(b[0], ast.Expr) and isinstance(b[0].value, ast.Constant) \
            and isinstance(b[0].value.value, str):
        b = b[1:]
    return b


def cstr(e):
    expect(isinstance(e, ast.Constant) and isinstance(e.value, str),
           'expected string literal, got %s' % ast.dump(e)[:80])
    return e.value


def local_assign(fn, name):
    """value of the unique `name = <expr>` anywhere inside fn"""
    found = [n.value for n in ast.walk(fn)
             if isinstance(n, ast.Assign) and len(n.targets) == 1 and
             isinstance(n.targets[0], ast.Name) and n.targets[0].id == name]
    expect(len(found) == 1, '%s: expected exactly one assignment to %s, got %d'
           % (fn.name, name, len(found)))
    return found[0]


def seq(e, kinds=(ast.Tuple, ast.List, ast.Set)):
    expect(isinstance(e, kinds), 'expected literal sequence, got %s' % ast.dump(e)[:80])
    return e.elts


def str_pair(e):
    el = seq(e, (ast.Tuple,))
    expect(len(el) == 2, 'expected a pair')
    return cstr(el[0]), cstr(el[1])


class Enums:
    def __init__(self, repo):
        self.tree = parse(repo, 'eos/const/eve.py')
        self.cache = {}

    def get(self, e):
        d = dotted(e)
        cls, _, mem = d.partition('.')
        expect(cls in ('AttrId', 'EffectId', 'TypeCategoryId', 'TypeGroupId'),
               'unexpected enum %s' % d)
        if cls not in self.cache:
            self.cache[cls] = enum_members(self.tree, cls)
        expect(mem in self.cache[cls], 'unknown enum member %s' % d)
        v = self.cache[cls][mem]
        expect(isinstance(v, int), 'non-integer enum member %s' % d)
        return v


def row_reads(node, var='row'):
    """[(field, 'sub'|'get')] for var['f'] and var.get('f'[, d]) under node,
    in source order; any other use of var.<attr> is rejected."""
    out = []
    for n in ast.walk(node):
        if isinstance(n, ast.Subscript) and isinstance(n.value, ast.Name) and \
                n.value.id == var and isinstance(n.ctx, ast.Load):
            out.append((n.lineno, n.col_offset, cstr(n.slice), 'sub'))
        elif isinstance(n, ast.Call) and isinstance(n.func, ast.Attribute) and \
                isinstance(n.func.value, ast.Name) and n.func.value.id == var:
            expect(n.func.attr == 'get', 'unexpected method %s.%s' % (var, n.func.attr))
            expect(1 <= len(n.args) <= 2 and not n.keywords, '%s.get arity' % var)
            out.append((n.lineno, n.col_offset, cstr(n.args[0]), 'get'))
    out.sort()
    return [(f, k) for _, _, f, k in out]


def single_read(e, var='row'):
    r = row_reads(e, var)
    expect(len(r) == 1, 'expected exactly one read of %s in %s' % (var, ast.dump(e)[:80]))
    return r[0]


# ---------------------------------------------------------------------------
# Coq printing
# ---------------------------------------------------------------------------

def S(s):
    expect('"' not in s and all(32 <= ord(c) < 127 for c in s), 'odd string %r' % s)
    return '"%s"%%string' % s


def Z(n):
    return '(%d)%%Z' % n


def T(t):
    expect(t in TABLES, 'unknown table %s' % t)
    return 'T_' + t


def L(items):
    return '[' + '; '.join(items) + ']'


def tup(*xs):
    return '(' + ', '.join(xs) + ')'


# ---------------------------------------------------------------------------
# extractors
# ---------------------------------------------------------------------------

def x_builder(repo, out):
    tree = parse(repo, 'eos/eve_obj_builder/builder.py')
    run = find_func(find_class(tree, 'EveObjBuilder'), 'run')
    gm = local_assign(run, 'getter_map')
    expect(isinstance(gm, ast.Dict), 'getter_map: dict literal')
    names = []
    for k, v in zip(gm.keys, gm.values):
        n = cstr(k)
        expect(dotted(v) == 'data_handler.get_' + n, 'getter_map[%s]: getter shape' % n)
        names.append(n)
    expect(sorted(names) == sorted(TABLES) and len(names) == len(TABLES),
           'getter_map tables differ from the nine modelled ones: %s' % names)
    # the numbering loop: every row gets row['table_pos'] = running counter
    loops = [s for s in body_of(run) if isinstance(s, ast.For)]
    expect(len(loops) == 1, 'run: expected exactly one loading loop')
    lp = loops[0]
    expect(ast.unparse(lp.iter) == 'getter_map.items()', 'loading loop iterates getter_map.items()')
    src = [ast.unparse(s) for s in lp.body]
    expect(src[0] == 'table_pos = 0' and src[1] == 'table = set()' and
           src[-1] == 'data[table_name] = table' and len(lp.body) == 4,
           'loading loop shape')
    inner = lp.body[2]
    expect(isinstance(inner, ast.For) and ast.unparse(inner.iter) == 'getter()' and
           [ast.unparse(s) for s in inner.body] ==
           ["row['table_pos'] = table_pos", 'table_pos += 1',
            'table.add(cls._freeze_data(row))'], 'row numbering loop shape')
    # stage order
    stages = []
    for s in body_of(run):
        if isinstance(s, ast.Expr) and isinstance(s.value, ast.Call):
            stages.append(ast.unparse(s.value))
        elif isinstance(s, ast.Assign) and isinstance(s.value, ast.Call) and \
                isinstance(s.targets[0], ast.Tuple):
            stages.append(ast.unparse(s.value))
    out.append('Inductive table := ' + ' | '.join(T(t) for t in TABLES) + '.')
    out.append('Definition gen_tables : list table := %s.' % L(T(t) for t in names))
    out.append('Definition gen_stage_order : list string := %s.' % L(S(s) for s in stages))


def x_preclean(repo, out):
    tree = parse(repo, 'eos/eve_obj_builder/validator_preclean.py')
    cls = find_class(tree, 'ValidatorPreClean')
    run = find_func(cls, 'run')
    spec = local_assign(run, 'pk_spec')
    expect(isinstance(spec, ast.Dict), 'pk_spec: dict literal')
    items = []
    for k, v in zip(spec.keys, spec.values):
        items.append(tup(T(cstr(k)), L(S(cstr(x)) for x in seq(v, (ast.List, ast.Tuple)))))
    b = body_of(run)
    expect(len(b) == 2 and isinstance(b[1], ast.For) and
           ast.unparse(b[1].iter) == 'pk_spec.items()' and
           ast.unparse(b[1].body[0]) == 'cls._table_pk(pks, data[table_name], table_name)',
           'ValidatorPreClean.run shape')
    # _table_pk: scan in table_pos order, remove invalid rows
    tp = find_func(cls, '_table_pk')
    fors = [s for s in body_of(tp) if isinstance(s, ast.For)]
    expect(len(fors) == 1 and
           ast.unparse(fors[0].iter) == "sorted(rows, key=lambda row: row['table_pos'])" and
           ast.unparse(fors[0].body[0]) == 'cls._row_pk(pks, row, seen_pks, invalid_rows)',
           '_table_pk: scan shape')
    expect(any(ast.unparse(n) == 'rows.difference_update(invalid_rows)'
               for n in ast.walk(tp)), '_table_pk: removal shape')
    # _row_pk: the three invalidation causes
    rp = find_func(cls, '_row_pk')
    src = ast.unparse(rp)
    for frag in ('pk_value = row[pk_name]', 'except KeyError', 'isinstance(pk_value, Integral)',
                 'if row_pk in seen_pks', 'seen_pks.add(row_pk)'):
        expect(frag in src, '_row_pk: missing %r' % frag)
    expect(len([n for n in ast.walk(rp) if isinstance(n, ast.Return)]) == 3 and
           src.count('invalid_rows.add(row)') == 3, '_row_pk: three invalidation exits')
    out.append('Definition gen_pk_spec : list (table * list string) := %s.' % L(items))


def x_normalizer(repo, out, en):
    tree = parse(repo, 'eos/eve_obj_builder/normalizer.py')
    fn = find_func(find_class(tree, 'Normalizer'), '_move_attrs')
    am = local_assign(fn, 'attr_map')
    expect(isinstance(am, ast.Dict), 'attr_map: dict literal')
    items = [tup(S(cstr(k)), Z(en.get(v))) for k, v in zip(am.keys, am.values)]
    src = ast.unparse(fn)
    for frag in ("dgmtypeattribs = data['dgmtypeattribs']",
                 "if row['attributeID'] not in attr_ids",
                 "defined_pairs.add((row['typeID'], row['attributeID']))",
                 "for row in data['evetypes']", "type_id = row['typeID']",
                 'if value is None', 'if (type_id, attr_id) in defined_pairs',
                 "dgmtypeattribs.add(frozendict({'typeID': type_id, 'attributeID': attr_id, 'value': value}))"):
        expect(frag in src, 'Normalizer._move_attrs: missing %r' % frag)
    out.append('Definition gen_norm_attr_map : list (string * Z) := %s.' % L(items))


def except_names(fn):
    tries = [n for n in ast.walk(fn) if isinstance(n, ast.Try)]
    expect(len(tries) == 1 and len(tries[0].handlers) == 1, '%s: one try/except' % fn.name)
    t = tries[0]
    expect(len(t.body) == 1 and isinstance(t.body[0], ast.Assign) and
           isinstance(t.body[0].value, ast.Call) and dotted(t.body[0].value.func) == 'int' and
           ast.unparse(t.body[0].value.args[0]) == 'value',
           '%s: try body is `x = int(value)`' % fn.name)
    h = t.handlers[0]
    expect(len(h.body) == 1 and isinstance(h.body[0], ast.Continue), '%s: handler continues' % fn.name)
    if isinstance(h.type, ast.Tuple):
        return [dotted(x) for x in h.type.elts]
    return [dotted(h.type)]


def attr_value_getter(fn, en):
    """_get_tgts_attr_*: (attribute ids, (table, column), caught exceptions)"""
    fors = [s for s in body_of(fn) if isinstance(s, ast.For)]
    expect(len(fors) == 1 and ast.unparse(fors[0].iter) == "self.data['dgmtypeattribs']",
           '%s: loop over dgmtypeattribs' % fn.name)
    test = fors[0].body[0]
    expect(isinstance(test, ast.If) and isinstance(test.test, ast.Compare) and
           ast.unparse(test.test.left) == "row['attributeID']" and
           isinstance(test.test.ops[0], ast.NotIn) and
           isinstance(test.body[0], ast.Continue), '%s: attribute filter shape' % fn.name)
    ids = [en.get(x) for x in seq(test.test.comparators[0], (ast.Tuple,))]
    expect(ast.unparse(fors[0].body[1]) == "value = row.get('value')", '%s: value read' % fn.name)
    tgt = str_pair(local_assign(fn, 'tgt_spec'))
    return ids, tgt, except_names(fn)


def x_cleaner(repo, out, en):
    tree = parse(repo, 'eos/eve_obj_builder/cleaner.py')
    cls = find_class(tree, 'Cleaner')
    # clean(): pump, autocleanup
    calls = [ast.unparse(s.value) for s in body_of(find_func(cls, 'clean'))
             if isinstance(s, ast.Expr)]
    expect(calls == ['self._pump_evetypes()', 'self._autocleanup()', 'self._report_results()'],
           'Cleaner.clean call order: %s' % calls)
    # strong categories / groups
    pump = find_func(cls, '_pump_evetypes')
    cats = [en.get(x) for x in seq(local_assign(pump, 'strong_category_ids'), (ast.Tuple,))]
    grps = [en.get(x) for x in seq(local_assign(pump, 'strong_group_ids'), (ast.Set,))]
    src = ast.unparse(pump)
    for frag in ("for datarow in self.data['evegroups']",
                 "if datarow.get('categoryID') in strong_category_ids",
                 "strong_group_ids.add(datarow['groupID'])",
                 "for datarow in self.data['evetypes']",
                 "if datarow.get('groupID') in strong_group_ids",
                 "self._pump_data('evetypes', rows_to_pump)"):
        expect(frag in src, '_pump_evetypes: missing %r' % frag)
    out.append('Definition gen_strong_categories : list Z := %s.' % L(Z(c) for c in cats))
    out.append('Definition gen_strong_groups : list Z := %s.' % L(Z(g) for g in grps))
    # clean-up loop shape
    ac = body_of(find_func(cls, '_autocleanup'))
    expect([ast.unparse(s) for s in ac[:2]] == ['self._kill_weak()', 'self._changed = True'] and
           len(ac) == 3 and isinstance(ac[2], ast.While) and
           ast.unparse(ac[2].test) == 'self._changed is True' and
           [ast.unparse(s) for s in ac[2].body] ==
           ['self._changed = False', 'self._reanimate_auxiliary_friends()',
            'self._reestablish_broken_relationships()'], '_autocleanup shape')
    kw = ast.unparse(find_func(cls, '_kill_weak'))
    for frag in ('for table_name, table in self.data.items()',
                 'strong_rows = self.strong_data.get(table_name, set())',
                 'to_trash.update(table.difference(strong_rows))',
                 'self._trash_data(table_name, to_trash)'):
        expect(frag in kw, '_kill_weak: missing %r' % frag)
    # auxiliary tables
    rean = find_func(cls, '_reanimate_auxiliary_friends')
    aux = [cstr(x) for x in seq(local_assign(rean, 'aux_tables'), (ast.Tuple,))]
    src = ast.unparse(rean)
    for frag in ("type_ids = {row['typeID'] for row in self.data['evetypes']}",
                 'for row in self.trashed_data[table_name]',
                 "if row['typeID'] in type_ids", 'self._changed = True',
                 'self._restore_data(table_name, to_restore)'):
        expect(frag in src, '_reanimate_auxiliary_friends: missing %r' % frag)
    out.append('Definition gen_aux_tables : list table := %s.' % L(T(t) for t in aux))
    # the five target getters, in order, then the restore loop
    rest = find_func(cls, '_reestablish_broken_relationships')
    getters = [dotted(s.value.func) for s in body_of(rest)
               if isinstance(s, ast.Expr) and isinstance(s.value, ast.Call)]
    src = ast.unparse(rest)
    for frag in ('for tgt_spec, tgt_values in tgt_data.items()',
                 'for row in self.trashed_data[tgt_table_name]',
                 'if row.get(tgt_column_name) in tgt_values',
                 'self._restore_data(tgt_table_name, to_restore)', 'self._changed = True'):
        expect(frag in src, '_reestablish_broken_relationships: missing %r' % frag)
    out.append('Definition gen_cleanup_shape : list string := %s.' % L(S(g) for g in getters))
    # foreign keys
    rel = find_func(cls, '_get_tgts_relational')
    fk = local_assign(rel, 'foreign_keys')
    expect(isinstance(fk, ast.Dict), 'foreign_keys: dict literal')
    items = []
    for k, v in zip(fk.keys, fk.values):
        expect(isinstance(v, ast.Dict), 'foreign_keys[%s]: dict literal' % cstr(k))
        for c, t in zip(v.keys, v.values):
            tt, tc = str_pair(t)
            items.append(tup(T(cstr(k)), S(cstr(c)), T(tt), S(tc)))
    src = ast.unparse(rel)
    for frag in ('for row in self.data[src_table_name]', 'fk_value = row.get(src_column_name)',
                 'if fk_value is None', 'tgt_data.setdefault(tgt_spec, set()).add(fk_value)'):
        expect(frag in src, '_get_tgts_relational: missing %r' % frag)
    out.append('Definition gen_foreign_keys : list (table * string * table * string) := %s.' % L(items))
    # modifier info
    mr = find_func(cls, '_modinfo_relations')
    adds = [n for n in ast.walk(mr) if isinstance(n, ast.Call) and
            isinstance(n.func, ast.Name) and n.func.id == 'add_entity']
    adds.sort(key=lambda n: n.lineno)
    field_set = []
    for c in adds:
        expect(len(c.args) == 3 and dotted(c.args[0]) == 'mod_info', 'add_entity call shape')
        field_set.append((cstr(c.args[1]), dotted(c.args[2])))
    # add_entity: mod_info[attr_name] with KeyError -> nothing; then either the
    # raw value is added, or int(value) with some exceptions -> nothing
    ae = [n for n in body_of(mr) if isinstance(n, ast.FunctionDef) and n.name == 'add_entity']
    expect(len(ae) == 1 and [a.arg for a in ae[0].args.args] == ['mod_info', 'attr_name', 'entities'],
           'add_entity signature')
    ab = body_of(ae[0])
    expect(len(ab) == 1 and isinstance(ab[0], ast.Try) and len(ab[0].handlers) == 1 and
           ast.unparse(ab[0].body[0]) == 'entity_id = mod_info[attr_name]' and
           dotted(ab[0].handlers[0].type) == 'KeyError' and
           isinstance(ab[0].handlers[0].body[0], ast.Pass) and not ab[0].finalbody,
           'add_entity: lookup shape')
    els = ab[0].orelse
    if len(els) == 1:
        expect(ast.unparse(els[0]) == 'entities.add(entity_id)', 'add_entity: add shape')
        coerce = []
    else:
        expect(len(els) == 2 and isinstance(els[0], ast.Try) and len(els[0].handlers) == 1 and
               [ast.unparse(x) for x in els[0].body] == ['entity_id = int(entity_id)'] and
               len(els[0].handlers[0].body) == 1 and
               isinstance(els[0].handlers[0].body[0], ast.Return) and
               els[0].handlers[0].body[0].value is None and
               not els[0].orelse and not els[0].finalbody and
               ast.unparse(els[1]) == 'entities.add(entity_id)', 'add_entity: int() coercion shape')
        ht = els[0].handlers[0].type
        coerce = [dotted(x) for x in ht.elts] if isinstance(ht, ast.Tuple) else [dotted(ht)]
    out.append('Definition gen_modinfo_int_catches : list string := %s.' % L(S(e) for e in coerce))
    src = ast.unparse(mr)
    for frag in ("chain(self.data['dgmeffects'], self.trashed_data['dgmeffects'])",
                 "mod_infos = effect_row.get('modifierInfo')", 'if not mod_infos',
                 'if not isinstance(mod_infos, Iterable)', 'for mod_info in mod_infos',
                 'entity_id = mod_info[attr_name]', 'except KeyError',
                 "relations[effect_row['effectID']] = (type_ids, group_ids, attr_ids)"):
        expect(frag in src, '_modinfo_relations: missing %r' % frag)
    gm = find_func(cls, '_get_tgts_modinfo')
    src = ast.unparse(gm)
    for frag in ("for effect_row in self.data['dgmeffects']", "effect_id = effect_row['effectID']",
                 'relations = modinfo_relations[effect_id]',
                 'type_ids, group_ids, attr_ids = relations',
                 'tgt_data.setdefault(tgt_spec, set()).update(references)'):
        expect(frag in src, '_get_tgts_modinfo: missing %r' % frag)
    fors = [n for n in ast.walk(gm) if isinstance(n, ast.For) and isinstance(n.iter, ast.Tuple)]
    expect(len(fors) == 1, '_get_tgts_modinfo: triple loop')
    set_tgt = {}
    for tr in fors[0].iter.elts:
        el = seq(tr, (ast.Tuple,))
        expect(len(el) == 3, 'modinfo triple')
        set_tgt[dotted(el[0])] = (cstr(el[1]), cstr(el[2]))
    items = []
    for f, s in field_set:
        expect(s in set_tgt, 'modinfo set %s has no target' % s)
        items.append(tup(S(f), T(set_tgt[s][0]), S(set_tgt[s][1])))
    out.append('Definition gen_modinfo_rel : list (string * table * string) := %s.' % L(items))
    # autocharge / buff attribute values
    for name, fname in (('autocharge', '_get_tgts_attr_autocharge'), ('buffattr', '_get_tgts_attr_buff')):
        ids, tgt, exc = attr_value_getter(find_func(cls, fname), en)
        out.append('Definition gen_%s_attrs : list Z := %s.' % (name, L(Z(i) for i in ids)))
        out.append('Definition gen_%s_tgt : table * string := %s.' % (name, tup(T(tgt[0]), S(tgt[1]))))
        out.append('Definition gen_%s_catches : list string := %s.' % (name, L(S(e) for e in exc)))
    # buff rows
    gb = find_func(cls, '_get_tgts_buff')
    helpers = {}
    for st in body_of(gb):
        if isinstance(st, ast.FunctionDef):
            f, k = single_read(st, 'mod_row')
            expect(k == 'get', '%s: mod_row.get expected' % st.name)
            helpers[st.name] = (f,) + str_pair(local_assign(st, 'tgt_spec'))
            expect('is not None' in ast.unparse(st), '%s: None test' % st.name)
    outer = [s for s in body_of(gb) if isinstance(s, ast.For)]
    expect(len(outer) == 1 and ast.unparse(outer[0].iter) == "self.data['dbuffcollections']",
           '_get_tgts_buff: loop over dbuffcollections')
    secs = []
    for lp in outer[0].body:
        expect(isinstance(lp, ast.For) and isinstance(lp.iter, ast.Call) and
               dotted(lp.iter.func) == 'row.get' and len(lp.iter.args) == 2 and
               ast.unparse(lp.iter.args[1]) == '()', '_get_tgts_buff: section loop shape')
        refs = []
        for c in lp.body:
            expect(isinstance(c, ast.Expr) and isinstance(c.value, ast.Call) and
                   dotted(c.value.func) in helpers and
                   [dotted(a) for a in c.value.args] == ['mod_row'], 'section body shape')
            f, tt, tc = helpers[dotted(c.value.func)]
            refs.append(tup(S(f), T(tt), S(tc)))
        secs.append(tup(S(cstr(lp.iter.args[0])), L(refs)))
    out.append('Definition gen_buff_sections : list (string * list (string * table * string)) := %s.' % L(secs))
    # restore / trash primitives
    for fname, frags in (('_restore_data', ('data_table.update(rows)', 'trash_table.difference_update(rows)')),
                         ('_trash_data', ('trash_table.update(rows)', 'data_table.difference_update(rows)'))):
        src = ast.unparse(find_func(cls, fname))
        for frag in frags:
            expect(frag in src, '%s: missing %r' % (fname, frag))


def x_preconv(repo, out, en):
    tree = parse(repo, 'eos/eve_obj_builder/validator_preconv.py')
    cls = find_class(tree, 'ValidatorPreConv')
    order = [ast.unparse(s.value) for s in body_of(find_func(cls, 'run'))]
    out.append('Definition gen_preconv_order : list string := %s.' % L(S(o) for o in order))
    av = ast.unparse(find_func(cls, '_attr_value_type'))
    for frag in ("if not isinstance(row.get('value'), Real)", 'dta_rows.difference_update(invalid_rows)'):
        expect(frag in av, '_attr_value_type: missing %r' % frag)
    de = ast.unparse(find_func(cls, '_multiple_default_effects'))
    for frag in ("sorted(dte_rows, key=lambda r: r['table_pos'])", "is_default = row.get('isDefault')",
                 'if not is_default', "type_id = row['typeID']", 'if type_id in defeff_type_ids',
                 'defeff_type_ids.add(type_id)', 'dte_rows.difference_update(invalid_rows)',
                 "new_row[field] = False if field == 'isDefault' else value",
                 'dte_rows.add(frozendict(new_row))'):
        expect(frag in de, '_multiple_default_effects: missing %r' % frag)
    rk = find_func(cls, '_colliding_module_racks')
    racks = [en.get(x) for x in seq(local_assign(rk, 'rack_effect_ids'), (ast.Tuple,))]
    src = ast.unparse(rk)
    for frag in ("sorted(dte_rows, key=lambda r: r['table_pos'])", "effect_id = row['effectID']",
                 'if effect_id not in rack_effect_ids', "type_id = row['typeID']",
                 'if type_id in racked_type_ids', 'racked_type_ids.add(type_id)',
                 'dte_rows.difference_update(invalid_rows)'):
        expect(frag in src, '_colliding_module_racks: missing %r' % frag)
    out.append('Definition gen_rack_effects : list Z := %s.' % L(Z(r) for r in racks))


def ctor_map(call, rowvar='row'):
    """keyword-argument call -> [(arg, field, kind)]; kind 'sub'/'get' for a
    single row read, 'expr' with field '' otherwise"""
    expect(not call.args, 'constructor called with positional arguments')
    res = []
    for kw in call.keywords:
        expect(kw.arg is not None, '** in constructor call')
        r = row_reads(kw.value, rowvar)
        if len(r) == 1 and ast.unparse(kw.value) in (
                "%s['%s']" % (rowvar, r[0][0]), "%s.get('%s')" % (rowvar, r[0][0])):
            res.append((kw.arg, r[0][0], r[0][1]))
        else:
            expect(len(r) == 0, 'argument %s mixes row reads with other code' % kw.arg)
            res.append((kw.arg, '', ast.unparse(kw.value)))
    return res


def x_converter(repo, out):
    tree = parse(repo, 'eos/eve_obj_builder/converter.py')
    run = find_func(find_class(tree, 'Converter'), 'run')
    loops = [s for s in body_of(run) if isinstance(s, ast.For)]
    reads = []
    ctor = {}
    for lp in loops:
        it = lp.iter
        expect(isinstance(it, ast.Subscript) and dotted(it.value) == 'data' and
               dotted(lp.target) == 'row', 'converter loop shape: %s' % ast.unparse(it))
        t = cstr(it.slice)
        fields = []
        for f, _ in row_reads(lp):
            if f not in fields:
                fields.append(f)
        reads.append(tup(T(t), L(S(f) for f in fields)))
        for n in ast.walk(lp):
            if isinstance(n, ast.Call) and isinstance(n.func, ast.Name) and \
                    n.func.id in ('Attribute', 'Effect', 'Type'):
                expect(n.func.id not in ctor, 'constructor %s called twice' % n.func.id)
                ctor[n.func.id] = (t, ctor_map(n))
    expect(set(ctor) == {'Attribute', 'Effect', 'Type'}, 'constructors found: %s' % sorted(ctor))
    expect(ctor['Attribute'][0] == 'dgmattribs' and ctor['Effect'][0] == 'dgmeffects' and
           ctor['Type'][0] == 'evetypes', 'constructor / table pairing')
    out.append('Definition gen_conv_reads : list (table * list string) := %s.' % L(reads))
    for name, key in (('attr', 'Attribute'), ('effect', 'Effect'), ('type', 'Type')):
        out.append('Definition gen_%s_ctor : list (string * string * string) := %s.' % (
            name, L(tup(S(a), S(f), S(k)) for a, f, k in ctor[key][1])))
    src = ast.unparse(run)
    for frag in ("groups_keyed[row['groupID']] = row",
                 "if row.get('isDefault') is True",
                 "types_defeff_map[row['typeID']] = row['effectID']",
                 "types_effects.setdefault(row['typeID'], set()).add(row['effectID'])",
                 "type_attrs = types_attrs.setdefault(row['typeID'], {})",
                 "type_attrs[row['attributeID']] = row['value']",
                 "type_skillreq_data = types_skillreq_data.setdefault(row['typeID'], {})",
                 "type_skillreq_data[row['skillTypeID']] = row['level']",
                 "type_id = row['typeID']", "type_group = row.get('groupID')",
                 'type_effect_ids = types_effects.get(type_id, set())',
                 'type_effect_ids.intersection_update(effect_map)',
                 'effect_map = {e.id: e for e in effects}',
                 'buff_templates.extend(WarfareBuffTemplateBuilder.build(row))'):
        expect(frag in src, 'Converter.run: missing %r' % frag)


def x_bufftpl(repo, out):
    tree = parse(repo, 'eos/eve_obj_builder/buff_template_builder.py')
    cls = find_class(tree, 'WarfareBuffTemplateBuilder')
    build = find_func(cls, 'build')
    tpl = []
    for lp in [s for s in body_of(build) if isinstance(s, ast.For)]:
        expect(isinstance(lp.iter, ast.Call) and dotted(lp.iter.func) == 'buff_row.get' and
               len(lp.iter.args) == 2 and ast.unparse(lp.iter.args[1]) == '()' and
               len(lp.body) == 1, 'build: section loop shape')
        sec = cstr(lp.iter.args[0])
        call = lp.body[0].value
        expect(dotted(call.func) == 'buff_templates.append' and
               isinstance(call.args[0], ast.Call) and
               [dotted(a) for a in call.args[0].args] == ['buff_row', 'mod_row'],
               'build: handler call shape')
        h = find_func(cls, dotted(call.args[0].func).split('.', 1)[1])
        hb = body_of(h)
        expect(len(hb) == 1 and isinstance(hb[0], ast.Return) and
               isinstance(hb[0].value, ast.Call) and
               dotted(hb[0].value.func) == 'WarfareBuffTemplate', '%s: shape' % h.name)
        args = {}
        for kw in hb[0].value.keywords:
            args[kw.arg] = kw.value
        expect(set(args) <= {'buff_id', 'affectee_filter', 'affectee_filter_extra_arg',
                             'affectee_attr_id', 'operator', 'aggregate_mode'} and
               {'buff_id', 'affectee_filter', 'affectee_attr_id', 'operator',
                'aggregate_mode'} <= set(args), '%s: argument set' % h.name)
        expect(ast.unparse(args['buff_id']) == "buff_row['buffID']" and
               ast.unparse(args['operator']) == 'cls._get_operator(buff_row)' and
               ast.unparse(args['aggregate_mode']) == 'cls._get_aggregate_mode(buff_row)',
               '%s: buff_id/operator/aggregate shape' % h.name)
        filt = dotted(args['affectee_filter'])
        expect(filt.startswith('ModAffecteeFilter.'), '%s: filter' % h.name)
        af, ak = single_read(args['affectee_attr_id'], 'mod_row')
        expect(ak == 'sub', '%s: attr read is a subscript' % h.name)
        extra = 'None'
        if 'affectee_filter_extra_arg' in args:
            ef, ek = single_read(args['affectee_filter_extra_arg'], 'mod_row')
            expect(ek == 'sub', '%s: extra read is a subscript' % h.name)
            extra = 'Some ' + S(ef)
        tpl.append(tup(S(sec), S(filt.split('.', 1)[1]), extra, S(af)))
    out.append('Definition gen_buff_tpl : list (string * string * option string * string) := %s.' % L(tpl))
    for name, fname in (('operator', '_get_operator'), ('aggregate', '_get_aggregate_mode')):
        fn = find_func(cls, fname)
        cm = local_assign(fn, 'conversion_map')
        expect(isinstance(cm, ast.Dict), '%s: dict literal' % fname)
        b = body_of(fn)
        ret = b[-1]
        expect(isinstance(ret, ast.Return) and isinstance(ret.value, ast.Subscript) and
               dotted(ret.value.value) == 'conversion_map', '%s: return shape' % fname)
        f, k = single_read(ret.value.slice, 'buff_row')
        expect(k == 'sub', '%s: field read is a subscript' % fname)
        out.append('Definition gen_buff_%s_field : string := %s.' % (name, S(f)))
        out.append('Definition gen_buff_%s_names : list string := %s.' % (
            name, L(S(cstr(x)) for x in cm.keys)))


def generate(repo):
    en = Enums(repo)
    out = ['(* GENERATED by harness/tables_builder.py from eos/eve_obj_builder/*.py '
           'and eos/const/eve.py -- do not edit *)',
           'From Coq Require Import ZArith List String.', 'Import ListNotations.']
    x_builder(repo, out)
    x_preclean(repo, out)
    x_normalizer(repo, out, en)
    x_cleaner(repo, out, en)
    x_preconv(repo, out, en)
    x_converter(repo, out)
    x_bufftpl(repo, out)
    return '\n'.join(out) + '\n'


if __name__ == '__main__':
    import sys
    print(generate(sys.argv[1] if len(sys.argv) > 1 else '/repo'))
