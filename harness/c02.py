"""C02 — attribute values follow the dogma modification rules exactly."""
import engcheck
import eng_gen
import eng_oracle

PROP_FILE = 'props/C02.v'
RULE = ('generated universes (attribute metadata x effects x 0-3 dogma modifiers drawn from filter(5) x domain(5) x '
        'operator(10) x aggregate mode(3), stackable and non-stackable targets, penalty-immune and non-immune source '
        'categories, capped attributes, resist attributes on projected effects, fleet buffs, two-digit rounded '
        'cpu/powergrid) and fit configurations over them (freshly built and history-built); every (item, attribute) '
        'value read from the implementation is compared with the model\'s calculation, which uses the rule tables '
        'translated from the source; exact-arithmetic universes (dyadic values, PENALTY_BASE 0.5: equality) and '
        'real-constant universes (1e-9); non-trivial = at least one AttrsValueChanged or EffectApplied delivered')


def gen(rng):
    return eng_gen.gen_history(rng, nops=rng.randint(4, 20))


def run(rep):
    res, hists = engcheck.run(rep, 'C02', PROP_FILE, gen, 150, 8000, ['all', 'end'], eng_oracle.oracle_c01, RULE,
                              real_penalty_share=0.4, direct=10)
    rep.cov['attribute_values_compared'] = res.exact_vals + res.inexact_vals


def replay(path):
    return engcheck.replay(path, eng_oracle.oracle_c01)
