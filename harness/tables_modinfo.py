"""Translator for C19: the modifier-info conversion tables ->
coq/gen/T_modinfo.v.

Sources (Python `ast`, fail-closed: every piece is matched against one expected
shape and anything else raises):
  eos/const/eos.py                          enum members
  eos/eve_obj_builder/mod_builder/converter/mod_info.py
        convert(): the key read for the function name, the exception classes
        caught around the three steps, the handler map; every handler: filter,
        which keys it reads for extra argument / affectee attr / affector attr,
        aggregate mode, how ids are converted (bare int() = truncating, or the
        _get_int helper = strict); the domain and operator maps and their keys
  eos/eve_obj/modifier/base.py              validator map, per filter: extra
        argument requirement and list of allowed domains
  eos/eve_obj/modifier/dogma.py             _valid (shape only)
  eos/eve_obj_builder/mod_builder/builder.py   build(): conditions and
        statuses of the four exits, __get_valid_mods (shape only)
"""
import ast
import sys

from pyast import Shape, parse, find_class, find_func, dotted, expect, \
    const_num, enum_members

MOD_INFO = 'eos/eve_obj_builder/mod_builder/converter/mod_info.py'
BASE = 'eos/eve_obj/modifier/base.py'
DOGMA = 'eos/eve_obj/modifier/dogma.py'
BUILDER = 'eos/eve_obj_builder/mod_builder/builder.py'
CONST = 'eos/const/eos.py'

ENUMS = ['ModAffecteeFilter', 'ModDomain', 'ModOperator', 'ModAggregateMode',
         'EffectBuildStatus']


def body_of(fn):
    """Statements of a function without its docstring."""
    b = list(fn.body)
    if b and isinstance(b[0], ast.Expr) and isinstance(b[0].value, ast.Constant) \
            and isinstance(b[0].value.value, str):
        b = b[1:]
    return b


def norm(node):
    return ast.unparse(node)


def same(node, src):
    """node is the statement / expression written as src (up to layout)."""
    tree = ast.parse(src)
    ref = tree.body[0]
    if isinstance(ref, ast.Expr) and not isinstance(node, ast.stmt):
        ref = ref.value
    return ast.unparse(node) == ast.unparse(ref)


def str_const(e, what):
    expect(isinstance(e, ast.Constant) and isinstance(e.value, str),
           '%s: expected a string literal, got %s' % (what, ast.dump(e)[:80]))
    expect(all(32 <= ord(c) < 127 and c != '"' for c in e.value),
           '%s: unexpected characters in %r' % (what, e.value))
    return e.value


def exc_names(handler, what):
    """Names of the exception classes of an `except` clause."""
    t = handler.type
    expect(t is not None, '%s: bare except' % what)
    if isinstance(t, ast.Tuple):
        names = [dotted(x) for x in t.elts]
    else:
        names = [dotted(t)]
    known = {'KeyError', 'TypeError', 'ValueError', 'OverflowError',
             'LookupError', 'ArithmeticError', 'Exception', 'BaseException',
             'AttributeError', 'IndexError'}
    for n in names:
        expect(n in known, '%s: unexpected exception class %s' % (what, n))
    return names


def is_fails_incr(st):
    return isinstance(st, ast.AugAssign) and isinstance(st.op, ast.Add) and \
        dotted(st.target) == 'fails' and const_num(st.value) == 1


class Tr:
    def __init__(self, repo):
        self.repo = repo
        self.enums = {}
        ct = parse(repo, CONST)
        for e in ENUMS:
            m = enum_members(ct, e)
            expect(m, 'enum %s is empty' % e)
            for k, v in m.items():
                expect(isinstance(v, int), 'enum %s.%s not an int' % (e, k))
            expect(len(set(m.values())) == len(m), 'enum %s: duplicate values' % e)
            self.enums[e] = m

    def enum_ref(self, e, cls):
        d = dotted(e)
        expect(d.startswith(cls + '.'), 'expected a member of %s, got %s' % (cls, d))
        name = d[len(cls) + 1:]
        expect(name in self.enums[cls], 'unknown member %s' % d)
        return self.enums[cls][name]

    # -- mod_info.py ---------------------------------------------------------
    def convert(self):
        tree = parse(self.repo, MOD_INFO)
        cls = find_class(tree, 'ModInfoconverter')
        self.conv_cls = cls
        fn = find_func(cls, 'convert')
        b = body_of(fn)
        expect(len(b) == 4, 'convert: expected 4 statements, got %d' % len(b))
        expect(same(b[0], 'mods = []') and same(b[1], 'fails = 0'),
               'convert: accumulators')
        expect(same(b[3], 'return (mods, fails)'), 'convert: return')
        loop = b[2]
        expect(isinstance(loop, ast.For) and not loop.orelse and
               same(loop.target, 'mod_info') and same(loop.iter, 'mod_infos'),
               'convert: loop header')
        lb = loop.body
        expect(len(lb) == 3, 'convert: loop body has %d statements' % len(lb))
        # 1. function name
        t1 = lb[0]
        expect(isinstance(t1, ast.Try) and len(t1.body) == 1 and
               len(t1.handlers) == 1 and not t1.orelse and not t1.finalbody,
               'convert: func try shape')
        a = t1.body[0]
        expect(isinstance(a, ast.Assign) and same(a.targets[0], 'mod_func') and
               isinstance(a.value, ast.Subscript) and
               same(a.value.value, 'mod_info'), 'convert: func read')
        self.func_key = str_const(a.value.slice, 'func key')
        h = t1.handlers[0]
        expect(len(h.body) == 2 and is_fails_incr(h.body[0]) and
               isinstance(h.body[1], ast.Continue), 'convert: func handler body')
        self.catch_func = exc_names(h, 'func try')
        # 2. handler map
        hm = lb[1]
        expect(isinstance(hm, ast.Assign) and same(hm.targets[0], 'handler_map')
               and isinstance(hm.value, ast.Dict), 'convert: handler_map')
        self.handler_names = []
        for k, v in zip(hm.value.keys, hm.value.values):
            name = str_const(k, 'handler_map key')
            d = dotted(v)
            expect(d.startswith('cls.'), 'handler_map value %s' % d)
            self.handler_names.append((name, d[4:]))
        expect(len({n for n, _ in self.handler_names}) == len(self.handler_names),
               'handler_map: duplicate keys')
        # 3. lookup + call
        t2 = lb[2]
        expect(isinstance(t2, ast.Try) and len(t2.body) == 1 and
               len(t2.handlers) == 1 and len(t2.orelse) == 1 and not t2.finalbody,
               'convert: lookup try shape')
        expect(same(t2.body[0], 'handler = handler_map[mod_func]'),
               'convert: lookup statement')
        h = t2.handlers[0]
        expect(len(h.body) == 1 and is_fails_incr(h.body[0]),
               'convert: lookup handler body')
        self.catch_lookup = exc_names(h, 'lookup try')
        t3 = t2.orelse[0]
        expect(isinstance(t3, ast.Try) and len(t3.body) == 1 and
               len(t3.orelse) == 1 and not t3.finalbody, 'convert: call try shape')
        expect(same(t3.body[0], 'mod = handler(mod_info)'), 'convert: call')
        expect(same(t3.orelse[0], 'mods.append(mod)'), 'convert: append')
        hs = list(t3.handlers)
        # `except KeyboardInterrupt: raise` clauses re-raise; none of the
        # exceptions the model knows is a KeyboardInterrupt
        while hs and hs[0].type is not None and \
                same(hs[0].type, 'KeyboardInterrupt'):
            expect(len(hs[0].body) == 1 and isinstance(hs[0].body[0], ast.Raise)
                   and hs[0].body[0].exc is None, 'convert: KeyboardInterrupt clause')
            hs = hs[1:]
        expect(len(hs) == 1 and len(hs[0].body) == 1 and is_fails_incr(hs[0].body[0]),
               'convert: call handler body')
        self.catch_handler = exc_names(hs[0], 'call try')

    def int_read(self, e, what):
        """int(mod_info['k']) -> ('trunc', k);  cls._get_int(mod_info, 'k') ->
        ('strict', k) provided _get_int has the expected body."""
        expect(isinstance(e, ast.Call) and not e.keywords, '%s: call expected' % what)
        f = dotted(e.func)
        if f == 'int':
            expect(len(e.args) == 1 and isinstance(e.args[0], ast.Subscript) and
                   same(e.args[0].value, 'mod_info'), '%s: int() argument' % what)
            return 'trunc', str_const(e.args[0].slice, what)
        expect(f == 'cls._get_int' and len(e.args) == 2 and
               same(e.args[0], 'mod_info'), '%s: id read shape %s' % (what, norm(e)))
        self.check_get_int()
        return 'strict', str_const(e.args[1], what)

    def check_get_int(self):
        fn = find_func(self.conv_cls, '_get_int')
        expect([a.arg for a in fn.args.args] == ['mod_info', 'key'], '_get_int: arguments')
        b = body_of(fn)
        expect(len(b) == 4, '_get_int: %d statements' % len(b))
        expect(same(b[0], 'value = mod_info[key]'), '_get_int: read')
        expect(same(b[1], 'result = int(value)'), '_get_int: conversion')
        c = b[2]
        expect(isinstance(c, ast.If) and not c.orelse and
               same(c.test, 'isinstance(value, Real) and result != value') and
               len(c.body) == 1 and isinstance(c.body[0], ast.Raise) and
               isinstance(c.body[0].exc, ast.Call) and
               dotted(c.body[0].exc.func) == 'ValueError', '_get_int: check')
        expect(same(b[3], 'return result'), '_get_int: return')
        imp = [n for n in ast.walk(parse(self.repo, MOD_INFO))
               if isinstance(n, ast.ImportFrom) and n.module == 'numbers']
        expect(any(a.name == 'Real' and a.asname is None for n in imp for a in n.names),
               '_get_int: Real is not numbers.Real')

    def handlers(self):
        self.handler_rows = []
        modes = set()
        for func, meth in self.handler_names:
            fn = find_func(self.conv_cls, meth)
            expect([a.arg for a in fn.args.args] == ['cls', 'mod_info'],
                   '%s: arguments' % meth)
            b = body_of(fn)
            expect(len(b) == 1 and isinstance(b[0], ast.Return) and
                   isinstance(b[0].value, ast.Call) and
                   dotted(b[0].value.func) == 'DogmaModifier' and
                   not b[0].value.args, '%s: body shape' % meth)
            kw = {}
            for k in b[0].value.keywords:
                expect(k.arg is not None and k.arg not in kw, '%s: keyword' % meth)
                kw[k.arg] = k.value
            allowed = {'affectee_filter', 'affectee_domain', 'affectee_attr_id',
                       'operator', 'aggregate_mode', 'affector_attr_id',
                       'affectee_filter_extra_arg'}
            expect(set(kw) <= allowed and allowed - set(kw) <= {'affectee_filter_extra_arg'},
                   '%s: keyword set %s' % (meth, sorted(kw)))
            filt = self.enum_ref(kw['affectee_filter'], 'ModAffecteeFilter')
            expect(same(kw['affectee_domain'], 'cls._get_domain(mod_info)'),
                   '%s: domain' % meth)
            expect(same(kw['operator'], 'cls._get_operator(mod_info)'),
                   '%s: operator' % meth)
            aggr = self.enum_ref(kw['aggregate_mode'], 'ModAggregateMode')
            m1, attr = self.int_read(kw['affectee_attr_id'], meth + ' affectee_attr_id')
            m2, aff = self.int_read(kw['affector_attr_id'], meth + ' affector_attr_id')
            modes |= {m1, m2}
            extra = None
            if 'affectee_filter_extra_arg' in kw:
                m3, extra = self.int_read(kw['affectee_filter_extra_arg'], meth + ' extra arg')
                modes.add(m3)
            self.handler_rows.append((func, meth, filt, extra, attr, aff, aggr))
        expect(len(modes) == 1, 'handlers mix int() and _get_int')
        self.int_strict = modes == {'strict'}

    def conv_map(self, meth, var_key, cls_name):
        fn = find_func(self.conv_cls, meth)
        expect([a.arg for a in fn.args.args] == ['mod_info'], '%s: arguments' % meth)
        b = body_of(fn)
        expect(len(b) == 2 and isinstance(b[0], ast.Assign) and
               same(b[0].targets[0], 'conversion_map') and
               isinstance(b[0].value, ast.Dict), '%s: map' % meth)
        r = b[1]
        expect(isinstance(r, ast.Return) and isinstance(r.value, ast.Subscript) and
               same(r.value.value, 'conversion_map') and
               isinstance(r.value.slice, ast.Subscript) and
               same(r.value.slice.value, 'mod_info'), '%s: lookup' % meth)
        key = str_const(r.value.slice.slice, meth + ' key')
        rows = []
        for k, v in zip(b[0].value.keys, b[0].value.values):
            expect(k is not None, '%s: dict unpacking' % meth)
            rows.append((k, self.enum_ref(v, cls_name)))
        return key, rows

    def maps(self):
        self.domain_key, rows = self.conv_map('_get_domain', 'domain', 'ModDomain')
        self.domain_rows = []
        for k, v in rows:
            if isinstance(k, ast.Constant) and k.value is None:
                self.domain_rows.append((None, v))
            else:
                self.domain_rows.append((str_const(k, 'domain map key'), v))
        expect(len({k for k, _ in self.domain_rows}) == len(self.domain_rows),
               'domain map: duplicate keys')
        self.operation_key, rows = self.conv_map('_get_operator', 'operation', 'ModOperator')
        self.operator_rows = []
        for k, v in rows:
            n = const_num(k)
            expect(isinstance(n, int), 'operator map key %r' % (n,))
            self.operator_rows.append((n, v))
        expect(len({k for k, _ in self.operator_rows}) == len(self.operator_rows),
               'operator map: duplicate keys')

    # -- base.py / dogma.py ---------------------------------------------------
    def validators(self):
        tree = parse(self.repo, BASE)
        cls = find_class(tree, 'BaseModifier')
        fn = find_func(cls, '_validate_base')
        b = body_of(fn)
        expect(len(b) == 2 and isinstance(b[0], ast.Assign) and
               same(b[0].targets[0], 'validators') and
               isinstance(b[0].value, ast.Dict), '_validate_base: map')
        expect(norm(b[1]) == norm(ast.parse(
            'try:\n    validator = validators[self.affectee_filter]\n'
            'except KeyError:\n    return False\n'
            'else:\n    return all((self.__validate_common(), validator()))').body[0]),
            '_validate_base: lookup shape')
        common = find_func(cls, '_BaseModifier__validate_common') \
            if any(isinstance(n, ast.FunctionDef) and n.name == '_BaseModifier__validate_common'
                   for n in cls.body) else find_func(cls, '__validate_common')
        expect(norm(body_of(common)[0]) == norm(ast.parse(
            'return all((self.affectee_filter in ModAffecteeFilter.__members__.values(), '
            'self.affectee_domain in ModDomain.__members__.values(), '
            'isinstance(self.affectee_attr_id, Integral)))').body[0]) and
            len(body_of(common)) == 1, '__validate_common: shape')
        self.validator_rows = []
        for k, v in zip(b[0].value.keys, b[0].value.values):
            filt = self.enum_ref(k, 'ModAffecteeFilter')
            d = dotted(v)
            expect(d.startswith('self.__'), 'validator reference %s' % d)
            vf = find_func(cls, d[5:])
            vb = body_of(vf)
            expect(len(vb) == 1 and isinstance(vb[0], ast.Return) and
                   isinstance(vb[0].value, ast.Call) and
                   dotted(vb[0].value.func) == 'all' and len(vb[0].value.args) == 1
                   and isinstance(vb[0].value.args[0], ast.Tuple) and
                   len(vb[0].value.args[0].elts) == 2, '%s: shape' % d)
            c_extra, c_dom = vb[0].value.args[0].elts
            if same(c_extra, 'self.affectee_filter_extra_arg is None'):
                integral = False
            elif same(c_extra, 'isinstance(self.affectee_filter_extra_arg, Integral)'):
                integral = True
            else:
                raise Shape('%s: extra argument check %s' % (d, norm(c_extra)))
            expect(isinstance(c_dom, ast.Compare) and len(c_dom.ops) == 1 and
                   same(c_dom.left, 'self.affectee_domain'), '%s: domain check' % d)
            if isinstance(c_dom.ops[0], ast.In):
                expect(isinstance(c_dom.comparators[0], ast.Tuple), '%s: domain tuple' % d)
                doms = [self.enum_ref(x, 'ModDomain') for x in c_dom.comparators[0].elts]
            elif isinstance(c_dom.ops[0], ast.Eq):
                doms = [self.enum_ref(c_dom.comparators[0], 'ModDomain')]
            else:
                raise Shape('%s: domain comparison' % d)
            self.validator_rows.append((filt, integral, doms))
        expect(len({f for f, _, _ in self.validator_rows}) == len(self.validator_rows),
               'validators: duplicate keys')
        # Integral must be numbers.Integral in both files
        for rel in (BASE, DOGMA):
            imp = [n for n in ast.walk(parse(self.repo, rel))
                   if isinstance(n, ast.ImportFrom) and n.module == 'numbers']
            expect(any(a.name == 'Integral' and a.asname is None for n in imp for a in n.names),
                   '%s: Integral is not numbers.Integral' % rel)
        dcls = find_class(parse(self.repo, DOGMA), 'DogmaModifier')
        vfn = find_func(dcls, '_valid')
        expect(len(body_of(vfn)) == 1 and norm(body_of(vfn)[0]) == norm(ast.parse(
            'return all((self._validate_base(), '
            'self.operator in ModOperator.__members__.values(), '
            'self.aggregate_mode in ModAggregateMode.__members__.values(), '
            'self.aggregate_key is None if self.aggregate_mode == ModAggregateMode.stack '
            'else isinstance(self.aggregate_key, Integral), '
            'isinstance(self.affector_attr_id, Integral)))').body[0]),
            'DogmaModifier._valid: shape')
        init = find_func(dcls, '__init__')
        names = [a.arg for a in init.args.args]
        defaults = [norm(d) for d in init.args.defaults]
        expect(names == ['self', 'affectee_filter', 'affectee_filter_extra_arg',
                         'affectee_domain', 'affectee_attr_id', 'operator',
                         'aggregate_mode', 'aggregate_key', 'affector_attr_id'] and
               defaults == ['None'] * 8, 'DogmaModifier.__init__: signature')

    # -- builder.py -------------------------------------------------------------
    def cond(self, e):
        if isinstance(e, ast.Name):
            expect(e.id in ('fails', 'valid_fails', 'valid_mods'),
                   'build: condition over %s' % e.id)
            return '(truthy %s)' % e.id
        if isinstance(e, ast.UnaryOp) and isinstance(e.op, ast.Not):
            return '(negb %s)' % self.cond(e.operand)
        if isinstance(e, ast.BoolOp):
            op = ' && ' if isinstance(e.op, ast.And) else ' || '
            return '(' + op.join(self.cond(v) for v in e.values) + ')'
        raise Shape('build: condition %s' % norm(e))

    def ret(self, st, what):
        expect(isinstance(st, ast.Return) and isinstance(st.value, ast.Tuple) and
               len(st.value.elts) == 2, 'build: %s return shape' % what)
        m, s = st.value.elts
        if same(m, 'valid_mods'):
            mods = True
        elif same(m, '()'):
            mods = False
        else:
            raise Shape('build: %s returns %s' % (what, norm(m)))
        return mods, self.enum_ref(s, 'EffectBuildStatus')

    def builder(self):
        tree = parse(self.repo, BUILDER)
        cls = find_class(tree, 'ModBuilder')
        fn = find_func(cls, 'build')
        b = body_of(fn)
        expect(len(b) == 4, 'build: %d statements' % len(b))
        expect(same(b[0], "mod_info = effect_row.get('modifierInfo')"), 'build: read')
        c = b[1]
        expect(isinstance(c, ast.If) and same(c.test, 'mod_info') and
               len(c.body) == 1 and len(c.orelse) == 1, 'build: presence test')
        t = c.body[0]
        expect(isinstance(t, ast.Try) and len(t.body) == 1 and not t.orelse and
               not t.finalbody and
               same(t.body[0], '(mods, fails) = ModInfoconverter.convert(mod_info)')
               and len(t.handlers) == 1 and same(t.handlers[0].type, 'YamlParsingError'),
               'build: convert call')
        mods, st = self.ret(c.orelse[0], 'no-info')
        expect(not mods, 'build: no-info exit returns modifiers')
        self.status_no_info = st
        expect(same(b[2], '(valid_mods, valid_fails) = self.__get_valid_mods(mods)'),
               'build: validation call')
        d = b[3]
        expect(isinstance(d, ast.If) and len(d.body) == 1 and d.orelse, 'build: decision')
        self.cond_all_ok = self.cond(d.test)
        self.ret_all_ok = self.ret(d.body[0], 'all-ok')
        rest = d.orelse
        for st_ in rest[:-1]:
            for n in ast.walk(st_):
                expect(not isinstance(n, (ast.Return, ast.Raise, ast.Try, ast.For,
                                          ast.While)), 'build: control flow in logging part')
        last = rest[-1]
        expect(isinstance(last, ast.If) and len(last.body) == 1 and
               len(last.orelse) == 1, 'build: second decision')
        self.cond_some_valid = self.cond(last.test)
        self.ret_some_valid = self.ret(last.body[0], 'some-valid')
        self.ret_none_valid = self.ret(last.orelse[0], 'none-valid')
        g = find_func(cls, '__get_valid_mods')
        expect(norm(ast.Module(body=body_of(g), type_ignores=[])) == norm(ast.parse(
            'valid_mods = []\nvalid_fails = 0\n'
            'for mod in mods:\n'
            '    if mod._valid:\n        valid_mods.append(mod)\n'
            '    else:\n        valid_fails += 1\n'
            'return (valid_mods, valid_fails)')), '__get_valid_mods: shape')


def cstr(s):
    return '"%s"' % s


def clist(xs):
    return '[' + '; '.join(xs) + ']'


def copt(x):
    return 'None' if x is None else '(Some %s)' % cstr(x)


def cz(n):
    return '(%d)' % n


def generate(repo):
    t = Tr(repo)
    t.convert()
    t.handlers()
    t.maps()
    t.validators()
    t.builder()
    o = []
    o.append('(* GENERATED by harness/tables_modinfo.py from eos/const/eos.py, '
             'eos/eve_obj_builder/mod_builder/{builder.py,converter/mod_info.py}, '
             'eos/eve_obj/modifier/{base.py,dogma.py} -- do not edit *)')
    o.append('From Coq Require Import ZArith Bool String List.')
    o.append('Import ListNotations.')
    o.append('Local Open Scope string_scope.')
    o.append('Local Open Scope Z_scope.')
    o.append('Local Open Scope bool_scope.')
    o.append('')
    for e in ENUMS:
        for k, v in t.enums[e].items():
            o.append('Definition %s_%s : Z := %s.' % (e, k, cz(v)))
        o.append('Definition %s_members : list (string * Z) :=\n  %s.' % (
            e, clist('(%s, %s)' % (cstr(k), cz(v)) for k, v in t.enums[e].items())))
    o.append('')
    o.append('(* ModInfoconverter.convert *)')
    o.append('Definition func_key : string := %s.' % cstr(t.func_key))
    o.append('Definition catch_func : list string := %s.' % clist(map(cstr, t.catch_func)))
    o.append('Definition catch_lookup : list string := %s.' % clist(map(cstr, t.catch_lookup)))
    o.append('Definition catch_handler : list string := %s.' % clist(map(cstr, t.catch_handler)))
    o.append('')
    o.append('(* handler_map composed with the handler methods:\n'
             '   func -> (affectee filter, key of the extra argument, key of the affectee\n'
             '   attribute, key of the affector attribute, aggregate mode) *)')
    rows = []
    for func, meth, filt, extra, attr, aff, aggr in t.handler_rows:
        rows.append('(%s, (%s, %s, %s, %s, %s)) (* %s *)' % (
            cstr(func), cz(filt), copt(extra), cstr(attr), cstr(aff), cz(aggr), meth))
    o.append('Definition handler_map : list (string * (Z * option string * string * string * Z)) :=\n  [ %s ].'
             % '\n  ; '.join(rows))
    o.append('(* ids are read with the strict helper (true) or with bare int() (false) *)')
    o.append('Definition int_strict : bool := %s.' % ('true' if t.int_strict else 'false'))
    o.append('')
    o.append('Definition domain_key : string := %s.' % cstr(t.domain_key))
    o.append('Definition domain_map : list (option string * Z) :=\n  %s.' % clist(
        '(%s, %s)' % (copt(k), cz(v)) for k, v in t.domain_rows))
    o.append('Definition operation_key : string := %s.' % cstr(t.operation_key))
    o.append('Definition operator_map : list (Z * Z) :=\n  %s.' % clist(
        '(%s, %s)' % (cz(k), cz(v)) for k, v in t.operator_rows))
    o.append('')
    o.append('(* BaseModifier._validate_base: filter -> (extra argument must be Integral (true)\n'
             '   or None (false), allowed domains) *)')
    o.append('Definition validators : list (Z * (bool * list Z)) :=\n  %s.' % clist(
        '(%s, (%s, %s))' % (cz(f), 'true' if i else 'false', clist(map(cz, d)))
        for f, i, d in t.validator_rows))
    o.append('')
    o.append('(* ModBuilder.build: truthiness of a count / of a list by its length *)')
    o.append('Definition truthy (n : nat) : bool := negb (Nat.eqb n 0).')
    for name, c in (('cond_all_ok', t.cond_all_ok), ('cond_some_valid', t.cond_some_valid)):
        o.append('Definition %s (fails valid_fails valid_mods : nat) : bool :=\n  %s.' % (name, c))
    o.append('Definition status_no_info : Z := %s.' % cz(t.status_no_info))
    for name, (mods, st) in (('all_ok', t.ret_all_ok), ('some_valid', t.ret_some_valid),
                             ('none_valid', t.ret_none_valid)):
        o.append('Definition status_%s : Z := %s.' % (name, cz(st)))
        o.append('Definition returns_mods_%s : bool := %s.' % (name, 'true' if mods else 'false'))
    return '\n'.join(o) + '\n'


if __name__ == '__main__':
    sys.stdout.write(generate(sys.argv[1] if len(sys.argv) > 1 else '/repo'))
