"""Shared helpers of the C15/C16/C17 checks: JSON-tree tokens for the extracted
model (bin/cache), neutral object notation, generators of object sets, building
real eos objects from the notation, canonical views of a JsonCacheHandler.

Neutral notation (plain JSON-able Python, also the replay format):
  modifier [filter, domain, extra_arg, attr, operator, agg_mode, agg_key, affector]
  effect   [id, category, offensive, assistance, duration, discharge, range, falloff,
            tracking, fitting_usage_chance, resist, build_status, [modifier...]]
  attr     [id, max_attr_id, default_value, high_is_good, stackable]
  type     [id, group, category, [[attr, value]...], [[effect id, effect]...],
            default effect | None, [[ability, cooldown, charges]...], [[skill, level]...]]
  buff     [buff_id, filter, extra_arg, attr, operator, agg_mode]
  objs     [[type...], [attr...], [effect...], [buff...]]
"""
import bz2
import json
import logging
import math
import os
import shutil
from fractions import Fraction

import common

logging.disable(logging.CRITICAL)


# ---------------------------------------------------------------------------
# J tokens
# ---------------------------------------------------------------------------

def bits(n):
    n = int(n)
    if n == 0:
        return '0'
    return ('-' if n < 0 else '') + bin(abs(n))[2:]


def hexs(s):
    return s.encode('latin-1').hex() if s else '-'


def j_tokens(x, out):
    if x is None:
        out.append('n')
    elif x is True:
        out.append('t')
    elif x is False:
        out.append('f')
    elif isinstance(x, int):
        out.append('i' + bits(x))
    elif isinstance(x, float):
        if math.isinf(x):
            out.append('I+' if x > 0 else 'I-')
        elif x != x:
            raise ValueError('NaN is outside the modelled tree class')
        else:
            f = Fraction(x)
            out.append('q%s/%s' % (bits(f.numerator), bits(f.denominator)))
    elif isinstance(x, str):
        out.append('s' + hexs(x))
    elif isinstance(x, (list, tuple)):
        out.append('l%d' % len(x))
        for e in x:
            j_tokens(e, out)
    elif isinstance(x, dict):
        out.append('d%d' % len(x))
        for k, v in x.items():
            out.append('s' + hexs(k))
            j_tokens(v, out)
    else:
        raise TypeError('not a JSON tree: %r' % (x,))
    return out


def j_line(x):
    return ' '.join(j_tokens(x, []))


def parse_tokens(toks, i=0):
    """-> (canonical value, next index).  Canonical values: None, True/False,
    ('i', int), ('q', Fraction), ('inf', neg), str, list, ('d', [(k, v)...])"""
    t = toks[i]
    c = t[0]
    if c == 'n':
        return None, i + 1
    if c == 't':
        return True, i + 1
    if c == 'f':
        return False, i + 1
    if c == 'i':
        return ('i', int(t[1:], 2)), i + 1
    if c == 'q':
        n, d = t[1:].split('/')
        return ('q', Fraction(int(n, 2), int(d, 2))), i + 1
    if c == 'I':
        return ('inf', t == 'I-'), i + 1
    if c == 's':
        return ('' if t[1:] == '-' else bytes.fromhex(t[1:]).decode('latin-1')), i + 1
    if c == 'l':
        n = int(t[1:])
        out = []
        i += 1
        for _ in range(n):
            v, i = parse_tokens(toks, i)
            out.append(v)
        return out, i
    if c == 'd':
        n = int(t[1:])
        out = []
        i += 1
        for _ in range(n):
            k, i = parse_tokens(toks, i)
            v, i = parse_tokens(toks, i)
            out.append((k, v))
        return ('d', out), i
    raise ValueError('bad token ' + t)


def canon(x):
    """Python value -> the canonical form parse_tokens produces"""
    if x is None or x is True or x is False:
        return x
    if isinstance(x, int):
        return ('i', int(x))
    if isinstance(x, float):
        if math.isinf(x):
            return ('inf', x < 0)
        if x != x:
            return ('nan',)
        return ('q', Fraction(x))
    if isinstance(x, str):
        return x
    if isinstance(x, (list, tuple)):
        return [canon(e) for e in x]
    if isinstance(x, dict):
        return ('d', [(k, canon(v)) for k, v in x.items()])
    return ('obj', type(x).__name__)


def parse_state_line(line):
    """'ok <state J>' / 'raise:Exn <state J>' -> (tag, {types, attrs, effects, buffs, fp})"""
    toks = line.split()
    tag = toks[0]
    if tag.startswith('error'):
        raise common.TieBroken('model driver cache', line)
    v, _ = parse_tokens(toks, 1)
    d = dict(v[1])
    return tag, d


# ---------------------------------------------------------------------------
# real objects from the notation, and back
# ---------------------------------------------------------------------------

def _enum(cls, v):
    if isinstance(v, int) and not isinstance(v, bool):
        try:
            return cls(v)
        except ValueError:
            return v
    return v


def mk_modifier(m):
    from eos.const.eos import ModAffecteeFilter, ModDomain, ModOperator, ModAggregateMode
    from eos.eve_obj.modifier import DogmaModifier
    return DogmaModifier(
        affectee_filter=_enum(ModAffecteeFilter, m[0]), affectee_domain=_enum(ModDomain, m[1]),
        affectee_filter_extra_arg=m[2], affectee_attr_id=m[3],
        operator=_enum(ModOperator, m[4]), aggregate_mode=_enum(ModAggregateMode, m[5]),
        aggregate_key=m[6], affector_attr_id=m[7])


def mk_effect(e):
    from eos.const.eos import EffectBuildStatus
    from eos.const.eve import EffectCategoryId
    from eos.eve_obj.effect.effect import Effect
    # the converter hands over the raw category number; eos's own custom effects (and any caller that
    # builds objects by hand) use the enumeration member: both must survive persistence alike
    cat = e[1]
    if isinstance(e[0], int) and e[0] % 2 == 0:
        cat = _enum(EffectCategoryId, cat)
    return Effect(
        effect_id=e[0], category_id=cat, is_offensive=e[2], is_assistance=e[3],
        duration_attr_id=e[4], discharge_attr_id=e[5], range_attr_id=e[6],
        falloff_attr_id=e[7], tracking_speed_attr_id=e[8],
        fitting_usage_chance_attr_id=e[9], resist_attr_id=e[10],
        build_status=_enum(EffectBuildStatus, e[11]),
        modifiers=tuple(mk_modifier(m) for m in e[12]))


def mk_objs(objs):
    """Notation -> (types, attrs, effects, buff_templates) of real eos objects,
    built the way the converter builds them (plain classes, no factories)."""
    from eos.const.eos import ModAffecteeFilter, ModOperator, ModAggregateMode
    from eos.eve_obj.attribute.attribute import Attribute
    from eos.eve_obj.buff_template import WarfareBuffTemplate
    from eos.eve_obj.type.type import Type, AbilityData
    types_n, attrs_n, effects_n, buffs_n = objs
    effects = [mk_effect(e) for e in effects_n]
    by_key = {json.dumps(e): o for e, o in zip(effects_n, effects)}

    def eff(e):
        k = json.dumps(e)
        if k not in by_key:
            by_key[k] = mk_effect(e)
        return by_key[k]
    types = []
    for t in types_n:
        types.append(Type(
            type_id=t[0], group_id=t[1], category_id=t[2],
            attrs={k: v for k, v in t[3]},
            effects=tuple(eff(e) for _, e in t[4]),
            default_effect=None if t[5] is None else eff(t[5]),
            abilities_data={k: AbilityData(a, b) for k, a, b in t[6]},
            required_skills={k: v for k, v in t[7]}))
    attrs = [Attribute(attr_id=a[0], max_attr_id=a[1], default_value=a[2],
                       high_is_good=a[3], stackable=a[4]) for a in attrs_n]
    buffs = [WarfareBuffTemplate(
        buff_id=b[0], affectee_filter=_enum(ModAffecteeFilter, b[1]),
        affectee_filter_extra_arg=b[2], affectee_attr_id=b[3],
        operator=_enum(ModOperator, b[4]), aggregate_mode=_enum(ModAggregateMode, b[5]))
        for b in buffs_n]
    return types, attrs, effects, buffs


def plain(v):
    """IntEnum -> int (what json.dumps does); everything else unchanged"""
    import enum
    if isinstance(v, enum.IntEnum):
        return int(v)
    return v


def n_modifier(m):
    from eos.eve_obj.modifier import DogmaModifier
    if type(m) is not DogmaModifier:
        return ['pymod', type(m).__name__]
    return [plain(m.affectee_filter), plain(m.affectee_domain), plain(m.affectee_filter_extra_arg),
            plain(m.affectee_attr_id), plain(m.operator), plain(m.aggregate_mode),
            plain(m.aggregate_key), plain(m.affector_attr_id)]


def n_effect(e):
    return [plain(e.id), plain(e.category_id), e.is_offensive, e.is_assistance,
            plain(e.duration_attr_id), plain(e.discharge_attr_id), plain(e.range_attr_id),
            plain(e.falloff_attr_id), plain(e.tracking_speed_attr_id),
            plain(e.fitting_usage_chance_attr_id), plain(e.resist_attr_id),
            plain(e.build_status), [n_modifier(m) for m in e.modifiers]]


def n_attr(a):
    return [plain(a.id), plain(a.max_attr_id), plain(a.default_value), a.high_is_good, a.stackable]


def n_type(t):
    return [plain(t.id), plain(t.group_id), plain(t.category_id),
            [[plain(k), plain(v)] for k, v in t.attrs.items()],
            [[plain(k), n_effect(e)] for k, e in t.effects.items()],
            None if t.default_effect is None else n_effect(t.default_effect),
            [[plain(k), plain(v[0]), plain(v[1])] for k, v in t.abilities_data.items()],
            [[plain(k), plain(v)] for k, v in t.required_skills.items()]]


def n_buff(b):
    return [plain(b.buff_id), plain(b.affectee_filter), plain(b.affectee_filter_extra_arg),
            plain(b.affectee_attr_id), plain(b.operator), plain(b.aggregate_mode)]


# ---------------------------------------------------------------------------
# views of a handler
# ---------------------------------------------------------------------------

def handler_view(h, probes):
    """Public getters on the probe ids -> canonical view (also the private
    storages' key sets, as an extra)."""
    from eos.cache_handler.exception import CacheHandlerError
    v = {'fp': canon(h.get_fingerprint()), 'types': {}, 'attrs': {}, 'effects': {}, 'buffs': {}}
    for kind, getter, norm in (('types', h.get_type, n_type), ('attrs', h.get_attr, n_attr),
                               ('effects', h.get_effect, n_effect)):
        for i in probes[kind]:
            try:
                v[kind][i] = canon(norm(getter(i)))
            except CacheHandlerError:
                v[kind][i] = 'absent'
    for i in probes['buffs']:
        try:
            s = h.get_buff_templates(i)
            v['buffs'][i] = sorted((canon(n_buff(b)) for b in s), key=repr)
        except CacheHandlerError:
            v['buffs'][i] = 'absent'
    # what the served effect objects *do* with their fields (decisions taken by comparing them with
    # enumeration members): compared between writer and reader only
    v['behaviour'] = {}
    for i in probes['effects']:
        try:
            e = h.get_effect(i)
        except CacheHandlerError:
            continue
        def b(f):
            try:
                return repr(plain(f()))
            except Exception as x:  # noqa
                return 'raise ' + type(x).__name__
        v['behaviour'][i] = [b(lambda: e.is_projectable), b(lambda: e._state),
                             b(lambda: len(e.local_modifiers)), b(lambda: len(e.projected_modifiers))]
    for kind, name in (('types', 'type'), ('attrs', 'attr'), ('effects', 'effect'),
                       ('buffs', 'buff_template')):
        st = getattr(h, '_JsonCacheHandler__%s_storage' % name, None)
        v['keys_' + kind] = None if st is None else sorted(repr(k) for k in st)
    return v


def key_match(k, i):
    """model storage key (canonical) vs probe id: Python == on numbers"""
    if isinstance(k, tuple) and k[0] in ('i', 'q'):
        return k[1] == i
    if k is True or k is False:
        return int(k) == i
    return False


def model_view(state, probes):
    v = {'fp': state['fp'], 'types': {}, 'attrs': {}, 'effects': {}, 'buffs': {}}
    for kind in ('types', 'attrs', 'effects'):
        for i in probes[kind]:
            hit = [e[1] for e in state[kind] if key_match(e[0], i)]
            v[kind][i] = hit[0] if hit else 'absent'
    for i in probes['buffs']:
        hit = [e[1] for e in state['buffs'] if key_match(e[0], i)]
        v['buffs'][i] = sorted(hit[0], key=repr) if hit else 'absent'
    for kind in ('types', 'attrs', 'effects', 'buffs'):
        v['keys_' + kind] = sorted(repr(_unc(e[0])) for e in state[kind])
    return v


def _unc(k):
    if isinstance(k, tuple) and k[0] == 'i':
        return k[1]
    if isinstance(k, tuple) and k[0] == 'q':
        return float(k[1])
    if isinstance(k, tuple) and k[0] == 'inf':
        return -math.inf if k[1] else math.inf
    return k


def view_diff(a, b, ignore_keys=False):
    for kind in ('fp', 'types', 'attrs', 'effects', 'buffs'):
        if a[kind] != b[kind]:
            if kind == 'fp':
                return 'fingerprint: %r vs %r' % (a[kind], b[kind])
            for i in a[kind]:
                if a[kind][i] != b[kind].get(i):
                    return '%s[%s]: %r vs %r' % (kind, i, a[kind][i], b[kind].get(i))
            return kind
    if not ignore_keys:
        for kind in ('types', 'attrs', 'effects', 'buffs'):
            ka, kb = a['keys_' + kind], b['keys_' + kind]
            if ka is not None and kb is not None and ka != kb:
                return 'storage keys of %s: %r vs %r' % (kind, ka, kb)
    return None


# ---------------------------------------------------------------------------
# generators
# ---------------------------------------------------------------------------

def customised_ids():
    """effect ids with instance customisers / type customisation triggers"""
    import eos  # noqa: F401  (loads customisations)
    from eos.eve_obj.effect import EffectFactory
    from eos.const.eve import EffectId, TypeGroupId
    inst = set(int(k) for k in EffectFactory._instance_id_map)
    trig = {int(EffectId.fueled_armor_repair),
            int(EffectId.ship_module_ancillary_remote_armor_repairer)}
    return inst, trig, int(TypeGroupId.character)


def rnd_num(rng):
    k = rng.random()
    if k < 0.3:
        return rng.randint(-5, 500)
    if k < 0.5:
        return rng.choice([0.1, 0.5, 2.5, -1.25, 1e-7, 12345.678, 1e21, 3.0, -0.0, 1.0])
    if k < 0.8:
        return rng.uniform(-1000, 1000)
    if k < 0.9:
        return rng.randint(-2 ** 70, 2 ** 70)
    return rng.choice([0, 1, 1.5e300, 5e-324])


def opt(rng, f, p=0.35):
    return None if rng.random() < p else f()


def gen_modifier(rng, attr_ids):
    from eos.const.eos import ModAffecteeFilter, ModDomain, ModOperator, ModAggregateMode
    pick = lambda cls: rng.choice([int(m) for m in cls])  # noqa: E731
    aid = lambda: rng.choice(attr_ids) if attr_ids and rng.random() < 0.8 else rng.randint(1, 9999)  # noqa
    return [opt(rng, lambda: pick(ModAffecteeFilter), 0.1), opt(rng, lambda: pick(ModDomain), 0.1),
            opt(rng, lambda: rng.randint(1, 5000), 0.5), opt(rng, aid, 0.1),
            opt(rng, lambda: pick(ModOperator), 0.1), opt(rng, lambda: pick(ModAggregateMode), 0.1),
            opt(rng, lambda: rng.randint(1, 50), 0.6), opt(rng, aid, 0.1)]


def gen_effect(rng, eid, attr_ids, rich):
    from eos.const.eos import EffectBuildStatus
    from eos.const.eve import EffectCategoryId
    aid = lambda: rng.choice(attr_ids) if attr_ids else rng.randint(1, 99)  # noqa: E731
    p = 0.15 if rich else 0.6
    return [eid, opt(rng, lambda: rng.choice([int(c) for c in EffectCategoryId] + [99]), p),
            rng.random() < 0.5, rng.random() < 0.5,
            opt(rng, aid, p), opt(rng, aid, p), opt(rng, aid, p), opt(rng, aid, p), opt(rng, aid, p),
            opt(rng, aid, p), opt(rng, aid, p),
            opt(rng, lambda: rng.choice([int(s) for s in EffectBuildStatus]), p),
            [gen_modifier(rng, attr_ids) for _ in range(rng.choice([0, 0, 1, 2, 4]) if rich else 0)]]


def gen_objs(rng, avoid_custom=True, id_base=0):
    """A well-formed object set: unique ids, types refer to effects of the set."""
    inst, trig, char_group = customised_ids()
    n_attr_ = rng.randint(0, 8)
    attr_ids = rng.sample(range(1 + id_base, 60 + id_base), n_attr_)
    attrs = []
    for a in attr_ids:
        rich = rng.random() < 0.6
        attrs.append([a, opt(rng, lambda: rng.choice(attr_ids), 0.2 if rich else 0.8),
                      opt(rng, lambda: rnd_num(rng), 0.2 if rich else 0.8),
                      rng.random() < 0.5, rng.random() < 0.5])
    pool = [i for i in range(1000 + id_base, 1040 + id_base)]
    if avoid_custom:
        pool = [i for i in pool if i not in inst and i not in trig]
    eff_ids = rng.sample(pool, rng.randint(0, 6))
    effects = [gen_effect(rng, e, attr_ids, rng.random() < 0.7) for e in eff_ids]
    types = []
    for t in rng.sample(range(1 + id_base, 40 + id_base), rng.randint(0, 6)):
        rich = rng.random() < 0.65
        te = rng.sample(effects, rng.randint(0, min(4, len(effects)))) if rich else []
        grp = opt(rng, lambda: rng.randint(2, 900), 0.2 if rich else 0.7)
        if not avoid_custom and rng.random() < 0.3:
            grp = char_group
        types.append([
            t, grp, opt(rng, lambda: rng.randint(1, 90), 0.2 if rich else 0.7),
            [[a, rnd_num(rng) if rng.random() < 0.9 else math.inf]
             for a in rng.sample(range(1, 200), rng.randint(0, 6) if rich else 0)],
            [[e[0], e] for e in te],
            (rng.choice(te) if te and rng.random() < 0.6 else
             (rng.choice(effects) if effects and rich and rng.random() < 0.2 else None)),
            [[ab, rng.choice([0, 5, 12.5, rng.randint(0, 60)]),
              rng.choice([math.inf, math.inf, rng.randint(1, 30), 3.0])]
             for ab in rng.sample(range(20, 50), rng.randint(0, 3) if rich else 0)],
            [[s, rng.randint(1, 5)] for s in rng.sample(range(3300, 3400), rng.randint(0, 3) if rich else 0)]])
    buffs = []
    for _ in range(rng.choice([0, 0, 1, 2, 3, 5])):
        m = gen_modifier(rng, attr_ids)
        buffs.append([rng.choice([rng.randint(1 + id_base, 6 + id_base), rng.randint(1, 40)]),
                      m[0], m[2], m[3], m[4], m[5]])
        # near-duplicates: templates of the same buff that differ in exactly one field
        while rng.random() < 0.35:
            b = list(buffs[-1])
            k = rng.choice([2, 2, 3, 4, 5])
            if k == 2:
                b[2] = (b[2] or 0) + rng.randint(1, 5) if isinstance(b[2], int) or b[2] is None else b[2]
            elif k == 3:
                b[3] = b[3] + 1 if isinstance(b[3], int) else b[3]
            elif k == 4:
                b[4] = (b[4] % 10) + 1 if isinstance(b[4], int) else b[4]
            else:
                b[5] = (b[5] % 3) + 1 if isinstance(b[5], int) else b[5]
            buffs.append(b)
    return [types, attrs, effects, buffs]


def probes_of(objs_list, extra=(7777,)):
    p = {'types': set(extra), 'attrs': set(extra), 'effects': set(extra), 'buffs': set(extra)}
    for o in objs_list:
        p['types'].update(t[0] for t in o[0])
        p['attrs'].update(a[0] for a in o[1])
        p['effects'].update(e[0] for e in o[2])
        p['buffs'].update(b[0] for b in o[3])
    return {k: sorted(v) for k, v in p.items()}


# ---------------------------------------------------------------------------
# files
# ---------------------------------------------------------------------------

def workdir(pid):
    d = os.path.join(common.WORK, pid)
    shutil.rmtree(d, ignore_errors=True)
    os.makedirs(d)
    return d


def cleanup(pid):
    shutil.rmtree(os.path.join(common.WORK, pid), ignore_errors=True)


def write_payload(path, tree):
    with bz2.BZ2File(path, 'w') as f:
        f.write(json.dumps(tree).encode('utf-8'))


def run_model_cases(exe, groups):
    """groups: list of line lists, each a self-contained script for bin/cache
    (which keeps a current handler between lines).  Returns one output list
    per group.  Groups are never split across processes."""
    import threading
    n = max(1, min(int(common.NPROC), 8, len(groups) // 50 or 1))
    chunks = [groups[i::n] for i in range(n)]
    outs = [None] * n
    errs = []

    def work(k):
        try:
            lines = [l for g in chunks[k] for l in g]
            outs[k] = common.run_driver(exe, lines, shards=1)
        except common.TieBroken as e:
            errs.append(e)
    ths = [threading.Thread(target=work, args=(k,)) for k in range(n)]
    for t in ths:
        t.start()
    for t in ths:
        t.join()
    if errs:
        raise errs[0]
    res = [None] * len(groups)
    for k in range(n):
        off = 0
        for j, g in enumerate(chunks[k]):
            res[k + j * n] = outs[k][off:off + len(g)]
            off += len(g)
    return res


# ---------------------------------------------------------------------------
# a counting in-memory data handler (C16/C17)
# ---------------------------------------------------------------------------

class CountingDataHandler:
    """Raw eve tables of a two-type universe; `scale` changes the data so that
    objects built from different data differ; counts getter invocations."""

    def __init__(self, version, scale=1):
        self.version = version
        self.scale = scale
        self.calls = 0
        self.version_calls = 0

    def _r(self, rows):
        self.calls += 1
        return [dict(r) for r in rows]

    def get_evetypes(self):
        return self._r([{'typeID': 1, 'groupID': 25}, {'typeID': 2, 'groupID': 60}])

    def get_evegroups(self):
        return self._r([{'groupID': 25, 'categoryID': 6}, {'groupID': 60, 'categoryID': 7}])

    def get_dgmattribs(self):
        return self._r([{'attributeID': 9, 'defaultValue': 0.0, 'highIsGood': True,
                         'stackable': True},
                        {'attributeID': 20, 'defaultValue': 1.0, 'highIsGood': True,
                         'stackable': False},
                        {'attributeID': 2468, 'defaultValue': 0.0, 'highIsGood': True,
                         'stackable': True}] +
                       # known to the data only as rows of their own: whichever the effect's modifier
                       # info names is reachable, the others are not
                       [{'attributeID': a, 'defaultValue': 5.0, 'highIsGood': True, 'stackable': True}
                        for a in MI_ATTRS])

    def get_dgmtypeattribs(self):
        return self._r([{'typeID': 1, 'attributeID': 9, 'value': 100.0 * self.scale},
                        {'typeID': 2, 'attributeID': 20, 'value': 25.0},
                        {'typeID': 2, 'attributeID': 2468, 'value': 10.0}])     # warfareBuff1ID -> buff 10

    def get_dgmeffects(self):
        return self._r([{'effectID': 1000, 'effectCategory': 0, 'isOffensive': False,
                         'isAssistance': False,
                         'modifierInfo': [{'domain': 'shipID', 'func': 'ItemModifier',
                                           'modifiedAttributeID': 9, 'modifyingAttributeID': 20,
                                           'operation': 6},
                                          {'domain': 'shipID', 'func': 'ItemModifier',
                                           'modifiedAttributeID': 9,
                                           'modifyingAttributeID': mi_attr(self.scale),
                                           'operation': 2}]}])

    def get_dgmtypeeffects(self):
        return self._r([{'typeID': 2, 'effectID': 1000, 'isDefault': True}])

    def get_dbuffcollections(self):
        # the buff templates depend on the data too: which attribute buff 10 touches follows the scale
        return self._r([{'buffID': 10, 'aggregateMode': 'Maximum', 'operationName': 'PostPercent',
                         'itemModifiers': [{'dogmaAttributeID': buff_attr(self.scale)}],
                         'locationModifiers': [], 'locationGroupModifiers': [],
                         'locationRequiredSkillModifiers': []}])

    def get_skillreqs(self):
        return self._r([])

    def get_typefighterabils(self):
        return self._r([])

    def get_version(self):
        self.version_calls += 1
        return self.version


def buff_attr(scale):
    return 9 if scale % 2 else 20


MI_ATTRS = (31, 32, 33)


def mi_attr(scale):
    return MI_ATTRS[scale % 3]


def served_value(handler):
    """what the handler serves, as the number that depends on the data (base value of attr 9 on type 1)
    provided the buff templates it serves come from the same data; -1.0 when the served objects are a
    mixture of two data versions"""
    from eos.cache_handler.exception import CacheHandlerError
    try:
        v = handler.get_type(1).attrs.get(9)
    except CacheHandlerError:
        return None
    try:
        tpls = handler.get_buff_templates(10)
    except CacheHandlerError:
        tpls = None
    if v is not None and tpls is not None:
        attrs = sorted(t.affectee_attr_id for t in tpls)
        if attrs != [buff_attr(int(v / 100))]:
            return -1.0
    if v is not None:
        # the attributes reachable through the effect's modifier info are those of the same data
        have = []
        for a in MI_ATTRS:
            try:
                handler.get_attr(a)
                have.append(a)
            except CacheHandlerError:
                pass
        if have != [mi_attr(int(v / 100))]:
            return -1.0
    return v


def reset_source_manager():
    from eos.source import SourceManager
    SourceManager._sources.clear()
    SourceManager.default = None
