"""C03 — validation equals the stateless restriction rules and reports only
real items.

proof side : coq/props/C03.v (model/Restrictions.v, model/RestrictionsSpec.v,
             proofs/Restrictions_p.v) with the tables of gen/T_restr.v
tie        : random histories over universes carrying the restriction
             attributes/effects; after every operation fit.validate(skip) of
             the real eos is compared with the extracted model for skip = {},
             singletons and random subsets (ocaml/restr_driver.ml)
search     : `oracle` below — a Python port of the stateless rules over the
             public configuration + liveness of keys + skip-is-filter; only run
             when something broke."""
import json
import os
import random
import re
import time
from fractions import Fraction

import common
import eng_impl
import eng_run
from eosenv import parse_q

PROP_FILE = 'props/C03.v'
TABLES = ['eos', 'restr']

RAT = re.compile(r'-?[01]+/[01]+')


# ---------------------------------------------------------------------------
# canonical form of a validation line
# ---------------------------------------------------------------------------

def norm_field(fld):
    parts = fld.split(';')
    out = []
    for p in parts:
        if RAT.fullmatch(p):
            fr = parse_q(p)
            out.append((0, fr, ''))
        else:
            out.append((1, 0, p))
    out.sort()
    return ';'.join(str(fr) if k == 0 else s for k, fr, s in out)


def norm_line(s):
    s = s.rstrip()
    if not s.startswith('vdata'):
        return 'exn' if s.startswith('exn') else s
    ents = []
    for e in s.split()[1:]:
        key, rt, data = e.split(':', 2)
        ents.append('%s:%s:%s' % (key, rt, ','.join(norm_field(x) for x in data.split(','))))
    return 'vdata ' + ' '.join(sorted(ents))


def close_field(a, b):
    """two normalised data fields: equal, or rationals within 1e-9 relative"""
    if a == b:
        return True
    pa, pb = a.split(';'), b.split(';')
    if len(pa) != len(pb):
        return False
    for x, y in zip(pa, pb):
        if x == y:
            continue
        try:
            fx, fy = Fraction(x), Fraction(y)
        except ValueError:
            return False
        if abs(fx - fy) > Fraction(1, 10 ** 9) * max(abs(fx), abs(fy)):
            return False
    return True


def same_data(a, b):
    """dict-of-dict validation data equal up to the numeric tolerance"""
    if a == b:
        return True
    if set(a) != set(b):
        return False
    for k in a:
        if set(a[k]) != set(b[k]):
            return False
        for rt in a[k]:
            fa, fb = a[k][rt].split(','), b[k][rt].split(',')
            if len(fa) != len(fb) or not all(close_field(x, y) for x, y in zip(fa, fb)):
                return False
    return True


def same_line(nm, ni):
    if nm == ni:
        return True
    if nm.startswith('vdata') and ni.startswith('vdata'):
        return same_data(parse_entries(nm), parse_entries(ni))
    return False


def parse_entries(s):
    """{key: {rtype: data string}} of a normalised line ('vok' -> {})"""
    d = {}
    if s.startswith('vdata'):
        for e in s.split()[1:]:
            key, rt, data = e.split(':', 2)
            d.setdefault(key, {})[int(rt)] = data
    return d


# ---------------------------------------------------------------------------
# scripts
# ---------------------------------------------------------------------------

def build_script(ulines, oplines, meta, rng, every=True):
    import c03_gen
    types = c03_gen.RESTRICTION_TYPES
    out = [(l, 'setup') for l in ulines]
    for k, l in enumerate(oplines):
        out.append((l, 'op'))
        if k < meta['setup_len'] - 1:
            continue
        for f in meta['fits']:
            out.append(('validate %d -' % f, 'val'))
            if rng.random() < 0.5:
                out.append(('validate %d %d' % (f, rng.choice(types)), 'val'))
            if rng.random() < 0.3:
                sub = sorted(rng.sample(types, rng.randint(2, len(types) - 1)))
                out.append(('validate %d %s' % (f, ','.join(map(str, sub))), 'val'))
    for f in meta['fits']:
        out.append(('validate %d -' % f, 'val'))
        for t in types:
            out.append(('validate %d %d' % (f, t), 'val'))
        out.append(('validate %d %s' % (f, ','.join(map(str, types))), 'val'))
    return out


class Result:
    def __init__(self):
        self.histories = 0
        self.ops = 0
        self.validations = 0
        self.failing_validations = 0
        self.disagreements = []
        self.engine_disagreements = []
        self.internal = 0
        self.rtype_hist = {}
        self.kind_hist = {}
        self.op_hist = {}
        self.nontrivial = set()
        self.contents = set()
        self.samples = []
        self.model_aborted = []


def model_outputs(exe, histories, pens):
    """per history the driver's output lines (incl. the pen line), or None when
    the driver process died or timed out on that history"""
    import subprocess
    lines = []
    for h in histories:
        lines.append(eng_run.pen_line(pens))
        lines += [l for l, _ in h]
    try:
        out = common.run_driver(exe, lines, shards=1, timeout=600)
        res, pos = [], 0
        for h in histories:
            res.append(out[pos:pos + len(h) + 1])
            pos += len(h) + 1
        return res
    except common.TieBroken:
        pass
    res = []
    for h in histories:
        ls = [eng_run.pen_line(pens)] + [l for l, _ in h]
        try:
            p = subprocess.run([exe], input='\n'.join(ls) + '\n', capture_output=True, text=True, timeout=60)
            ol = p.stdout.splitlines()
            res.append(ol if (p.returncode == 0 and len(ol) == len(ls)) else None)
        except subprocess.TimeoutExpired:
            res.append(None)
    if all(r is None for r in res):
        raise common.TieBroken('model driver restr', 'driver fails on every history of a chunk')
    return res


def run_histories(exe, histories, pens, res=None):
    """every history on the model (sharded driver processes) and on the real
    eos (in-process); compares line by line"""
    import c03_impl
    res = res or Result()
    outs = model_outputs(exe, histories, pens)
    for hi, h in enumerate(histories):
        mout = outs[hi]
        if mout is None:
            # the extracted engine model did not finish this history (stack overflow / time limit):
            # nothing to compare; counted and kept for inspection
            res.model_aborted.append([l for l, _ in h])
            continue
        impl = c03_impl.RImpl()
        pos = 1
        res.histories += 1
        dead = False
        flips = set()
        content = []
        for k, (l, kind) in enumerate(h):
            m = mout[pos]
            pos += 1
            if dead:
                continue
            i = impl.run(l)
            if kind == 'op':
                res.ops += 1
                c = l.split()[0]
                res.op_hist[c] = res.op_hist.get(c, 0) + 1
                content.append(l)
                if not eng_run.same(l, m, i):
                    res.engine_disagreements.append(dict(history=hi, index=k, cmd=l, model=m, impl=i))
                    dead = True
                elif i.startswith('exn Internal') or m.startswith('exn Internal'):
                    res.internal += 1
                    dead = True
                continue
            if kind != 'val':
                continue
            res.validations += 1
            nm, ni = norm_line(m), norm_line(i)
            if ni.startswith('vdata'):
                res.failing_validations += 1
                for key, errs in parse_entries(ni).items():
                    for rt, data in errs.items():
                        res.rtype_hist[rt] = res.rtype_hist.get(rt, 0) + 1
                        flips.add(rt)
            res.kind_hist[ni.split()[0]] = res.kind_hist.get(ni.split()[0], 0) + 1
            if not same_line(nm, ni):
                res.disagreements.append(dict(history=hi, index=k, cmd=l, model=nm, impl=ni))
                dead = True
            elif len(res.samples) < 2 and ni.startswith('vdata') and l.endswith(' -'):
                res.samples.append({'after_ops': [x for x, kk in h[:k] if kk == 'op'][-6:], 'cmd': l, 'data': ni})
        if len(flips) >= 2:
            res.nontrivial.add(hi)
            res.contents.add(hash(tuple(content)))
    return res


# ---------------------------------------------------------------------------
# direct oracle: stateless rules over the public configuration
# (implementation only; shares nothing with the Coq model)
# ---------------------------------------------------------------------------

def fr(x):
    return Fraction(x)


def fs(x):
    """binary num/den token, as the runners print rationals"""
    return eng_impl.qout(Fraction(x))


def fl(values):
    return ';'.join(fs(x) for x in sorted(Fraction(x) for x in values))


class Stateless:
    """expected ValidationError.data of fit f, computed from what is publicly
    visible now: containers, states, charges, type data of the current source,
    running effect flags and modified attribute values"""

    def __init__(self, impl, f):
        from eos.const.eve import AttrId, EffectId, TypeCategoryId, TypeGroupId
        from eos.const.eos import Restriction, State
        self.A, self.E, self.TC, self.TG, self.R, self.S = AttrId, EffectId, TypeCategoryId, TypeGroupId, Restriction, State
        self.impl = impl
        self.fit = impl.fits[f]
        ss = self.fit.solar_system
        self.handler = ss.source.cache_handler if (ss is not None and ss.source is not None) else None
        self.data = {}

    # -- configuration ---------------------------------------------------
    def tops(self):
        fit = self.fit
        out = [x for x in (fit.character, fit.ship, fit.stance, fit.effect_beacon) if x is not None]
        for c in (fit.skills, fit.implants, fit.boosters, fit.subsystems):
            out += list(c)
        for c in (fit.modules.high, fit.modules.mid, fit.modules.low):
            out += [x for x in c if x is not None]
        for c in (fit.rigs, fit.drones, fit.fighters):
            out += list(c)
        return out

    def items(self, autos=True):
        out = []
        for it in self.tops():
            out.append(it)
            ch = getattr(it, 'charge', None)
            if ch is not None:
                out.append(ch)
                if autos:
                    out += list(ch.autocharges.values())
            if autos:
                out += list(it.autocharges.values())
        return out

    def ty(self, it):
        if self.handler is None or it is None:
            return None
        return self.handler.types.get(it._type_id)

    def tattrs(self, it):
        t = self.ty(it)
        return t.attrs if t is not None else {}

    def loaded(self, it):
        return self.ty(it) is not None

    def cls(self, it):
        import c03_impl
        return c03_impl.CLS_NAME[type(it)]

    def is_module(self, it):
        return self.cls(it) in ('modhigh', 'modmid', 'modlow')

    def running(self, it, eid):
        e = it.effects.get(eid)
        return e is not None and e.status

    def val(self, it, a):
        return it.attrs[a]

    def holder(self, it, a):
        try:
            return it.attrs[a]
        except (AttributeError, KeyError):
            return None

    def taint(self, it, rt, s):
        self.data.setdefault(self.impl.key(it) if hasattr(self.impl, 'key') else self.impl.iid(it), {})[int(rt)] = s

    # -- rules -------------------------------------------------------------
    def resource(self, rt, users, use_attr, out_attr, rnd):
        uses = [(it, self.val(it, use_attr)) for it in users]
        total = sum(fr(u) for _, u in uses)
        if rnd:
            total = Fraction(round(float(total), 2))
        out = self.holder(self.fit.ship, out_attr)
        out = fr(out) if out is not None else Fraction(0)
        if total <= out:
            return
        for it, u in uses:
            if u > 0:
                self.taint(it, rt, 'res,%s,%s,%s' % (fs(total), fs(out), fs(u)))

    def slot(self, rt, used, holder, attr, keys):
        v = self.holder(holder, attr)
        total = int(v) if v is not None else 0
        if used > total:
            for it in keys(total):
                self.taint(it, rt, 'slot,%d,%d' % (used, total))

    def run(self):
        A, E, R, S = self.A, self.E, self.R, self.S
        fit = self.fit
        ship = fit.ship
        items = self.items()
        loaded = [it for it in items if self.loaded(it)]
        online = [it for it in loaded if it.state is not None and it.state >= S.online]
        # resources
        self.resource(R.cpu, [it for it in loaded if self.running(it, E.online) and A.cpu in self.tattrs(it)],
                      A.cpu, A.cpu_output, True)
        self.resource(R.powergrid, [it for it in loaded if self.running(it, E.online) and A.power in self.tattrs(it)],
                      A.power, A.power_output, True)
        self.resource(R.calibration,
                      [it for it in loaded if self.running(it, E.rig_slot) and A.upgrade_cost in self.tattrs(it)],
                      A.upgrade_cost, A.upgrade_capacity, False)
        self.resource(R.dronebay_volume,
                      [it for it in loaded if self.cls(it) == 'drone' and A.volume in self.tattrs(it)],
                      A.volume, A.drone_capacity, False)
        self.resource(R.drone_bandwidth,
                      [it for it in online if self.cls(it) == 'drone' and A.drone_bandwidth_used in self.tattrs(it)],
                      A.drone_bandwidth_used, A.drone_bandwidth, False)
        # slots
        for rt, rack, attr in ((R.high_slot, fit.modules.high, A.hi_slots), (R.mid_slot, fit.modules.mid, A.med_slots),
                               (R.low_slot, fit.modules.low, A.low_slots)):
            lst = list(rack)
            self.slot(rt, len(lst), ship, attr,
                      lambda total, lst=lst: [x for x in lst[max(total, 0):] if x is not None])
        for rt, cont, attr in ((R.rig_slot, fit.rigs, A.rig_slots), (R.subsystem_slot, fit.subsystems, A.max_subsystems),
                               (R.fighter_squad, fit.fighters, A.fighter_tubes)):
            lst = list(cont)
            self.slot(rt, len(lst), ship, attr, lambda total, lst=lst: lst)
        for rt, eff, attr in ((R.turret_slot, E.turret_fitted, A.turret_slots_left),
                              (R.launcher_slot, E.launcher_fitted, A.launcher_slots_left)):
            users = [it for it in loaded if self.running(it, eff)]
            self.slot(rt, len(users), ship, attr, lambda total, users=users: users)
        users = [it for it in items if self.cls(it) == 'drone' and it.state >= S.online]
        self.slot(R.launched_drone, len(users), fit.character, A.max_active_drones, lambda total, users=users: users)
        for rt, fa, sa in ((R.fighter_squad_support, A.fighter_squadron_is_support, A.fighter_support_slots),
                           (R.fighter_squad_light, A.fighter_squadron_is_light, A.fighter_light_slots),
                           (R.fighter_squad_heavy, A.fighter_squadron_is_heavy, A.fighter_heavy_slots)):
            users = [it for it in loaded if self.cls(it) == 'fighter' and self.tattrs(it).get(fa)]
            self.slot(rt, len(users), ship, sa, lambda total, users=users: users)
        # capital items
        if not (ship is not None and self.tattrs(ship).get(A.is_capital_size)):
            for it in loaded:
                v = self.tattrs(it).get(A.volume)
                if self.is_module(it) and v is not None and v > 3500:
                    self.taint(it, R.capital_item, 'cap,%s,%s' % (fs(v), fs(3500)))
        # charges
        for it in loaded:
            if not self.is_module(it):
                continue
            ch = it.charge
            if ch is None:
                continue
            ta = self.tattrs(it)
            if self.loaded(ch):
                allowed = {ta[a] for a in (A.charge_group_1, A.charge_group_2, A.charge_group_3, A.charge_group_4,
                                           A.charge_group_5) if a in ta}
                g = self.ty(ch).group_id
                if allowed and g not in allowed:
                    self.taint(ch, R.charge_group, 'chg,%s,%s' % ('-' if g is None else g, fl(allowed)))
                if A.charge_size in ta:
                    cs = self.tattrs(ch).get(A.charge_size)
                    if cs != ta[A.charge_size]:
                        self.taint(ch, R.charge_size, 'chs,%s,%s' % ('-' if cs is None else fs(cs), fs(ta[A.charge_size])))
            vol = self.tattrs(ch).get(A.volume, 0)
            cap = ta.get(A.capacity, 0)
            if vol > cap:
                self.taint(ch, R.charge_volume, 'chv,%s,%s' % (fs(vol), fs(cap)))
        # drone group
        if ship is not None:
            sa = self.tattrs(ship)
            allowed = {sa[a] for a in (A.allowed_drone_group_1, A.allowed_drone_group_2) if a in sa}
            if allowed:
                for it in loaded:
                    if self.cls(it) == 'drone' and self.ty(it).group_id not in allowed:
                        g = self.ty(it).group_id
                        self.taint(it, R.drone_group, 'drg,%s,%s' % ('-' if g is None else g, fl(allowed)))
        # max group
        for rt, attr, pool in ((R.max_group_fitted, A.max_group_fitted, loaded),
                               (R.max_group_online, A.max_group_online, online),
                               (R.max_group_active, A.max_group_active,
                                [it for it in loaded if it.state is not None and it.state >= S.active])):
            mods = [it for it in pool if self.is_module(it) and self.ty(it).group_id is not None]
            for it in mods:
                if attr not in self.tattrs(it):
                    continue
                g = self.ty(it).group_id
                qty = len([o for o in mods if self.ty(o).group_id == g])
                mx = self.val(it, attr)
                if qty > mx:
                    self.taint(it, rt, 'mg,%s,%d,%s' % (g, qty, fs(mx)))
        # rig size
        if ship is not None and A.rig_size in self.tattrs(ship):
            allowed = self.tattrs(ship)[A.rig_size]
            for it in loaded:
                if self.running(it, E.rig_slot) and A.rig_size in self.tattrs(it):
                    sz = self.tattrs(it)[A.rig_size]
                    if sz != allowed:
                        self.taint(it, R.rig_size, 'rig,%s,%s' % (fs(sz), fs(allowed)))
        # ship type / group
        stid = ship._type_id if (ship is not None and self.loaded(ship)) else None
        sgrp = self.ty(ship).group_id if (ship is not None and self.loaded(ship)) else None
        from eos.restriction.restriction.ship_type_group import ALLOWED_GROUP_ATTR_IDS, ALLOWED_TYPE_ATTR_IDS
        for it in loaded:
            if not self.is_module(it):
                continue
            ta = self.tattrs(it)
            tl = {ta[a] for a in ALLOWED_TYPE_ATTR_IDS if a in ta}
            gl = {ta[a] for a in ALLOWED_GROUP_ATTR_IDS if a in ta}
            if not tl and not gl:
                continue
            if stid not in tl and sgrp not in gl:
                self.taint(it, R.ship_type_group, 'stg,%s,%s,%s,%s' % (
                    '-' if stid is None else stid, '-' if sgrp is None else sgrp, fl(tl), fl(gl)))
        # skill requirements
        skills = {}
        for sk in fit.skills:
            skills[sk._type_id] = sk
        for it in loaded:
            rq = self.ty(it).required_skills
            if not rq or self.cls(it) == 'rig':
                continue
            errs = []
            for tid, lvl in rq.items():
                sk = skills.get(tid)
                have = sk.level if (sk is not None and self.loaded(sk)) else None
                if have is None or have < lvl:
                    errs.append('%d/%s/%d' % (tid, '-' if have is None else have, lvl))
            if errs:
                self.taint(it, R.skill_requirement, 'skl,' + ';'.join(sorted(errs)))
        # slot index
        for rt, cname, attr in ((R.subsystem_index, 'subsystem', A.subsystem_slot),
                                (R.implant_index, 'implant', A.implantness), (R.booster_index, 'booster', A.boosterness)):
            byidx = {}
            for it in loaded:
                if self.cls(it) == cname and self.tattrs(it).get(attr) is not None:
                    byidx.setdefault(self.tattrs(it)[attr], []).append(it)
            for idx, its in byidx.items():
                if len(its) > 1:
                    for it in its:
                        self.taint(it, rt, 'idx,%s' % fs(idx))
        # state
        for it in online:
            if self.cls(it) in ('charge', 'autocharge'):
                continue
            mx = max([int(S.offline)] + [int(e._state) for e in self.ty(it).effects.values()])
            if it.state > mx:
                self.taint(it, R.state, 'st,%d,%s' % (int(it.state), ';'.join(str(int(s)) for s in S if s <= mx)))
        # loaded item / item class (autocharges are not restricted)
        from eos.restriction.restriction.item_class import CLASS_VALIDATORS
        import c03_impl
        for it in self.items(autos=False):
            if not self.loaded(it):
                self.taint(it, R.loaded_item, 'ld')
                continue
            t = self.ty(it)
            ok = {c03_impl.CLS_NAME[c] for c, v in CLASS_VALIDATORS.items() if v(t) is True}
            if self.cls(it) not in ok:
                self.taint(it, R.item_class, 'cls,%s,%s' % (self.cls(it), ';'.join(sorted(ok))))
        return self.data


def oracle_point(impl, f, rng=None, all_singletons=False):
    """the property itself at one observation point, on the implementation:
    data == stateless rules, keys live, skip is a filter. None if it holds."""
    import c03_gen
    raw = impl.run('validate %d -' % f)
    full = parse_entries(norm_line(raw))
    try:
        want = Stateless(impl, f).run()
    except Exception as e:  # noqa
        return None if not full else 'stateless evaluation failed: %s: %s' % (type(e).__name__, e)
    if raw.startswith('exn'):
        return ('fit %d: validate() raised %s instead of returning or raising ValidationError; the stateless rules '
                'give %s' % (f, raw[4:], want or 'no error'))
    live = impl.fit_item_keys(f)
    for k in full:
        if k not in live:
            return 'validation data of fit %d has key %r which is not an item on the fit (live: %s)' % (
                f, k, sorted(live))
    want_n = {k: {rt: ','.join(norm_field(x) for x in d.split(',')) for rt, d in v.items()} for k, v in want.items()}
    if not same_data(want_n, full):
        diff = []
        for k in sorted(set(want_n) | set(full)):
            a, b = want_n.get(k, {}), full.get(k, {})
            for rt in sorted(set(a) | set(b)):
                if a.get(rt) != b.get(rt) and not (a.get(rt) and b.get(rt) and same_data({0: {0: a[rt]}}, {0: {0: b[rt]}})):
                    diff.append('item %s restriction %d: rules say %s, validate() says %s' % (k, rt, a.get(rt), b.get(rt)))
        return 'fit %d: ' % f + '; '.join(diff[:4])
    types = c03_gen.RESTRICTION_TYPES
    if rng is not None and not all_singletons:
        subsets = [[t] for t in rng.sample(types, 3)] + [[t] for t in sorted({rt for v in full.values() for rt in v})][:4]
        subsets.append(sorted(rng.sample(types, rng.randint(2, len(types) - 1))))
    else:
        subsets = [[t] for t in types]
    for sub in subsets:
        got = parse_entries(norm_line(impl.run('validate %d %s' % (f, ','.join(map(str, sub))))))
        exp = {}
        for k, v in full.items():
            vv = {rt: d for rt, d in v.items() if rt not in sub}
            if vv:
                exp[k] = vv
        if not same_data(got, exp):
            return 'fit %d: validate(skip=%s) is not validate() without those types: %s vs %s' % (f, sub, got, exp)
    return None


def oracle_history(ulines, oplines, fits, rng=None, every=True):
    """run a history on the implementation, checking the property after every
    operation; returns (index of the op after which it fails, why) or None"""
    import c03_impl
    impl = c03_impl.RImpl()
    for l in ulines:
        impl.run(l)
    for k, l in enumerate(oplines):
        r = impl.run(l)
        if r.startswith('exn Internal'):
            return None
        if l.split()[0] in ('new', 'fit', 'solsys', 'read', 'get', 'keys', 'effects'):
            continue
        for f in fits:
            if f not in impl.fits:
                continue
            why = oracle_point(impl, f, rng, all_singletons=(k == len(oplines) - 1))
            if why:
                return k, why
    return None


def shrink_oracle(ulines, oplines, fits, budget=150):
    """delta-debug the op list while the oracle still fails"""
    res = oracle_history(ulines, oplines, fits)
    if res is None:
        return oplines, None
    ops = oplines[:res[0] + 1]
    why = res[1]
    n = 2
    runs = 0
    while len(ops) >= 2 and runs < budget:
        chunk = max(1, len(ops) // n)
        removed = False
        k = 0
        while k < len(ops) and runs < budget:
            hi = min(k + chunk, len(ops))
            keep = [l for l in ops[k:hi] if l.startswith(('new ', 'fit ', 'solsys '))]
            if len(keep) == hi - k:
                k += chunk
                continue
            cand = ops[:k] + keep + ops[hi:]
            runs += 1
            r2 = oracle_history(ulines, cand, fits)
            if r2 is not None:
                ops = cand[:r2[0] + 1]
                why = r2[1]
                removed = True
                k += len(keep)
            else:
                k += chunk
        if not removed:
            if chunk == 1:
                break
            n = min(n * 2, len(ops))
    # drop unused item constructions
    used = ' '.join(l for l in ops if not l.startswith('new '))
    ops = [l for l in ops if not l.startswith('new ') or re.search(r'\b%s\b' % l.split()[1], used)]
    r3 = oracle_history(ulines, ops, fits)
    if r3 is None:
        return oplines[:res[0] + 1], res[1]
    return ops, r3[1]


# ---------------------------------------------------------------------------

def _work(job):
    exe, hs, pens, base = job
    common.NPROC = '2'
    r = Result()
    try:
        run_histories(exe, hs, pens, r)
    except common.TieBroken as e:
        r.tie = '%s: %s' % (e.what, e.detail)
    for d in r.disagreements + r.engine_disagreements:
        d['abs'] = d['history'] + base
    r.nontrivial = set()
    return r


def merge(res, part):
    if getattr(part, 'tie', None):
        raise common.TieBroken('model driver restr', part.tie)
    for k in ('histories', 'ops', 'validations', 'failing_validations', 'internal'):
        setattr(res, k, getattr(res, k) + getattr(part, k))
    res.disagreements += part.disagreements
    res.engine_disagreements += part.engine_disagreements
    for name in ('rtype_hist', 'kind_hist', 'op_hist'):
        a, b = getattr(res, name), getattr(part, name)
        for k, v in b.items():
            a[k] = a.get(k, 0) + v
    res.contents |= part.contents
    res.model_aborted += part.model_aborted
    if len(res.samples) < 2:
        res.samples += part.samples[:2 - len(res.samples)]



# ---------------------------------------------------------------------------
# the model driver: engine_driver.ml (owned by the engine model) over the
# extended system, plus ocaml/restr_extra.ml; regenerated so that it follows
# the engine driver's command set
# ---------------------------------------------------------------------------

def gen_driver():
    src = open(os.path.join(common.VERIF, 'ocaml', 'engine_driver.ml')).read()
    extra = open(os.path.join(common.VERIF, 'ocaml', 'restr_extra.ml')).read()

    def sub(old, new, count=1):
        nonlocal src
        if src.count(old) < 1:
            raise common.TieBroken('restr driver generation', 'anchor not found in engine_driver.ml: %r' % old[:60])
        src = src.replace(old, new) if count == 0 else src.replace(old, new, count)
    sub('let world = ref (init_sys [])', 'let world = ref (init_sys [])\nlet rr : rregs ref = ref []')
    sub('let (w, r) = step !world o in\n  world := w;',
        'let ((w, rr\'), r) = xstep (!world, !rr) o in\n  world := w; rr := rr\';')
    sub('world := init_sys !pen;', 'world := init_sys !pen; rr := [];', 0)
    sub('let handle toks =', extra + '\nlet handle toks =')
    sub('  | ["counters"] ->', '  | ["validate"; f; skip] -> do_validate f skip\n  | ["rregs"; f] -> rregs_s f\n  | ["counters"] ->')
    src = '(* GENERATED by harness/c03.py from engine_driver.ml + restr_extra.ml -- do not edit *)\n' + src \
        if not src.startswith('(* prelude') else src.replace('\n', '\n(* GENERATED by harness/c03.py from engine_driver.ml + restr_extra.ml -- do not edit *)\n', 1)
    path = os.path.join(common.VERIF, 'ocaml', 'restr_driver.ml')
    if not os.path.exists(path) or open(path).read() != src:
        open(path, 'w').write(src)
    # extraction file: everything the engine driver needs plus the restriction layer
    xe = open(os.path.join(common.COQ, 'extract', 'X_engine.v')).read()
    m = re.search(r'From EosV Require Import (.*?)\.\s*\nExtraction Language OCaml\.\s*Extraction "extract/out/engine\.ml"([^.]*)\.', xe, re.S)
    if not m:
        raise common.TieBroken('restr driver generation', 'unexpected shape of extract/X_engine.v')
    names = [n for n in m.group(2).split() if n != 'step']
    mine = ['xstep', 'xinit', 'xvalidate', 'step', 'fr_get', 'rr_get', 'all_rids', 'rid_num']
    xr = ('(* GENERATED by harness/c03.py from extract/X_engine.v -- do not edit *)\n'
          'From Coq Require Import ZArith QArith ExtrOcamlBasic.\n'
          'From EosV Require Import %s model.Restrictions.\nExtraction Language OCaml.\n'
          'Extraction "extract/out/restr.ml" %s.\n' % (' '.join(m.group(1).split()), ' '.join(mine + [n for n in names if n not in mine])))
    path = os.path.join(common.COQ, 'extract', 'X_restr.v')
    if not os.path.exists(path) or open(path).read() != xr:
        with common.Lock():
            open(path, 'w').write(xr)


def corpus_cases():
    out = []
    d = os.path.join(common.VERIF, 'corpus', 'C03')
    for fn in sorted(os.listdir(d)) if os.path.isdir(d) else []:
        if fn.endswith('.json'):
            c = json.load(open(os.path.join(d, fn)))['case']
            c['name'] = fn
            out.append(c)
    return out


def case_script(c):
    sc = [(l, 'setup') for l in c['ulines']]
    for l in c['ops']:
        sc.append((l, 'val' if l.startswith('validate') else 'op'))
    return sc


def run(rep):
    import c03_gen
    rng = random.Random(rep.seed)
    n = 320 if rep.tier == 'quick' else 20000
    rep.broken = []
    pre_broken = []
    try:
        gen_driver()
    except common.TieBroken as e:
        pre_broken.append('%s: %s' % (e.what, e.detail))
    proved = common.prove(rep, PROP_FILE, TABLES, ['extract/X_restr.vo'])
    rep.broken += pre_broken
    if proved and rep.tier == 'thorough':
        common.coqchk(rep, PROP_FILE)
    eng_impl.set_penalty_base(0.5)
    pens = eng_impl.penalties()
    corpus = corpus_cases()
    gens = []
    for _ in range(n):
        ul, ol, meta = c03_gen.gen_history(rng)
        gens.append((ul, ol, meta))
    histories = [case_script(c) for c in corpus] + [build_script(ul, ol, meta, rng) for ul, ol, meta in gens]
    rep.cov['rule'] = (
        'random histories (placements incl. place/insert/equip with holes, removals, clears, state flips, '
        'effect-mode overrides, charge swaps, targets, skill levels, fleets, solar-system and source switches, '
        '10% deliberately failing calls) over 1-3 fits and two data sources carrying every restriction attribute '
        'and slot effect; fit.validate(skip) compared after every operation for skip = {}, random singletons and '
        'subsets, and for every singleton and the full set at the end; non-trivial = at least two different '
        'restriction types reported during the history; distinct by hash of the operation list')
    res = Result()
    try:
        exe = common.build_driver('restr')
        step = 60
        jobs = [(exe, histories[k:k + step], pens, k) for k in range(0, len(histories), step)]
        import multiprocessing
        nproc = max(1, min(8, (os.cpu_count() or 2) // 2, len(jobs)))
        if nproc > 1:
            with multiprocessing.get_context('fork').Pool(nproc) as pool:
                parts = pool.map(_work, jobs)
        else:
            parts = [_work(j) for j in jobs]
        for part in parts:
            merge(res, part)
    except common.TieBroken as e:
        rep.broken.append('%s: %s' % (e.what, e.detail))
    rep.cov['evaluations'] = res.validations
    rep.cov['histories'] = res.histories
    rep.cov['operations'] = res.ops
    rep.cov['failing_validations'] = res.failing_validations
    rep.cov['distinct_nontrivial'] = len(res.contents)
    rep.cov['traces_validated_against_impl'] = res.histories
    rep.cov['restriction_type_histogram'] = {str(k): v for k, v in sorted(res.rtype_hist.items())}
    rep.cov['operation_histogram'] = res.op_hist
    rep.cov['outcome_histogram'] = res.kind_hist
    rep.cov['histories_ended_by_internal_error'] = res.internal
    rep.cov['histories_model_driver_aborted'] = len(res.model_aborted)
    if res.model_aborted:
        os.makedirs(os.path.join(common.WORK, 'c03'), exist_ok=True)
        rep.cov['model_driver_aborted_note'] = ('the extracted engine model overflowed the stack or exceeded 60 s on these '
                                                'histories (engine model, not the restriction layer); they are excluded '
                                                'from the comparison; first one: ' + ' | '.join(res.model_aborted[0][-6:]))
    rep.cov['samples'] = res.samples
    rep.cov['exhaustive'] = False
    finish(rep, corpus, gens, res, rng)


def known_witnesses(rep):
    """replay the witnesses of known findings on the implementation"""
    bad = []
    for kf in common.known_findings('C03'):
        p = os.path.join(common.VERIF, kf['witness'])
        c = json.load(open(p))['case']
        fits = sorted({int(l.split()[1]) for l in c['ops'] if l.startswith('fit ')})
        why = oracle_history(c['ulines'], [l for l in c['ops'] if not l.startswith('validate')], fits)
        if why:
            if kf['status'] == 'open':
                rep.known_finding(kf['line'])
            else:
                bad.append((kf, why))
    return bad


def finish(rep, corpus, gens, res, rng):
    bad = known_witnesses(rep)
    for kf, why in bad:
        c = json.load(open(os.path.join(common.VERIF, kf['witness'])))['case']
        rep.violation({'kind': 'input', 'case': c, 'fails': why[1], 'after_op': why[0],
                       'note': 'witness of fixed finding %s fails again' % kf['id']})
    if bad:
        return
    if not rep.broken and not res.disagreements and not res.engine_disagreements:
        return
    ncorp = len(corpus)
    cases = [(c['ulines'], [l for l in c['ops'] if not l.startswith('validate')],
              sorted({int(l.split()[1]) for l in c['ops'] if l.startswith('fit ')})) for c in corpus]
    cases += [(ul, ol, meta['fits']) for ul, ol, meta in gens]
    order = [d['abs'] for d in res.disagreements if 'abs' in d] + list(range(len(cases)))
    seen = set()
    t0 = time.time()
    for k in order:
        if k in seen or k >= len(cases):
            continue
        seen.add(k)
        if time.time() - t0 > (240 if rep.tier == 'quick' else 900):
            break
        ul, ol, fits = cases[k]
        found = oracle_history(ul, ol, fits, rng)
        if found:
            ops, why = shrink_oracle(ul, ol[:found[0] + 1], fits)
            rep.violation({'kind': 'input', 'case': {'ulines': ul, 'ops': ops}, 'fails': why or found[1],
                           'broken': rep.broken,
                           'disagreement': next((d for d in res.disagreements if d.get('abs') == k), None)})
            return
    rep.violation({'kind': 'obligation', 'broken': rep.broken,
                   'disagreements': res.disagreements[:3], 'engine_disagreements': res.engine_disagreements[:3],
                   'cases': [{'ulines': cases[d['abs']][0], 'ops': cases[d['abs']][1]}
                             for d in (res.disagreements + res.engine_disagreements)[:1] if 'abs' in d]},
                  found_input=False)


def replay(path):
    r = json.load(open(path))
    c = r.get('case')
    if not c or 'ulines' not in c:
        print(json.dumps(r, indent=1)[:3000])
        return 1
    eng_impl.set_penalty_base(0.5)
    ops = [l for l in c['ops'] if not l.startswith('validate')]
    fits = sorted({int(l.split()[1]) for l in ops if l.startswith('fit ')})
    import c03_impl
    impl = c03_impl.RImpl()
    for l in c['ulines'] + ops:
        impl.run(l)
    for f in fits:
        print('fit %d validate():' % f, norm_line(impl.run('validate %d -' % f)))
    found = oracle_history(c['ulines'], ops, fits)
    print('oracle:', ('after op %d (%s): %s' % (found[0], ops[found[0]], found[1])) if found
          else 'property holds on this input')
    return 1 if found else 0
