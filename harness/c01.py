"""C01 — incrementally maintained values equal from-scratch values."""
import engcheck
import eng_gen
import eng_oracle

PROP_FILE = 'props/C01.v'
RULE = ('random data universes (attributes with default/high_is_good/stackable/max_attr, effects of every category '
        'with 0-3 dogma modifiers over filter x domain x operator x aggregate mode, resist attributes, warfare buff '
        'effects with buff templates, autocharges, two overlapping sources) and histories of 10-45 public calls over '
        '1-3 fits, 1-2 solar systems, 0-2 fleets (placement, removal, state, charge, target, effect mode, skill level, '
        'fleet, solar system, source switch, reads, 10% deliberately failing calls); three read disciplines (full '
        'observation after every call / random partial reads / only at the end); model and implementation compared '
        'line by line incl. attrs.keys(), cached keys and register sizes; non-trivial = at least one '
        'AttrsValueChanged or EffectApplied message was delivered; distinct by generation seed')


def run(rep):
    engcheck.run(rep, 'C01', PROP_FILE, eng_gen.gen_history, 120, 6000, ['some', 'all', 'end', 'some'],
                 eng_oracle.oracle_c01, RULE, direct=25)


def replay(path):
    return engcheck.replay(path, eng_oracle.oracle_c01)
