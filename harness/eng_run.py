"""Runs engine scripts on the extracted model and on the real eos and compares
the result lines."""
from fractions import Fraction

import common
from eosenv import bits, parse_q

REL = 1e-9


def pen_line(pens):
    return 'pen ' + ' '.join(bits(p.numerator) + '/' + bits(p.denominator) for p in pens)


def observation(meta, full=True, attrs=None):
    out = []
    for f in meta['fits']:
        out.append('fitdump %d' % f)
    for s in meta['sss']:
        out.append('regs %d' % s)
    for i in meta['items']:
        if full:
            for a in (attrs or meta['attrs']):
                out.append('get %d %d' % (i, a))
        out.append('keys %d' % i)
        out.append('effects %d' % i)
        out.append('item %d' % i)
        cls = (meta.get('classes') or {}).get(i)
        if cls == 'booster':
            out.append('sideeffects %d' % i)
        elif cls == 'fighter':
            out.append('abilities %d' % i)
    return out


def build_script(ulines, oplines, meta, discipline, rng):
    """discipline: 'all' (full observation after every op), 'end' (only at the
    end), 'some' (random partial reads after each op). Returns list of
    (line, kind) with kind in {'setup','op','obs'}."""
    out = [(l, 'setup') for l in ulines]
    for k, l in enumerate(oplines):
        out.append((l, 'op'))
        if k < meta['setup_len'] - 1:
            continue
        if discipline == 'all':
            out += [(x, 'obs') for x in observation(meta)]
        elif discipline == 'some':
            obs = observation(meta)
            for x in rng.sample(obs, min(len(obs), rng.randint(0, 60))):
                out.append((x, 'obs'))
    out += [(x, 'obs') for x in observation(meta)]
    # the declarative from-scratch value (model/Spec.v) of every attribute of every item
    for i in meta['items']:
        for a in meta['attrs']:
            out.append(('spec %d %d' % (i, a), 'obs'))
    out.append(('counters', 'obs'))
    return out


def same(cmd, m, i):
    """are model line m and implementation line i the same observation?"""
    m = m.rstrip()
    i = i.rstrip()
    if m == i:
        return True
    if m.startswith('val ') and i.startswith('val '):
        a, b = parse_q(m[4:]), parse_q(i[4:])
        if a == b:
            return True
        # the floor of 1 covers cancellation: a result that is exactly 0 in the model and a rounding
        # residue (2^-52 times an intermediate value) in float arithmetic
        return abs(a - b) <= REL * max(abs(a), abs(b), 1)
    if m.startswith('exn Internal') and i.startswith('exn Internal'):
        return True
    if m.startswith('counters') and i.startswith('counters'):
        return True
    return False


class Result:
    def __init__(self):
        self.lines = 0
        self.ops = 0
        self.histories = 0
        self.disagreements = []      # dict(history, index, cmd, model, impl)
        self.internal = []           # histories where both sides hit an internal error
        self.zero_div = 0
        self.exact_vals = 0
        self.inexact_vals = 0
        self.floor_vals = 0          # equal only under the absolute floor (cancellation to ~0)
        self.op_hist = {}
        self.exn_hist = {}
        self.msg_hist = {}
        self.nontrivial = set()


def run_histories(exe, histories, pens, impl_factory, res=None, stop_at_first=True):
    """histories: list of scripts (list of (line, kind)). Runs all on the model
    in one driver process per shard and on the implementation in-process."""
    res = res or Result()
    lines = []
    for h in histories:
        lines.append(pen_line(pens))
        lines += [l for l, _ in h]
    mout = run_sharded(exe, histories, pens)
    pos = 0
    for hi, h in enumerate(histories):
        impl = impl_factory()
        pos += 1  # pen line
        res.histories += 1
        dead = False
        for k, (l, kind) in enumerate(h):
            m = mout[pos]
            pos += 1
            if dead:
                continue
            i = impl.run(l)
            res.lines += 1
            if kind == 'op':
                res.ops += 1
                c = l.split()[0]
                res.op_hist[c] = res.op_hist.get(c, 0) + 1
                if i.startswith('exn'):
                    res.exn_hist[i[4:]] = res.exn_hist.get(i[4:], 0) + 1
            if m.startswith('counters'):
                for kv in m.split()[1:]:
                    k_, v_ = kv.split('=')
                    res.msg_hist[k_] = res.msg_hist.get(k_, 0) + int(v_)
                    if k_ in ('AttrsValueChanged', 'EffectApplied') and int(v_) > 0:
                        res.nontrivial.add(hi)
            if m.startswith('val ') and i.startswith('val '):
                if m == i:
                    res.exact_vals += 1
                else:
                    res.inexact_vals += 1
                    a_, b_ = parse_q(m[4:]), parse_q(i[4:])
                    if abs(a_ - b_) > REL * max(abs(a_), abs(b_)):
                        res.floor_vals += 1
            if not same(l, m, i):
                res.disagreements.append(dict(history=hi, index=k, cmd=l, model=m, impl=i))
                dead = True
                continue
            if i.startswith('exn Internal') or m.startswith('exn Internal'):
                if 'ZeroDiv' in m or 'ZeroDivisionError' in i:
                    res.zero_div += 1
                else:
                    res.internal.append(dict(history=hi, index=k, cmd=l, model=m, impl=i))
                dead = True
    return res


def run_sharded(exe, histories, pens):
    """keep each history inside one driver process"""
    import os
    n = len(histories)
    shards = min(int(common.NPROC), n)
    chunks = [[] for _ in range(shards)]
    owner = []
    for k, h in enumerate(histories):
        c = k % shards
        owner.append((c, len(chunks[c])))
        chunks[c].append(pen_line(pens))
        chunks[c] += [l for l, _ in h]
        owner[-1] = (c, owner[-1][1], len(h) + 1)
    import threading
    outs = [None] * shards
    errs = {}

    def work(c):
        try:
            outs[c] = common.run_driver(exe, chunks[c], shards=1) if chunks[c] else []
        except common.TieBroken as ex:
            errs[c] = ex.detail
    ths = [threading.Thread(target=work, args=(c,)) for c in range(shards)]
    for t in ths:
        t.start()
    for t in ths:
        t.join()
    for c in range(shards):
        if outs[c] is None:
            raise common.TieBroken('model driver engine', 'shard %d failed: %s' % (c, errs.get(c, '?')))
    res = []
    for c, start, ln in owner:
        res += outs[c][start:start + ln]
    return res
