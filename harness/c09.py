"""C09 — reading values is pure."""
import engcheck
import eng_gen
import eng_oracle

PROP_FILE = 'props/C09.v'
RULE = ('every generated mutation sequence is run under three read disciplines (every value of every item after every '
        'call / random partial reads / no reads until the end); all three are compared line by line with the model '
        '(whose reads are typed to touch the derived state only), so a read that changes a later value shows as a '
        'difference at the final full observation; attrs.keys() is excluded from the purity claim; non-trivial = at '
        'least one AttrsValueChanged or EffectApplied delivered')


class Tri:
    """yield each generated history three times, once per discipline"""

    def __init__(self):
        self.cur = None
        self.k = 0

    def __call__(self, rng):
        if self.k % 3 == 0:
            self.cur = eng_gen.gen_history(rng, profile='default')
        self.k += 1
        return self.cur


def run(rep):
    engcheck.run(rep, 'C09', PROP_FILE, Tri(), 150, 6000, ['all', 'some', 'end'], eng_oracle.oracle_c09, RULE, direct=10)


def replay(path):
    return engcheck.replay(path, eng_oracle.oracle_c09)
