"""Feature-interaction scenarios for the engine-family checks: small generated
worlds in which two mechanisms of the calculator meet (a cap that moves after
the capped value was read, a resistance that changes while a projection is
applied, a dependency chain that crosses a projection, a command burst whose
buff id is supplied by a removable charge, equal-strength buffs from carriers
of different penalty classes, ...). Random histories reach these corners only
rarely; every engine check appends a few randomised instances of each.

Each scenario returns (name, universe lines, op lines, meta) in the format of
engcheck.run's extra histories; they are executed on the extracted model and on
eos like every other history (observation after every call)."""
from fractions import Fraction

import eng_gen
from eng_gen import q, F, D, OP, AG, EC, TC, AttrId, EffectId, TypeId, BUFF_EFFECTS

CHAR = int(TypeId.character_static)


class U:
    """a hand-built universe rendered through eng_gen.Universe.lines"""

    def __init__(self):
        self.u = object.__new__(eng_gen.Universe)
        self.u.attrs, self.u.effects, self.u.types, self.u.buffs = {}, {}, {}, {}
        self.type(CHAR, None, None)

    def attr(self, a, default=None, hig=True, stackable=True, mx=None):
        self.u.attrs[int(a)] = dict(default=default, hig=hig, stackable=stackable, max=mx)

    def effect(self, e, cat, mods=(), chance=None, resist=None):
        self.u.effects[int(e)] = dict(cat=int(cat), chance=chance, resist=resist, mods=list(mods))

    @staticmethod
    def mod(flt, dom, tgt, op, src, extra=None, agg=AG.stack, key=None):
        return dict(filter=int(flt), extra=extra, domain=int(dom), tgt=int(tgt), op=int(op), agg=int(agg),
                    key=key, src=int(src))

    def type(self, t, group, category, attrs=None, effects=(), default=None, skills=None):
        self.u.types[int(t)] = dict(group=group, category=category, default=default,
                                    attrs={int(k): Fraction(v) for k, v in (attrs or {}).items()},
                                    effects=[int(e) for e in effects], skills=skills or {}, abilities=[])

    def buff(self, bid, flt, tgt, op, agg, extra=None):
        self.u.buffs.setdefault(int(bid), []).append(dict(filter=int(flt), extra=extra, tgt=int(tgt), op=int(op),
                                                          agg=int(agg)))

    def lines(self):
        return self.u.lines(1)

    def attr_ids(self):
        return sorted(self.u.attrs)


def meta_of(ops, attrs, setup_len, classes=None):
    items, fits, sss = set(), set(), set()
    for l in ops:
        t = l.split()
        if t[0] == 'new':
            items.add(int(t[1]))
        elif t[0] == 'fit':
            fits.add(int(t[1]))
            items.add(int(t[2]))
        elif t[0] == 'solsys':
            sss.add(int(t[1]))
    return dict(items=sorted(items), fits=sorted(fits), sss=sorted(sss), attrs=attrs, setup_len=setup_len,
                classes=classes or {})


def base_world(nfits=2):
    ops = ['solsys 1']
    for f in range(1, nfits + 1):
        ops.append('fit %d %d' % (f, f))
    ops.append('source 1 1')
    for f in range(1, nfits + 1):
        ops.append('ssadd 1 %d' % f)
    return ops


# ----------------------------------------------------------------------

def cap_moves(rng, k=0):
    """an attribute is read while its cap does not bind (or ties); the cap then drops below it"""
    A, M, K = 1010, 1002, 1000
    u = U()
    u.attr(K)
    u.attr(M, default=None)
    u.attr(A, default=None, mx=M)
    u.attr(1011)                                  # derived from A
    val = rng.choice([8, 16, 20])
    cap = rng.choice([val, val + 4, 40])          # tie or not binding
    factor = rng.choice([Fraction(1, 4), Fraction(1, 2)])
    u.effect(int(EffectId.online), EC.online)
    # while online the module lowers the cap of the ship's attribute
    u.effect(2001, EC.online, [U.mod(F.item, D.ship, M, OP.post_mul, K)])
    u.effect(2002, EC.passive, [U.mod(F.item, D.self, 1011, OP.mod_add, A)])
    u.type(3100, 50, int(TC.ship), {A: val, M: cap, 1011: 100}, [2002])
    u.type(3200, 51, int(TC.module), {K: factor}, [int(EffectId.online), 2001])
    ops = base_world(1) + ['new 10 ship 3100 1 0', 'new 12 modhigh 3200 1 0', 'slot 1 ship 10', 'rappend 1 high 12']
    setup = len(ops)
    ops += ['get 10 %d' % A, 'state 12 2', 'get 10 %d' % A, 'get 10 1011', 'state 12 1', 'get 10 %d' % A,
            'state 12 %d' % rng.choice([2, 3]), 'rremove 1 high item 12', 'get 10 1011']
    return 'scen:cap', u.lines(), ops, meta_of(ops, u.attr_ids(), setup)


def resist_moves(rng, k=0):
    """a projected effect with a resistance attribute; the resistance of the target changes while applied"""
    R, X, S, K = 1003, 1010, 1001, 1000
    u = U()
    for a in (R, X, S, K, 1011):
        u.attr(a)
    u.effect(2001, EC.target, [U.mod(F.item, D.target, X, OP.post_percent, S)], resist=R)
    u.effect(2002, EC.passive, [U.mod(F.item, D.ship, R, rng.choice([OP.post_mul, OP.mod_add]), K)])
    u.effect(2003, EC.passive, [U.mod(F.item, D.self, 1011, OP.mod_add, X)])
    u.type(3100, 50, int(TC.ship), {R: Fraction(1, 2), X: 1000, 1011: 0}, [2003])
    u.type(3200, 51, int(TC.module), {S: rng.choice([-50, 50, 25])}, [2001], default=2001)
    u.type(3600, 52, None, {K: rng.choice([Fraction(1, 2), 2])}, [2002])
    ops = base_world(2) + ['new 10 ship 3100 1 0', 'new 11 ship 3100 1 0', 'new 12 modhigh 3200 3 0', 'new 14 rig 3600 1 0',
                           'slot 1 ship 10', 'slot 2 ship 11', 'rappend 1 high 12']
    setup = len(ops)
    ops += ['target 12 11', 'get 11 %d' % X, 'sadd 2 rigs 14', 'get 11 %d' % X, 'get 11 1011', 'srm 2 rigs 14',
            'get 11 %d' % X, 'sadd 2 rigs 14', 'target 12 -', 'get 11 1011']
    return 'scen:resist', u.lines(), ops, meta_of(ops, u.attr_ids(), setup)


def chain_over_projection(rng, k=0):
    """target.C depends on target.B which a projected effect derives from projector.STR; STR changes"""
    STR, B, C, K = 1001, 1010, 1011, 1000
    u = U()
    for a in (STR, B, C, K):
        u.attr(a)
    u.effect(2001, EC.target, [U.mod(F.item, D.target, B, rng.choice([OP.post_percent, OP.mod_add]), STR)])
    u.effect(2002, EC.passive, [U.mod(F.item, D.self, C, OP.mod_add, B)])
    # an implant on the projecting fit strengthens the module
    u.effect(2003, EC.passive, [U.mod(F.domain, D.ship, STR, OP.post_mul, K)])
    u.type(3100, 50, int(TC.ship), {B: 100, C: 10}, [2002])
    u.type(3200, 51, int(TC.module), {STR: 20}, [2001], default=2001)
    u.type(3500, 52, int(TC.implant), {K: rng.choice([2, Fraction(1, 2)])}, [2003])
    ops = base_world(2) + ['new 10 ship 3100 1 0', 'new 11 ship 3100 1 0', 'new 12 modhigh 3200 3 0',
                           'new 20 implant 3500 1 0', 'slot 1 ship 10', 'slot 2 ship 11', 'rappend 1 high 12',
                           'target 12 11']
    setup = len(ops)
    ops += ['get 11 %d' % C, 'sadd 1 implants 20', 'get 11 %d' % C, 'get 11 %d' % B, 'srm 1 implants 20',
            'get 11 %d' % C, 'state 12 2', 'get 11 %d' % C]
    return 'scen:chain', u.lines(), ops, meta_of(ops, u.attr_ids(), setup)


def burst_charge(rng, k=0):
    """a command burst whose buff id and strength are supplied by its charge; charges are swapped and removed
    while the burst runs, with and without ships around, inside and outside a fleet"""
    BID, BVAL = int(AttrId.warfare_buff_1_id), int(AttrId.warfare_buff_1_value)
    T1, T2, K1, K2, V = 1010, 1011, 1000, 1001, 1002
    u = U()
    for a in (T1, T2, K1, K2, V):
        u.attr(a)
    u.attr(BID, hig=True)
    u.attr(BVAL, hig=True)
    burst = int(BUFF_EFFECTS[0])
    u.effect(burst, EC.active)
    u.effect(2001, EC.passive, [U.mod(F.item, D.other, BID, OP.post_assign, K1),
                                U.mod(F.item, D.other, BVAL, OP.post_assign, V)])
    u.buff(10, F.item, T1, OP.post_percent, rng.choice([AG.maximum, AG.minimum]))
    u.buff(11, F.item, T2, OP.post_percent, AG.maximum)
    u.type(3100, 50, int(TC.ship), {T1: 1000, T2: 500})
    u.type(3200, 51, int(TC.module), {BID: 10, BVAL: 20}, [burst], default=burst)
    u.type(3300, 52, int(TC.charge), {K1: 11, V: 20}, [2001])
    u.type(3301, 52, int(TC.charge), {K1: rng.choice([10, 11]), V: rng.choice([20, 30])}, [2001])
    fleet = k % 2 == 0
    ops = base_world(2) + ['new 10 ship 3100 1 0', 'new 11 ship 3100 1 0', 'new 12 modhigh 3200 3 0',
                           'new 30 charge 3300 1 0', 'new 31 charge 3301 1 0', 'rappend 1 high 12']
    if fleet:
        ops += ['fladd 1 1', 'fladd 1 2']
    setup = len(ops)
    first = ['ship_first', 'ship_late', 'ship_between'][(k // 2) % 3]
    if first == 'ship_first':
        ops += ['slot 1 ship 10', 'slot 2 ship 11']
    ops += ['charge 12 30']
    if first == 'ship_between':
        # the charge arrived while the burst had nobody to boost; the ships come while it is loaded
        ops += ['slot 1 ship 10', 'slot 2 ship 11']
    ops += ['get 10 %d' % T1, 'get 11 %d' % T1, 'charge 12 31', 'get 10 %d' % T2, 'get 11 %d' % T2, 'charge 12 -']
    if first == 'ship_late':
        ops += ['slot 1 ship 10', 'slot 2 ship 11']
    ops += ['get 10 %d' % T1, 'get 11 %d' % T1, 'charge 12 30', 'state 12 2', 'charge 12 31', 'state 12 3',
            'get 11 %d' % T2, 'slot 1 ship -', 'charge 12 -', 'slot 1 ship 10', 'get 10 %d' % T2]
    if fleet:
        # removal from the wrong fleet raises and changes nothing; then the real removal
        ops += ['charge 12 30', 'flrm 2 2', 'get 11 %d' % T2, 'get 11 %d' % T1, 'flrm 1 2', 'get 11 %d' % T2]
    return 'scen:burst', u.lines(), ops, meta_of(ops, u.attr_ids(), setup)


def buff_tie(rng, k=0):
    """two bursts with the same buff id and exactly equal strength, one carried by a module of a
    penalty-immune type category, plus a third penalised modification of the same operator"""
    BID, BVAL = int(AttrId.warfare_buff_1_id), int(AttrId.warfare_buff_1_value)
    T, S = 1010, 1001
    u = U()
    u.attr(T, stackable=False)
    u.attr(S)
    u.attr(BID)
    u.attr(BVAL)
    b1, b2 = int(BUFF_EFFECTS[0]), int(BUFF_EFFECTS[1])
    u.effect(b1, EC.active)
    u.effect(b2, EC.active)
    op = rng.choice([OP.post_percent, OP.post_mul])
    u.effect(2001, EC.passive, [U.mod(F.item, D.ship, T, op, S)])
    agg = rng.choice([AG.maximum, AG.minimum])
    u.buff(10, F.item, T, op, agg)
    val = rng.choice([20, 10]) if op == OP.post_percent else Fraction(5, 4)
    u.type(3100, 50, int(TC.ship), {T: 100})
    u.type(3200, 51, int(TC.module), {BID: 10, BVAL: val}, [b1], default=b1)
    u.type(3201, 51, int(rng.choice([TC.implant, TC.charge, TC.subsystem])), {BID: 10, BVAL: val}, [b2], default=b2)
    u.type(3202, 51, int(TC.module), {S: val}, [2001])
    order = [12, 13]
    rng.shuffle(order)
    ops = base_world(1) + ['new 10 ship 3100 1 0', 'new 12 modhigh 3200 3 0', 'new 13 modhigh 3201 3 0',
                           'new 14 modmid 3202 1 0', 'slot 1 ship 10']
    setup = len(ops)
    ops += ['rappend 1 high %d' % order[0], 'rappend 1 high %d' % order[1], 'rappend 1 mid 14', 'get 10 %d' % T,
            'state %d 2' % order[0], 'get 10 %d' % T, 'state %d 3' % order[0], 'get 10 %d' % T]
    return 'scen:bufftie', u.lines(), ops, meta_of(ops, u.attr_ids(), setup)


def retarget_reload(rng, k=0):
    """a projection (and a fleet boost) is taken away while the target stays loaded; the same ship
    object is then unloaded and loaded again"""
    X, S = 1010, 1001
    BID, BVAL = int(AttrId.warfare_buff_1_id), int(AttrId.warfare_buff_1_value)
    u = U()
    for a in (X, S, BID, BVAL):
        u.attr(a)
    b1 = int(BUFF_EFFECTS[0])
    u.effect(2001, EC.target, [U.mod(F.item, D.target, X, OP.post_percent, S)])
    u.effect(b1, EC.active)
    u.buff(10, F.item, X, OP.post_percent, AG.maximum)
    u.type(3100, 50, int(TC.ship), {X: 100})
    u.type(3200, 51, int(TC.module), {S: 50}, [2001], default=2001)
    u.type(3201, 51, int(TC.module), {BID: 10, BVAL: 20}, [b1], default=b1)
    ops = base_world(2) + ['new 10 ship 3100 1 0', 'new 11 ship 3100 1 0', 'new 15 ship 3100 1 0',
                           'new 12 modhigh 3200 3 0', 'new 13 modhigh 3201 3 0', 'slot 1 ship 10', 'slot 2 ship 11',
                           'rappend 1 high 12', 'rappend 1 high 13', 'fladd 1 1', 'fladd 1 2']
    setup = len(ops)
    way = ['retarget', 'untarget', 'stop'][k % 3]
    ops += ['target 12 11', 'get 11 %d' % X]
    ops += {'retarget': ['target 12 10', 'get 10 %d' % X, 'get 11 %d' % X], 'untarget': ['target 12 -'],
            'stop': ['state 12 2']}[way]
    ops += ['flrm 1 2', 'get 11 %d' % X]
    ops += rng.choice([['slot 2 ship -', 'slot 2 ship 11'], ['slot 2 ship 15', 'slot 2 ship 11'],
                       ['ssrm 1 2', 'ssadd 1 2'], ['source 1 -', 'source 1 1']])
    ops += ['get 11 %d' % X, 'target 12 -', 'get 11 %d' % X]
    return 'scen:reload', u.lines(), ops, meta_of(ops, u.attr_ids(), setup)


def slot_index(rng, k=0):
    """the slot number of an implant / booster / subsystem is itself modified by another item while the
    item is removed and a second one of the same type slot arrives (registers keyed by a slot number)"""
    kind, attr, cls, setname, cat = [
        ('implant', int(AttrId.implantness), 'implant', 'implants', int(TC.implant)),
        ('booster', int(AttrId.boosterness), 'booster', 'boosters', int(TC.implant)),
        ('subsystem', int(AttrId.subsystem_slot), 'subsystem', 'subsystems', int(TC.subsystem))][k % 3]
    K = 1000
    u = U()
    u.attr(attr)
    u.attr(K)
    dom = D.ship if kind == 'subsystem' else D.character
    u.effect(2001, EC.passive, [U.mod(F.domain, dom, attr, OP.mod_add, K)])
    u.type(3100, 50, int(TC.ship), {})
    u.type(3500, 51, cat, {attr: 1})
    u.type(3501, 51, int(TC.implant), {int(AttrId.implantness): 7, K: rng.choice([1, 2])}, [2001])
    ops = base_world(1) + ['new 10 ship 3100 1 0', 'new 20 %s 3500 1 0' % cls, 'new 21 %s 3500 1 0' % cls,
                           'new 22 implant 3501 1 0', 'slot 1 ship 10']
    setup = len(ops)
    ops += ['sadd 1 implants 22', 'sadd 1 %s 20' % setname, 'get 20 %d' % attr, 'srm 1 %s 20' % setname,
            'sadd 1 %s 21' % setname, 'get 21 %d' % attr, 'srm 1 implants 22', 'sadd 1 %s 20' % setname,
            'srm 1 %s 21' % setname]
    classes = {20: cls, 21: cls, 22: 'implant', 10: 'ship'}
    return 'scen:slotidx', u.lines(), ops, meta_of(ops, u.attr_ids(), setup, classes)


def propulsion(rng, k=0):
    """python modifier of propulsion modules: the velocity boost depends on ship mass and on two attributes
    of the module; each of them changes while the value is cached"""
    A = AttrId
    K = 1000
    u = U()
    u.u.custom = True
    for a in (A.mass, A.max_velocity, A.signature_radius, A.speed_factor, A.speed_boost_factor, A.mass_addition,
              A.signature_radius_bonus, K):
        u.attr(int(a))
    eff = int([EffectId.module_bonus_afterburner, EffectId.module_bonus_microwarpdrive][k % 2])
    u.effect(eff, EC.active)
    tgt = [A.mass, A.speed_factor, A.speed_boost_factor][(k // 2) % 3]
    dom = D.ship
    u.effect(2001, EC.passive, [U.mod(F.item if tgt == A.mass else F.domain, dom, int(tgt), OP.post_mul, K)])
    u.type(3100, 50, int(TC.ship), {int(A.mass): rng.choice([1000, 2048]), int(A.max_velocity): 100,
                                    int(A.signature_radius): 64})
    u.type(3250, 51, int(TC.module), {int(A.speed_factor): rng.choice([100, 128]), int(A.speed_boost_factor): 1024,
                                      int(A.mass_addition): 512, int(A.signature_radius_bonus): 400},
           [eff], default=eff)
    u.type(3500, 52, int(TC.implant), {K: rng.choice([2, Fraction(1, 2)])}, [2001])
    ops = base_world(2) + ['new 10 ship 3100 1 0', 'new 11 ship 3100 1 0', 'new 12 modmid 3250 3 0',
                           'new 13 modmid 3250 1 0', 'new 20 implant 3500 1 0', 'slot 1 ship 10', 'slot 2 ship 11']
    setup = len(ops)
    V = int(A.max_velocity)
    ops += ['rappend 1 mid 12', 'get 10 %d' % V, 'sadd 1 implants 20', 'get 10 %d' % V, 'rappend 2 mid 13',
            'state 13 3', 'get 11 %d' % V, 'srm 1 implants 20', 'get 10 %d' % V, 'state 12 2', 'get 10 %d' % V,
            'slot 1 ship -', 'state 12 3', 'slot 1 ship 10', 'get 10 %d' % V, 'sadd 2 implants 20', 'get 11 %d' % V]
    return 'scen:propulsion', u.lines(), ops, meta_of(ops, u.attr_ids(), setup)


def ancillary(rng, k=0):
    """python modifier of ancillary armor repairers on two fits of one solar system: nanite paste is loaded
    and unloaded while the repair amount is cached; the charged multiplier changes"""
    A = AttrId
    K = 1000
    PASTE = int(TypeId.nanite_repair_paste)
    u = U()
    u.u.custom = True
    for a in (A.armor_dmg_amount, A.charged_armor_dmg_mult, K):
        u.attr(int(a))
    eff = int(EffectId.fueled_armor_repair)
    u.effect(eff, EC.active)
    u.effect(2001, EC.passive, [U.mod(F.domain, D.ship, int(A.charged_armor_dmg_mult), OP.post_mul, K)])
    u.type(3100, 50, int(TC.ship), {})
    u.type(3260, 51, int(TC.module), {int(A.armor_dmg_amount): 50, int(A.charged_armor_dmg_mult): 3}, [eff], default=eff)
    u.type(PASTE, 52, int(TC.charge), {})
    u.type(3300, 52, int(TC.charge), {})
    u.type(3500, 53, int(TC.implant), {K: 2}, [2001])
    ops = base_world(2) + ['new 10 ship 3100 1 0', 'new 11 ship 3100 1 0', 'new 12 modlow 3260 %d 0' % rng.choice([1, 3]),
                           'new 13 modlow 3260 %d 0' % rng.choice([1, 3]), 'new 30 charge %d 1 0' % PASTE,
                           'new 31 charge %d 1 0' % PASTE, 'new 32 charge 3300 1 0', 'new 20 implant 3500 1 0',
                           'slot 1 ship 10', 'slot 2 ship 11']
    setup = len(ops)
    R = int(A.armor_dmg_amount)
    first, second = (12, 13) if k % 2 == 0 else (13, 12)
    f1, f2 = (1, 2) if k % 2 == 0 else (2, 1)
    c1, c2 = 30, 31
    ops += ['rappend %d low %d' % (f1, first), 'rappend %d low %d' % (f2, second),
            'get %d %d' % (first, R), 'get %d %d' % (second, R),
            'charge %d %d' % (second, c2), 'get %d %d' % (second, R),        # the fit that came second
            'charge %d %d' % (first, c1), 'get %d %d' % (first, R),
            'sadd %d implants 20' % f2, 'get %d %d' % (second, R),
            'charge %d 32' % second, 'get %d %d' % (second, R), 'charge %d -' % first, 'get %d %d' % (first, R),
            'rremove %d low item %d' % (f1, first), 'charge %d %d' % (second, c1), 'get %d %d' % (second, R)]
    return 'scen:ancillary', u.lines(), ops, meta_of(ops, u.attr_ids(), setup)


def propulsion_batch(rng, k=0):
    """one publication carries a change of a ship attribute the velocity modifier does not care about together
    with a change of the module's speed factor (an implant whose single effect has both modifiers)"""
    A = AttrId
    K = 1000
    u = U()
    u.u.custom = True
    for a in (A.mass, A.max_velocity, A.signature_radius, A.speed_factor, A.speed_boost_factor, A.mass_addition,
              A.signature_radius_bonus, A.armor_hp, K):
        u.attr(int(a))
    eff = int([EffectId.module_bonus_afterburner, EffectId.module_bonus_microwarpdrive][k % 2])
    u.effect(eff, EC.active)
    other = int([A.armor_hp, A.signature_radius][(k // 2) % 2])
    mine = int([A.speed_factor, A.speed_boost_factor][(k // 4) % 2])
    u.effect(2001, EC.passive, [U.mod(F.item, D.ship, other, OP.post_mul, K),
                                U.mod(F.domain, D.ship, mine, OP.post_mul, K)])
    u.type(3100, 50, int(TC.ship), {int(A.mass): 1000, int(A.max_velocity): 100, int(A.signature_radius): 64,
                                    int(A.armor_hp): 1000})
    u.type(3250, 51, int(TC.module), {int(A.speed_factor): 128, int(A.speed_boost_factor): 1024,
                                      int(A.mass_addition): 512, int(A.signature_radius_bonus): 400},
           [eff], default=eff)
    u.type(3500, 52, int(TC.implant), {K: 2}, [2001])
    ops = base_world(1) + ['new 10 ship 3100 1 0', 'new 12 modmid 3250 3 0', 'new 20 implant 3500 1 0',
                           'slot 1 ship 10', 'rappend 1 mid 12']
    setup = len(ops)
    V = int(A.max_velocity)
    ops += ['get 10 %d' % V, 'get 10 %d' % other, 'get 12 %d' % mine, 'sadd 1 implants 20', 'get 10 %d' % V,
            'srm 1 implants 20', 'get 10 %d' % V]
    return 'scen:propbatch', u.lines(), ops, meta_of(ops, u.attr_ids(), setup)


def rejected_assignment(rng, k=0):
    """an assignment to an occupied single slot (ship / charge) is rejected because the new item belongs
    elsewhere; the old occupant is put back. Effects of the occupant and of its holder that are resolved
    through the slot ('ship' domain with item filter, 'other' domain) must be what they were"""
    X, Y, K = 1010, 1011, 1000
    u = U()
    for a in (X, Y, K):
        u.attr(a)
    u.effect(2001, EC.passive, [U.mod(F.item, D.ship, X, OP.post_percent, K)])       # hull bonus on itself
    u.effect(2002, EC.passive, [U.mod(F.item, D.other, Y, OP.post_percent, K)])      # module -> its charge
    u.effect(2003, EC.passive, [U.mod(F.item, D.other, X, OP.post_percent, K)])      # charge -> its module
    u.type(3100, 50, int(TC.ship), {X: 100, K: 50}, [2001])
    u.type(3200, 51, int(TC.module), {X: 100, K: 20}, [2002])
    u.type(3300, 52, int(TC.charge), {Y: 10, K: 10}, [2003])
    same_ss = k % 2 == 0
    ops = ['solsys 1', 'solsys 2', 'fit 1 1', 'fit 2 2', 'source 1 1', 'source 2 1', 'ssadd 1 1',
           'ssadd %d 2' % (1 if same_ss else 2),
           'new 10 ship 3100 1 0', 'new 11 ship 3100 1 0', 'new 12 modhigh 3200 2 0', 'new 13 modhigh 3200 2 0',
           'new 30 charge 3300 1 0', 'new 31 charge 3300 1 0', 'slot 1 ship 10', 'slot 2 ship 11',
           'rappend 1 high 12', 'rappend 2 high 13', 'charge 12 30', 'charge 13 31']
    setup = len(ops)
    ops += ['get 10 %d' % X, 'get 30 %d' % Y, 'get 12 %d' % X,
            'slot 1 ship 11', 'get 10 %d' % X, 'get 11 %d' % X,        # rejected: 11 is the ship of fit 2
            'charge 12 31', 'get 30 %d' % Y, 'get 12 %d' % X, 'get 31 %d' % Y,   # rejected: 31 sits in module 13
            'slot 2 ship 10', 'get 11 %d' % X, 'charge 13 30', 'get 31 %d' % Y]
    return 'scen:rejected', u.lines(), ops, meta_of(ops, u.attr_ids(), setup)


def autocharge_state(rng, k=0):
    """an autocharge (spawned by the type's ammo attribute) whose own effect is state dependent: it must
    follow the state of the module that carries it"""
    X, K = 1010, 1000
    AM = int(AttrId.ammo_loaded)
    u = U()
    for a in (X, K, AM):
        u.attr(a)
    ta = int(EffectId.target_attack)
    u.effect(ta, EC.target)
    cat = [EC.active, EC.online, EC.overload][k % 3]
    u.effect(2001, cat, [U.mod(F.item, D.ship, X, OP.post_percent, K)])
    u.type(3100, 50, int(TC.ship), {X: 100})
    u.type(3200, 51, int(TC.module), {AM: 3300}, [ta], default=ta)
    u.type(3300, 52, int(TC.charge), {K: 50}, [2001], default=2001 if cat == EC.active else None)
    ops = base_world(1) + ['new 10 ship 3100 1 0', 'new 12 modhigh 3200 %d 0' % rng.choice([1, 2]), 'slot 1 ship 10']
    setup = len(ops)
    ops += ['rappend 1 high 12', 'get 10 %d' % X, 'state 12 3', 'get 10 %d' % X, 'state 12 4', 'get 10 %d' % X,
            'state 12 2', 'get 10 %d' % X, 'state 12 1', 'get 10 %d' % X, 'state 12 3', 'source 1 -', 'source 1 1',
            'get 10 %d' % X]
    return 'scen:autostate', u.lines(), ops, meta_of(ops, u.attr_ids(), setup)


def burst_nobase(rng, k=0):
    """a command burst that gives nothing on its own (buff id 0 / absent): only its charge names a buff.
    Activated without charge, charged while running, the charge taken out while running, stopped, removed"""
    BID, BVAL = int(AttrId.warfare_buff_1_id), int(AttrId.warfare_buff_1_value)
    T1, K1, V = 1010, 1000, 1002
    u = U()
    for a in (T1, K1, V):
        u.attr(a)
    u.attr(BID, default=Fraction(0) if k % 2 == 0 else None)
    u.attr(BVAL, default=Fraction(0) if k % 2 == 0 else None)
    burst = int(BUFF_EFFECTS[0])
    u.effect(burst, EC.active)
    u.effect(2001, EC.passive, [U.mod(F.item, D.other, BID, OP.post_assign, K1),
                                U.mod(F.item, D.other, BVAL, OP.post_assign, V)])
    u.buff(10, F.item, T1, OP.post_percent, AG.maximum)
    u.type(3100, 50, int(TC.ship), {T1: 1000})
    u.type(3200, 51, int(TC.module), {}, [burst], default=burst)
    u.type(3300, 52, int(TC.charge), {K1: 10, V: 20}, [2001])
    fleet = (k // 2) % 2 == 0
    ops = base_world(2) + ['new 10 ship 3100 1 0', 'new 11 ship 3100 1 0', 'new 12 modhigh 3200 3 0',
                           'new 30 charge 3300 1 0', 'slot 1 ship 10', 'slot 2 ship 11']
    if fleet:
        ops += ['fladd 1 1', 'fladd 1 2']
    setup = len(ops)
    ops += ['rappend 1 high 12', 'get 10 %d' % T1, 'charge 12 30', 'get 10 %d' % T1, 'get 11 %d' % T1,
            'charge 12 -', 'get 10 %d' % T1, 'state 12 2', 'rremove 1 high item 12', 'slot 1 ship -',
            'slot 1 ship 10', 'get 10 %d' % T1, 'slot 2 ship -']
    return 'scen:burstnobase', u.lines(), ops, meta_of(ops, u.attr_ids(), setup)


def refused_join(rng, k=0):
    """a fit that already belongs to a fleet is refused by another fleet (ValueError); a booster then joins
    (or leaves) that other fleet with its burst already running: the refused fit must stay out of it"""
    BID, BVAL = int(AttrId.warfare_buff_1_id), int(AttrId.warfare_buff_1_value)
    T1 = 1010
    u = U()
    for a in (T1, BID, BVAL):
        u.attr(a)
    burst = int(BUFF_EFFECTS[0])
    u.effect(burst, EC.active)
    u.buff(10, F.item, T1, OP.post_percent, AG.maximum)
    u.type(3100, 50, int(TC.ship), {T1: 1000})
    u.type(3200, 51, int(TC.module), {BID: 10, BVAL: 20}, [burst], default=burst)
    ops = base_world(3) + ['new 10 ship 3100 1 0', 'new 11 ship 3100 1 0', 'new 14 ship 3100 1 0',
                           'new 12 modhigh 3200 3 0', 'slot 1 ship 10', 'slot 2 ship 11', 'slot 3 ship 14',
                           'rappend 2 high 12', 'fladd 1 1']
    setup = len(ops)
    ops += ['fladd 2 1', 'get 10 %d' % T1]
    ops += [['fladd 2 2'], ['fladd 2 2', 'flrm 2 2', 'fladd 2 2'], ['fladd 2 3', 'fladd 2 2']][k % 3]
    ops += ['get 10 %d' % T1, 'get 11 %d' % T1, 'get 14 %d' % T1, 'flrm 1 1', 'get 10 %d' % T1, 'fladd 2 1',
            'get 10 %d' % T1, 'state 12 2', 'get 10 %d' % T1, 'flrm 2 1', 'flrm 2 2']
    return 'scen:refusedjoin', u.lines(), ops, meta_of(ops, u.attr_ids(), setup)


def unloaded_container(rng, k=0):
    """the current source knows the charge's type but not its module's: the module is unloaded, the charge is
    loaded; the module's state still is the charge's state, and changes of it reach the charge"""
    X, S = 1010, 1001
    u = U()
    for a in (X, S):
        u.attr(a)
    u.effect(2001, [EC.active, EC.online, EC.overload][k % 3], [U.mod(F.item, D.ship, X, OP.post_percent, S)])
    u.effect(2002, EC.active)
    u.type(3100, 50, int(TC.ship), {X: 100})
    u.type(3200, 51, int(TC.module), {}, [2002], default=2002)
    u.type(3300, 52, int(TC.charge), {S: 50}, [2001], default=2001 if k % 3 == 0 else None)
    u2 = U()
    u2.u.attrs, u2.u.effects, u2.u.buffs = u.u.attrs, u.u.effects, u.u.buffs
    u2.u.types = {t: v for t, v in u.u.types.items() if t != 3200}
    st = {0: 3, 1: 2, 2: 4}[k % 3]
    ops = ['solsys 1', 'fit 1 1', 'source 1 1', 'ssadd 1 1', 'new 10 ship 3100 1 0', 'new 12 modhigh 3200 1 0',
           'new 30 charge 3300 1 0', 'slot 1 ship 10', 'rappend 1 high 12', 'charge 12 30']
    setup = len(ops)
    ops += ['get 10 %d' % X, 'source 1 2', 'get 10 %d' % X, 'state 12 %d' % st, 'get 10 %d' % X,
            'state 12 1', 'get 10 %d' % X, 'state 12 %d' % st, 'source 1 1', 'get 10 %d' % X, 'source 1 2',
            'get 10 %d' % X, 'charge 12 -', 'get 10 %d' % X]
    return 'scen:unloadedcont', u.u.lines(1) + u2.u.lines(2), ops, meta_of(ops, u.attr_ids(), setup)


def drone_target(rng, k=0):
    """a projected effect whose target is a drone (of the same or of another fit), re-established by a
    reload: modules are loaded before drones, so the target is loaded after the projection was applied"""
    X, S = 1010, 1001
    u = U()
    for a in (X, S):
        u.attr(a)
    u.effect(2001, EC.target, [U.mod(F.item, D.target, X, OP.post_percent, S)])
    u.type(3100, 50, int(TC.ship), {X: 100})
    u.type(3200, 51, int(TC.module), {S: 50}, [2001], default=2001)
    u.type(3400, 53, int(TC.drone), {X: 100})
    ops = base_world(2) + ['new 10 ship 3100 1 0', 'new 11 ship 3100 1 0', 'new 12 modhigh 3200 3 0',
                           'new 13 modhigh 3200 3 0', 'new 20 drone 3400 1 0', 'new 21 drone 3400 1 0',
                           'slot 1 ship 10', 'slot 2 ship 11', 'rappend 1 high 12', 'rappend 2 high 13',
                           'sadd 1 drones 20', 'sadd 2 drones 21']
    setup = len(ops)
    ops += ['target 12 %d' % [20, 21, 21][k % 3], 'target 13 %d' % [21, 20, 21][k % 3], 'get 20 %d' % X,
            'get 21 %d' % X]
    ops += [['source 1 -', 'source 1 1'], ['ssrm 1 1', 'ssadd 1 1'], ['ssrm 1 2', 'ssadd 1 2'],
            ['srm 2 drones 21', 'sadd 2 drones 21']][k % 4]
    ops += ['get 20 %d' % X, 'get 21 %d' % X, 'target 12 -', 'get 20 %d' % X, 'get 21 %d' % X]
    return 'scen:dronetarget', u.lines(), ops, meta_of(ops, u.attr_ids(), setup)


def self_skillrq(rng, k=0):
    """a skill boosts what requires this very skill (filter owner/domain skill requirement with the
    'current self' pseudo type): the boosted value is read, then the skill's level changes, the skill is
    removed and added again"""
    X, S, B = 1010, 1001, 1000
    LVL = int(AttrId.skill_level)
    u = U()
    for a in (X, S, B, LVL):
        u.attr(a)
    owner = k % 2 == 0
    u.effect(2001, EC.passive, [U.mod(F.owner_skillrq if owner else F.domain_skillrq,
                                      D.character if owner else D.ship, X, OP.post_percent, S, extra=-1),
                                U.mod(F.item, D.self, S, OP.post_mul, LVL)])
    u.type(3100, 50, int(TC.ship), {X: 100})
    u.type(3500, 54, int(TC.skill), {S: 10}, [2001])
    u.type(3400, 53, int(TC.drone), {X: 100}, skills={3500: 1})
    u.type(3200, 51, int(TC.module), {X: 100}, skills={3500: 1})
    ops = base_world(1) + ['new 10 ship 3100 1 0', 'new 20 skill 3500 1 %d' % rng.choice([1, 2]),
                           'new 21 drone 3400 1 0', 'new 12 modhigh 3200 1 0', 'slot 1 ship 10',
                           'sadd 1 drones 21', 'rappend 1 high 12', 'sadd 1 skills 20']
    setup = len(ops)
    ops += ['get 21 %d' % X, 'get 12 %d' % X, 'level 20 %d' % rng.choice([3, 4, 5]), 'get 21 %d' % X,
            'get 12 %d' % X, 'srm 1 skills 20', 'get 21 %d' % X, 'get 12 %d' % X, 'sadd 1 skills 20',
            'get 21 %d' % X, 'get 12 %d' % X, 'level 20 0', 'get 21 %d' % X, 'get 12 %d' % X]
    return 'scen:selfskill', u.lines(), ops, meta_of(ops, u.attr_ids(), setup)


def nested_autocharge(rng, k=0):
    """a charge whose own type defines an autocharge: the module's state is the state of the charge and of
    the charge's autocharge; it is switched after fitting, the charge is taken out and put back"""
    X, S = 1010, 1001
    AMMO = int(AttrId.ammo_loaded)
    TA = int(EffectId.target_attack)
    u = U()
    for a in (X, S, AMMO):
        u.attr(a)
    cat = [EC.active, EC.online, EC.overload][k % 3]
    u.effect(TA, EC.target)
    u.effect(2001, cat, [U.mod(F.item, D.ship, X, OP.post_percent, S)])
    u.type(3100, 50, int(TC.ship), {X: 100})
    u.type(3200, 51, int(TC.module), {})
    u.type(3300, 52, int(TC.charge), {AMMO: 3301}, [TA])
    u.type(3301, 52, int(TC.charge), {S: 50}, [2001], default=2001 if k % 3 == 0 else None)
    st = {0: 3, 1: 2, 2: 4}[k % 3]
    ops = base_world(1) + ['new 10 ship 3100 1 0', 'new 12 modhigh 3200 1 0', 'new 30 charge 3300 1 0',
                           'slot 1 ship 10']
    ops += [['charge 12 30', 'rappend 1 high 12'], ['rappend 1 high 12', 'charge 12 30']][(k // 3) % 2]
    setup = len(ops)
    ops += ['get 10 %d' % X, 'state 12 %d' % st, 'get 10 %d' % X, 'state 12 1', 'get 10 %d' % X,
            'state 12 %d' % st, 'charge 12 -', 'get 10 %d' % X, 'charge 12 30', 'get 10 %d' % X,
            'source 1 -', 'source 1 1', 'get 10 %d' % X, 'rremove 1 high item 12', 'get 10 %d' % X]
    return 'scen:nestedauto', u.lines(), ops, meta_of(ops, u.attr_ids(), setup)


def resist_mix(rng, k=0):
    """one attribute of a ship receives a resisted projected modification and several unresisted local ones
    (an implant, rigs): the resistance applies to the projected one only, whatever order they are gathered in"""
    R, X, S, L1 = 1003, 1010, 1001, 1002
    u = U()
    for a in (R, X, S, L1):
        u.attr(a)
    u.effect(2001, EC.target, [U.mod(F.item, D.target, X, OP.post_percent, S)], resist=R)
    u.effect(2002, EC.passive, [U.mod(F.item, D.ship, X, OP.post_percent, L1)])
    u.effect(2003, EC.passive, [U.mod(F.item, D.ship, X, [OP.post_mul, OP.mod_add, OP.post_percent][k % 3], L1)])
    u.type(3100, 50, int(TC.ship), {R: Fraction(1, 2), X: 1000})
    u.type(3200, 51, int(TC.module), {S: rng.choice([-60, 40])}, [2001], default=2001)
    u.type(3600, 52, None, {L1: rng.choice([10, 20])}, [2002])
    u.type(3500, 53, int(TC.implant), {L1: rng.choice([2, 30])}, [2003])
    ops = base_world(2) + ['new 10 ship 3100 1 0', 'new 11 ship 3100 1 0', 'new 12 modhigh 3200 3 0',
                           'new 14 rig 3600 1 0', 'new 15 rig 3600 1 0', 'new 16 implant 3500 1 0',
                           'slot 1 ship 10', 'slot 2 ship 11', 'rappend 1 high 12']
    setup = len(ops)
    order = [['sadd 2 rigs 14', 'target 12 11', 'sadd 2 implants 16', 'sadd 2 rigs 15'],
             ['target 12 11', 'sadd 2 rigs 14', 'sadd 2 rigs 15', 'sadd 2 implants 16'],
             ['sadd 2 implants 16', 'sadd 2 rigs 15', 'sadd 2 rigs 14', 'target 12 11']][(k // 3) % 3]
    for o in order:
        ops += [o, 'get 11 %d' % X]
    ops += ['target 12 -', 'get 11 %d' % X, 'target 12 11', 'get 11 %d' % X]
    return 'scen:resistmix', u.lines(), ops, meta_of(ops, u.attr_ids(), setup)


def slot_zero(rng, k=0):
    """slot number 0 of implants / boosters: an item in slot 0 under one source is absent from (or elsewhere
    under) the next, where another item takes slot 0; validation after the switch equals validation of the
    fit built under the new source"""
    IDX = int([AttrId.implantness, AttrId.boosterness][k % 2])
    cls, setn = [('implant', 'implants'), ('booster', 'boosters')][k % 2]
    u = U()
    u.attr(IDX)
    u.attr(1010)
    u.type(3100, 50, int(TC.ship), {1010: 100})
    u.type(3500, 53, None, {IDX: 0})
    u.type(3501, 53, None, {IDX: 1})
    u2 = U()
    u2.u.attrs, u2.u.effects, u2.u.buffs = u.u.attrs, u.u.effects, u.u.buffs
    u2.u.types = {t: dict(v) for t, v in u.u.types.items() if t != 3500 or k % 3 == 2}
    u2.u.types[3501] = dict(u2.u.types[3501], attrs={IDX: Fraction(0)})
    if 3500 in u2.u.types:
        u2.u.types[3500] = dict(u2.u.types[3500], attrs={IDX: Fraction(2)})
    ops = ['solsys 1', 'fit 1 1', 'source 1 1', 'ssadd 1 1', 'new 10 ship 3100 1 0', 'new 20 %s 3500 1 0' % cls,
           'new 21 %s 3501 1 0' % cls, 'slot 1 ship 10', 'sadd 1 %s 20' % setn, 'sadd 1 %s 21' % setn]
    setup = len(ops)
    ops += ['get 10 1010', 'source 1 2', 'get 10 1010', 'source 1 1', 'get 10 1010', 'source 1 2', 'srm 1 %s 20' % setn,
            'get 10 1010']
    return 'scen:slotzero', u.u.lines(1) + u2.u.lines(2), ops, meta_of(ops, u.attr_ids(), setup)


def neg_index_hole(rng, k=0):
    """a rack with a hole right before its last module; the last module is taken out by a negative index, by
    value or by its positive index: the rack never keeps a trailing hole"""
    u = U()
    u.attr(1010)
    u.type(3100, 50, int(TC.ship), {1010: 100})
    u.type(3200, 51, int(TC.module), {1010: 5})
    rack = ['high', 'mid', 'low'][k % 3]
    cls = 'mod' + rack
    ops = base_world(1) + ['new 10 ship 3100 1 0', 'new 12 %s 3200 1 0' % cls, 'new 13 %s 3200 1 0' % cls,
                           'new 14 %s 3200 1 0' % cls, 'slot 1 ship 10']
    setup = len(ops)
    ops += ['rappend 1 %s 12' % rack, 'rplace 1 %s 2 13' % rack, 'get 10 1010']
    ops += [['rremove 1 %s idx -1' % rack], ['rfree 1 %s idx -1' % rack], ['rremove 1 %s idx 2' % rack],
            ['rremove 1 %s item 13' % rack]][(k // 3) % 4]
    ops += ['rappend 1 %s 14' % rack, 'get 10 1010', 'rinsert 1 %s 3 13' % rack, 'rremove 1 %s idx -1' % rack,
            'rremove 1 %s idx -1' % rack, 'get 10 1010']
    return 'scen:negidx', u.lines(), ops, meta_of(ops, u.attr_ids(), setup)


def stale_no_effects(rng, k=0):
    """an item that runs no effect at all still has values that depend on others: a capped attribute of an
    offline module whose cap is changed by an implant, a projected-upon attribute of an effect-less ship whose
    resistance attribute is changed by a rig"""
    A, M, K, R, S = 1010, 1002, 1000, 1003, 1001
    u = U()
    for a in (K, R, S):
        u.attr(a)
    u.attr(M, default=None)
    u.attr(A, default=None, mx=M)
    u.effect(int(EffectId.online), EC.online)
    u.effect(2001, EC.passive, [U.mod(F.domain, D.ship, M, OP.post_mul, K)])
    u.effect(2002, EC.target, [U.mod(F.item, D.target, A, OP.post_percent, S)], resist=R)
    u.effect(2003, EC.passive, [U.mod(F.item, D.ship, R, OP.post_mul, K)])
    u.type(3100, 50, int(TC.ship), {A: 100, M: 1000, R: Fraction(1, 2)})
    u.type(3200, 51, int(TC.module), {A: 8, M: 8}, [int(EffectId.online)])
    u.type(3201, 51, int(TC.module), {S: 50}, [2002], default=2002)
    u.type(3500, 53, int(TC.implant), {K: Fraction(1, 2)}, [2001])
    u.type(3600, 52, None, {K: Fraction(1, 2)}, [2003])
    ops = base_world(2) + ['new 10 ship 3100 1 0', 'new 11 ship 3100 1 0', 'new 12 modhigh 3200 1 0',
                           'new 13 modhigh 3201 3 0', 'new 20 implant 3500 1 0', 'new 21 rig 3600 1 0',
                           'slot 1 ship 10', 'slot 2 ship 11', 'rappend 1 high 12', 'rappend 2 high 13']
    setup = len(ops)
    if k % 2 == 0:
        ops += ['get 12 %d' % A, 'sadd 1 implants 20', 'get 12 %d' % A, 'srm 1 implants 20', 'get 12 %d' % A]
    else:
        ops += ['target 13 10', 'get 10 %d' % A, 'sadd 1 rigs 21', 'get 10 %d' % A, 'srm 1 rigs 21', 'get 10 %d' % A]
    return 'scen:noeffects', u.lines(), ops, meta_of(ops, u.attr_ids(), setup)


def late_listing(rng, k=0):
    """a fit that already carries its ship and a running command burst enters a solar system (or moves to
    another one): its own ship is boosted like everybody else's"""
    BID, BVAL = int(AttrId.warfare_buff_1_id), int(AttrId.warfare_buff_1_value)
    T1 = 1010
    u = U()
    for a in (T1, BID, BVAL):
        u.attr(a)
    burst = int(BUFF_EFFECTS[0])
    u.effect(burst, EC.active)
    u.buff(10, F.item, T1, OP.post_percent, AG.maximum)
    u.type(3100, 50, int(TC.ship), {T1: 1000})
    u.type(3200, 51, int(TC.module), {BID: 10, BVAL: 20}, [burst], default=burst)
    ops = ['solsys 1', 'solsys 2', 'fit 1 1', 'fit 2 2', 'source 1 1', 'source 2 1', 'new 10 ship 3100 1 0',
           'new 11 ship 3100 1 0', 'new 12 modhigh 3200 3 0', 'slot 1 ship 10', 'slot 2 ship 11', 'rappend 1 high 12']
    setup = len(ops)
    ops += ['ssadd 1 1', 'get 10 %d' % T1]
    if k % 2:
        ops += ['ssadd 1 2', 'fladd 1 1', 'fladd 1 2', 'get 11 %d' % T1]
    ops += ['ssrm 1 1', 'get 10 %d' % T1, 'ssadd 2 1', 'get 10 %d' % T1, 'state 12 2', 'get 10 %d' % T1]
    return 'scen:latelisting', u.lines(), ops, meta_of(ops, u.attr_ids(), setup)



def aar_carrier(rng, k=0):
    """the ancillary-armor-repair effect carried by an item that cannot hold a charge (drone, rig, implant,
    subsystem): the paste modifier is consulted on every addition / removal on the carrier's fit, also when
    a paste item comes and goes elsewhere on that fit"""
    A = AttrId
    PASTE = int(TypeId.nanite_repair_paste)
    u = U()
    u.u.custom = True
    for a in (A.armor_dmg_amount, A.charged_armor_dmg_mult):
        u.attr(int(a))
    eff = int(EffectId.fueled_armor_repair)
    u.effect(eff, EC.active)
    u.effect(2001, EC.passive)
    cls, cat, cont = [('drone', TC.drone, 'drones'), ('rig', TC.module, 'rigs'), ('implant', TC.implant, 'implants'),
                      ('subsystem', TC.subsystem, 'subsystems')][k % 4]
    u.type(3100, 50, int(TC.ship), {})
    u.type(3260, 51, int(cat), {int(A.armor_dmg_amount): 50, int(A.charged_armor_dmg_mult): 3}, [eff], default=eff)
    u.type(3261, 51, int(TC.module), {}, [2001])
    u.type(PASTE, 52, int(TC.charge), {})
    ops = base_world(1) + ['new 10 ship 3100 1 0', 'new 12 %s 3260 1 0' % cls, 'new 13 modlow 3261 1 0',
                           'new 30 charge %d 1 0' % PASTE, 'new 31 drone %d 1 0' % PASTE, 'slot 1 ship 10']
    setup = len(ops)
    R = int(A.armor_dmg_amount)
    ops += ['sadd 1 %s 12' % cont, 'get 12 %d' % R, 'rappend 1 low 13', 'charge 13 30', 'get 12 %d' % R,
            'sadd 1 drones 31', 'get 12 %d' % R, 'srm 1 drones 31', 'charge 13 -', 'get 12 %d' % R,
            'charge 13 30', 'rremove 1 low item 13', 'get 12 %d' % R]
    return 'scen:aar_carrier', u.lines(), ops, meta_of(ops, u.attr_ids(), setup)


def unloaded_recall(rng, k=0):
    """a launched drone becomes unloaded (the source is taken away, or the fit leaves the solar system), is
    recalled while unloaded, and gets loaded again: the launched-drone count and the launched-drone validation
    follow the state whatever the load status"""
    X = 1010
    u = U()
    u.attr(X)
    u.type(3100, 50, int(TC.ship), {X: 100})
    u.type(3400, 53, int(TC.drone), {X: 100})
    ops = base_world(1) + ['new 10 ship 3100 1 0', 'new 20 drone 3400 %d 0' % [3, 2, 3, 4][k % 4],
                           'new 21 drone 3400 1 0', 'slot 1 ship 10', 'sadd 1 drones 20', 'sadd 1 drones 21']
    setup = len(ops)
    away, back = [('source 1 -', 'source 1 1'), ('ssrm 1 1', 'ssadd 1 1')][(k // 4) % 2]
    ops += ['get 20 %d' % X, away, 'state 20 1', 'state 21 %d' % [2, 3][k % 2], back, 'get 20 %d' % X,
            away, 'state 21 1', back, 'get 21 %d' % X]
    return 'scen:unloaded_recall', u.lines(), ops, meta_of(ops, u.attr_ids(), setup)

COMMANDS = {'solsys', 'fit', 'new', 'source', 'ssadd', 'ssrm', 'ssclear', 'slot', 'sadd', 'srm', 'sclear', 'skilldel',
            'rappend', 'rinsert', 'rplace', 'requip', 'rremove', 'rfree', 'rclear', 'charge', 'state', 'target',
            'mode', 'level', 'fladd', 'flrm', 'flclear', 'get', 'read', 'keys', 'm_mod', 'm_pymod', 'm_effect',
            'm_teffect', 'switch', 'randomize', 'ability'}

SCENARIOS = [cap_moves, resist_moves, chain_over_projection, burst_charge, buff_tie, retarget_reload, slot_index,
             propulsion, ancillary, propulsion_batch, rejected_assignment, autocharge_state, burst_nobase,
             refused_join, unloaded_container, drone_target, self_skillrq,
             nested_autocharge, resist_mix, slot_zero, neg_index_hole, stale_no_effects, late_listing, aar_carrier, unloaded_recall]


def scenarios(rng, tier):
    n = 3 if tier == 'quick' else 60
    out = []
    for fn in SCENARIOS:
        for k in range(max(n, {burst_charge: 6, propulsion_batch: 4, burst_nobase: 4, drone_target: 4, resist_mix: 5, neg_index_hole: 4, aar_carrier: 4, unloaded_recall: 8}.get(fn, n))):
            name, ul, ops, meta = fn(rng, k)
            bad = [l for l in ops if l.split()[0] not in COMMANDS]
            assert not bad, 'scenario %s uses unknown commands %r' % (name, bad)
            out.append(('%s%d' % (name, k), ul, ops, meta))
    return out
