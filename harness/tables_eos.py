"""Translator: eos/const/eos.py, eos/const/eve.py (every IntEnum member),
eos/calculator/map.py (penalty tables, normalisation map, operator classes,
limited-precision ids, stacking cut-off), eos/calculator/service.py
(WARFARE_BUFF_ATTRS), eos/eve_obj/effect/effect.py (category -> state map),
item classes (modifier domain, owner-modifiable, carrier shape, mixins)
-> coq/gen/T_eos.v.  Fail-closed."""
import ast

from pyast import Shape, parse, find_class, find_func, dotted, expect, const_num


def zlit(n):
    return '(%d)%%Z' % n


def enums(tree, out, known):
    for n in tree.body:
        if isinstance(n, ast.ClassDef) and any(
                isinstance(b, ast.Name) and b.id == 'IntEnum' for b in n.bases):
            members = {}
            for st in n.body:
                if isinstance(st, ast.Expr) and isinstance(st.value, ast.Constant):
                    continue
                expect(isinstance(st, ast.Assign) and len(st.targets) == 1 and
                       isinstance(st.targets[0], ast.Name),
                       'enum %s: unexpected statement' % n.name)
                members[st.targets[0].id] = int(const_num(st.value))
            known[n.name] = members
            for k, v in members.items():
                out.append('Definition %s_%s : Z := %s.' % (n.name, k, zlit(v)))
            out.append('Definition %s_members : list Z := [%s].' % (
                n.name, '; '.join(zlit(v) for v in members.values())))


def resolve(e, known):
    d = dotted(e)
    cls, _, mem = d.partition('.')
    expect(cls in known and mem in known[cls], 'unknown enum member %s' % d)
    return known[cls][mem]


def tuple_of_members(e, known):
    expect(isinstance(e, (ast.Tuple, ast.List)), 'expected tuple literal')
    return [resolve(x, known) for x in e.elts]


def assign_value(tree, name):
    for n in tree.body:
        if isinstance(n, ast.Assign) and len(n.targets) == 1 and \
                isinstance(n.targets[0], ast.Name) and n.targets[0].id == name:
            return n.value
    raise Shape('module-level %s not found' % name)


def norm_expr(lam):
    """lambda value: <expr> -> constructor of the model's nexpr type"""
    expect(isinstance(lam, ast.Lambda) and len(lam.args.args) == 1 and
           lam.args.args[0].arg == 'value', 'normalisation lambda shape')
    b = lam.body
    d = ast.dump(b)
    v = "Name(id='value', ctx=Load())"
    one = 'Constant(value=1)'
    table = {
        v: 'NId',
        "BinOp(left=%s, op=Sub(), right=%s)" % (v, one): 'NMinus1',
        "BinOp(left=BinOp(left=%s, op=Div(), right=%s), op=Sub(), right=%s)" % (one, v, one): 'NInvMinus1',
        "UnaryOp(op=USub(), operand=%s)" % v: 'NNeg',
        "BinOp(left=%s, op=Div(), right=Constant(value=100))" % v: 'NPercent',
    }
    expect(d in table, 'unsupported normalisation expression %s' % ast.unparse(b))
    return table[d]


ITEM_FILES = {
    'Ship': 'ship.py', 'Character': 'character.py', 'Stance': 'stance.py',
    'EffectBeacon': 'effect_beacon.py', 'Skill': 'skill.py', 'Implant': 'implant.py',
    'Booster': 'booster.py', 'Subsystem': 'subsystem.py', 'Module': 'module.py',
    'Rig': 'rig.py', 'Drone': 'drone.py', 'FighterSquad': 'fighter_squad.py',
    'BaseCharge': 'charge.py',
}


def item_class_row(repo, clsname, fname, known):
    tree = parse(repo, 'eos/item/' + fname)
    cls = find_class(tree, clsname)
    bases = [dotted(b) for b in cls.bases]
    dom = own = car = None
    for st in cls.body:
        if isinstance(st, ast.Assign) and isinstance(st.targets[0], ast.Name):
            nm = st.targets[0].id
            if nm == '_modifier_domain':
                if isinstance(st.value, ast.Constant) and st.value.value is None:
                    dom = 'None'
                else:
                    dom = 'Some %s' % zlit(resolve(st.value, known))
            elif nm == '_owner_modifiable':
                expect(isinstance(st.value, ast.Constant) and
                       isinstance(st.value.value, bool), 'owner_modifiable shape')
                own = 'true' if st.value.value else 'false'
            elif nm == '_solsys_carrier':
                expect(isinstance(st.value, ast.Constant) and st.value.value is None,
                       'carrier constant shape')
                car = 'CarNone'
        if isinstance(st, ast.FunctionDef) and st.name == '_solsys_carrier':
            body = [s for s in st.body if not (isinstance(s, ast.Expr) and
                                               isinstance(s.value, ast.Constant))]
            src = ast.unparse(ast.Module(body=body, type_ignores=[]))
            if src == 'return self':
                car = 'CarSelf'
            elif src == 'return self._fit.ship':
                car = 'CarFitShip'
            elif src == ('container = self._container\n'
                         'if isinstance(container, BaseItemMixin):\n'
                         '    return container._solsys_carrier\n'
                         'else:\n    return None'):
                car = 'CarContainer'
            else:
                raise Shape('%s._solsys_carrier: unexpected body %r' % (clsname, src))
    expect(dom and own and car, '%s: missing calculator property' % clsname)
    if 'MutableStateMixin' in bases:
        st = 'StMutable'
    elif 'ImmutableStateMixin' in bases:
        st = 'StImmutable'
    elif 'ContainerStateMixin' in bases:
        st = 'StContainer'
    else:
        raise Shape('%s: no state mixin among %s' % (clsname, bases))
    tgt = 'true' if 'SingleTargetableMixin' in bases else 'false'
    sol = 'true' if 'SolarSystemItemMixin' in bases else 'false'
    return 'Definition ItemClass_%s : class_row := mkClassRow (%s) %s %s %s %s %s.' % (
        clsname, dom, own, car, st, tgt, sol)


def generate(repo):
    out = ['(* GENERATED by harness/tables_eos.py -- do not edit *)',
           'From Coq Require Import ZArith List.', 'Import ListNotations.',
           'Inductive carrier_kind := CarNone | CarSelf | CarFitShip | CarContainer.',
           'Inductive state_kind := StMutable | StImmutable | StContainer.',
           'Inductive nexpr := NId | NMinus1 | NInvMinus1 | NNeg | NPercent.',
           'Record class_row := mkClassRow { cr_domain : option Z; cr_owner_modifiable : bool;',
           '  cr_carrier : carrier_kind; cr_state : state_kind; cr_targetable : bool; cr_solsys : bool }.']
    known = {}
    enums(parse(repo, 'eos/const/eos.py'), out, known)
    enums(parse(repo, 'eos/const/eve.py'), out, known)
    # calculator/map.py
    m = parse(repo, 'eos/calculator/map.py')
    for name in ('PENALTY_IMMUNE_CATEGORY_IDS', 'PENALIZABLE_OPERATORS',
                 'ASSIGNMENT_OPERATORS', 'ADDITION_OPERATORS',
                 'MULTIPLICATION_OPERATORS', 'LIMITED_PRECISION_ATTR_IDS'):
        vals = tuple_of_members(assign_value(m, name), known)
        out.append('Definition %s : list Z := [%s].' % (name, '; '.join(map(zlit, vals))))
    nm = assign_value(m, 'NORMALIZATION_MAP')
    expect(isinstance(nm, ast.Dict), 'NORMALIZATION_MAP shape')
    rows = ['(%s, %s)' % (zlit(resolve(k, known)), norm_expr(v))
            for k, v in zip(nm.keys, nm.values)]
    out.append('Definition NORMALIZATION_MAP : list (Z * nexpr) := [%s].' % '; '.join(rows))
    pb = ast.unparse(assign_value(m, 'PENALTY_BASE'))
    expect(pb == '1 / math.exp((1 / 2.67) ** 2)', 'PENALTY_BASE expression changed: ' + pb)
    # the stacking cut-off and exponent shape in __penalize_values
    cls = find_class(m, 'MutableAttrMap')
    pen = find_func(cls, '_MutableAttrMap__penalize_values') if False else None
    for st in cls.body:
        if isinstance(st, ast.FunctionDef) and st.name == '__penalize_values':
            pen = st
    expect(pen is not None, '__penalize_values not found')
    src = ast.unparse(pen)
    expect('if pos > 10:\n                break' in src, 'stacking cut-off shape')
    expect('chain_value *= 1 + mod_value * PENALTY_BASE ** pos ** 2' in src, 'penalty factor shape')
    expect('chain_positive.sort(reverse=True)' in src and 'chain_negative.sort()' in src,
           'chain sort shape')
    expect('if mod_value >= 0:' in src, 'chain split shape')
    out.append('Definition PENALTY_CUTOFF : nat := 10.')
    # service.py
    s = parse(repo, 'eos/calculator/service.py')
    wb = assign_value(s, 'WARFARE_BUFF_ATTRS')
    expect(isinstance(wb, ast.Dict), 'WARFARE_BUFF_ATTRS shape')
    out.append('Definition WARFARE_BUFF_ATTRS : list (Z * Z) := [%s].' % '; '.join(
        '(%s, %s)' % (zlit(resolve(k, known)), zlit(resolve(v, known)))
        for k, v in zip(wb.keys, wb.values)))
    # effect.py state map
    e = parse(repo, 'eos/eve_obj/effect/effect.py')
    ecls = find_class(e, 'Effect')
    sm = None
    for st in ecls.body:
        if isinstance(st, ast.Assign) and isinstance(st.targets[0], ast.Name) and \
                st.targets[0].id == '__effect_state_map':
            sm = st.value
    expect(isinstance(sm, ast.Dict), '__effect_state_map shape')
    out.append('Definition EFFECT_STATE_MAP : list (Z * Z) := [%s].' % '; '.join(
        '(%s, %s)' % (zlit(resolve(k, known)), zlit(resolve(v, known)))
        for k, v in zip(sm.keys, sm.values)))
    src = ast.unparse(find_func(ecls, 'is_projectable'))
    expect('return self.category_id == EffectCategoryId.target' in src, 'is_projectable shape')
    # fighter ability -> effect map (const/eve.py)
    ev = parse(repo, 'eos/const/eve.py')
    fam = assign_value(ev, 'fighter_ability_map')
    expect(isinstance(fam, ast.Dict), 'fighter_ability_map shape')
    out.append('Definition FIGHTER_ABILITY_MAP : list (Z * Z) := [%s].' % '; '.join(
        '(%s, %s)' % (zlit(resolve(k, known)), zlit(resolve(v, known)))
        for k, v in zip(fam.keys, fam.values)))
    # Booster / FighterSquad switch rules
    b = parse(repo, 'eos/item/booster.py')
    src = ast.unparse(find_func(find_class(b, 'Booster'), 'set_side_effect_status'))
    expect('if status:\n        effect_mode = EffectMode.state_compliance\n    else:\n        effect_mode = EffectMode.full_compliance' in src,
           'set_side_effect_status shape')
    expect(ast.unparse(assign_value(b, 'SIDE_EFFECT_STATE')) == 'State.offline', 'SIDE_EFFECT_STATE')
    fsq = parse(repo, 'eos/item/fighter_squad.py')
    expect(ast.unparse(assign_value(fsq, 'ABILITY_EFFECT_STATE')) == 'State.active', 'ABILITY_EFFECT_STATE')
    src = ast.unparse(find_func(find_class(fsq, 'FighterSquad'), 'set_ability_status'))
    expect('if effect_id == default_effect_id:\n        if status:\n            effect_mode = EffectMode.full_compliance\n'
           '        else:\n            effect_mode = EffectMode.force_stop\n    elif status:\n'
           '        effect_mode = EffectMode.state_compliance\n    else:\n        effect_mode = EffectMode.full_compliance' in src,
           'set_ability_status shape')
    for clsname, fname in ITEM_FILES.items():
        out.append(item_class_row(repo, clsname, fname, known))
    return '\n'.join(out) + '\n'
