"""Shared machinery of the eos verification checks.

Every check (./check Cxx) goes through `run_property`:
  1. regenerate coq/gen/T_*.v from the repository sources (fail-closed translator)
  2. build the Coq development (full .vo build) for the property's cone
  3. recompile props/Cxx.v and collect its `Print Assumptions` output
  4. scan the Coq sources for forbidden vernacular
  5. build the extracted model driver
  6. run the correspondence (corpus first, then generated cases)
  7. replay known findings, write evidence, print VIOLATION / KNOWN-FINDING lines
"""
import fcntl
import glob
import hashlib
import json
import os
import re
import shutil
import subprocess
import sys
import time

VERIF = os.path.dirname(os.path.dirname(os.path.abspath(__file__)))
REPO = os.environ.get('VERIF_REPO', '/repo')
COQ = os.path.join(VERIF, 'coq')
BIN = os.path.join(VERIF, 'bin')
WORK = os.path.join(VERIF, '.work')
PY = '/venv/bin/python'
NPROC = str(os.cpu_count() or 4)

FORBIDDEN = re.compile(
    r'\b(Admitted|admit|Axiom|Axioms|Parameter|Parameters|Conjecture|'
    r'Admit Obligations|bypass_check|native_compute)\b|Unset\s+Guard|'
    r'Unset\s+Positivity|Unset\s+Universe|type-in-type|impredicative-set')


class TieBroken(Exception):
    """The model/proof side no longer checks (translator, build or proof)."""

    def __init__(self, what, detail=''):
        super().__init__(what)
        self.what = what
        self.detail = detail


def sh(cmd, cwd=None, timeout=1800, env=None, input=None):
    e = dict(os.environ)
    if env:
        e.update(env)
    p = subprocess.run(cmd, cwd=cwd, shell=isinstance(cmd, str), env=e,
                       input=input, stdout=subprocess.PIPE,
                       stderr=subprocess.STDOUT, timeout=timeout, text=True)
    out = '\n'.join(l for l in p.stdout.splitlines()
                    if 'conda' not in l.lower() or 'WARNING' not in l)
    return p.returncode, out


class Lock:
    def __init__(self):
        os.makedirs(COQ, exist_ok=True)
        self.path = os.path.join(COQ, '.lock')

    def __enter__(self):
        self.f = open(self.path, 'w')
        fcntl.flock(self.f, fcntl.LOCK_EX)
        return self

    def __exit__(self, *a):
        fcntl.flock(self.f, fcntl.LOCK_UN)
        self.f.close()


# ---------------------------------------------------------------------------
# 1. translator
# ---------------------------------------------------------------------------

def gen_tables(names):
    """Regenerate coq/gen/T_<name>.v for each name. Returns list of
    (name, changed). Raises TieBroken on an unexpected source shape."""
    sys.path.insert(0, os.path.join(VERIF, 'harness'))
    import importlib
    res = []
    os.makedirs(os.path.join(COQ, 'gen'), exist_ok=True)
    for n in names:
        mod = importlib.import_module('tables_' + n)
        try:
            text = mod.generate(REPO)
        except Exception as e:  # fail closed
            raise TieBroken('translator tables_%s' % n,
                            '%s: %s' % (type(e).__name__, e))
        path = os.path.join(COQ, 'gen', 'T_%s.v' % n)
        old = open(path).read() if os.path.exists(path) else None
        if old != text:
            with open(path, 'w') as f:
                f.write(text)
        res.append((n, old != text))
    return res


ALL_TABLES = None


def all_table_names():
    return sorted(os.path.basename(p)[len('tables_'):-3]
                  for p in glob.glob(os.path.join(VERIF, 'harness',
                                                  'tables_*.py')))


# ---------------------------------------------------------------------------
# 2. Coq build
# ---------------------------------------------------------------------------

def coq_files():
    fs = []
    for d in ('gen', 'lib', 'model', 'proofs', 'props', 'extract'):
        fs += sorted(glob.glob(os.path.join(COQ, d, '*.v')))
    return [os.path.relpath(f, COQ) for f in fs]


def ensure_makefile():
    files = coq_files()
    proj = '-Q . EosV\n-arg -w -arg -notation-overridden,-deprecated-hint-without-locality,-deprecated-instance-without-locality,-ambiguous-paths\n' + '\n'.join(files) + '\n'
    pp = os.path.join(COQ, '_CoqProject')
    old = open(pp).read() if os.path.exists(pp) else None
    if old != proj or not os.path.exists(os.path.join(COQ, 'Makefile')):
        with open(pp, 'w') as f:
            f.write(proj)
        rc, out = sh('coq_makefile -f _CoqProject -o Makefile', cwd=COQ)
        if rc != 0:
            raise TieBroken('coq_makefile', out)


def coq_make(targets, timeout=3000):
    """Full .vo build of the given targets (relative .vo paths)."""
    os.makedirs(os.path.join(COQ, 'extract', 'out'), exist_ok=True)
    ensure_makefile()
    cmd = ['timeout', str(timeout), 'make', '-j' + NPROC] + list(targets)
    rc, out = sh(cmd, cwd=COQ, timeout=timeout + 60)
    return rc, out


def first_error(out):
    lines = out.splitlines()
    for i, l in enumerate(lines):
        if l.startswith('File ') and i + 1 < len(lines) and \
                'Error' in '\n'.join(lines[i:i + 4]):
            return '\n'.join(lines[i:i + 12])
    return '\n'.join(lines[-15:])


def compile_props(prop_file):
    """(Re)compile props/Cxx.v alone, return (ok, output, assumptions)."""
    vo = os.path.join(COQ, prop_file[:-2] + '.vo')
    if os.path.exists(vo):
        os.remove(vo)
    rc, out = coq_make([prop_file[:-2] + '.vo'])
    assum = parse_assumptions(os.path.join(COQ, prop_file), out)
    return rc == 0, out, assum


def parse_assumptions(src, out):
    names = re.findall(r'Print Assumptions\s+([\w.\']+)\s*\.', open(src).read())
    blocks = []
    cur = None
    for l in out.splitlines():
        if l.startswith('Closed under the global context'):
            blocks.append([])
            cur = None
        elif l.startswith('Axioms:'):
            cur = []
            blocks.append(cur)
        elif cur is not None:
            m = re.match(r'^([A-Za-z_][\w.\']*)\s*(:|$)', l)
            if m:
                cur.append(m.group(1))
            elif not l.startswith(' ') and l.strip():
                cur = None
    res = {}
    for i, n in enumerate(names):
        res[n] = blocks[i] if i < len(blocks) else ['<no output captured>']
    return res


def scan_forbidden():
    bad = []
    for f in coq_files():
        if f.startswith('gen/'):
            pass
        txt = open(os.path.join(COQ, f)).read()
        txt = re.sub(r'\(\*.*?\*\)', '', txt, flags=re.S)
        for m in FORBIDDEN.finditer(txt):
            bad.append('%s: %s' % (f, m.group(0)))
    return bad


def count_obligations(files):
    """Number of statements and number closed by Qed/Defined in the files."""
    stmts = 0
    qeds = 0
    for f in files:
        p = os.path.join(COQ, f)
        if not os.path.exists(p):
            continue
        txt = re.sub(r'\(\*.*?\*\)', '', open(p).read(), flags=re.S)
        stmts += len(re.findall(
            r'^\s*(?:Local\s+|Global\s+|#\[[^\]]*\]\s*)?(?:Theorem|Lemma|Corollary|Example|Fact|Proposition|Remark)\s', txt,
            flags=re.M))
        qeds += len(re.findall(r'\bQed\s*\.', txt))
    return stmts, qeds


def vo_cone(prop_file):
    """Project files the property file depends on (via coqdep)."""
    rc, out = sh(['coqdep', '-Q', '.', 'EosV', '-sort'] + coq_files(), cwd=COQ)
    order = out.split()
    deps = {}
    rc, out = sh(['coqdep', '-Q', '.', 'EosV'] + coq_files(), cwd=COQ)
    for l in out.splitlines():
        if ':' not in l:
            continue
        lhs, rhs = l.split(':', 1)
        tgt = [x for x in lhs.split() if x.endswith('.vo')]
        if not tgt:
            continue
        t = os.path.normpath(tgt[0])[:-1]  # .v
        deps[t] = [os.path.normpath(x)[:-1] for x in rhs.split()
                   if x.endswith('.vo') and not x.startswith('/')]
    seen = set()
    todo = [os.path.normpath(prop_file)]
    while todo:
        x = todo.pop()
        if x in seen:
            continue
        seen.add(x)
        todo += deps.get(x, [])
    return sorted(seen)


# ---------------------------------------------------------------------------
# 5. extracted model drivers
# ---------------------------------------------------------------------------

def build_driver(name):
    """Build bin/<name> from coq/extract/out/<name>.ml(i) + ocaml/<name>_driver.ml.
    The extraction file coq/extract/X_<name>.v must already be compiled."""
    os.makedirs(BIN, exist_ok=True)
    out_dir = os.path.join(COQ, 'extract', 'out')
    ml = os.path.join(out_dir, name + '.ml')
    mli = os.path.join(out_dir, name + '.mli')
    drv = os.path.join(VERIF, 'ocaml', name + '_driver.ml')
    exe = os.path.join(BIN, name)
    if not os.path.exists(ml):
        raise TieBroken('extraction %s' % name, 'missing ' + ml)
    drv_txt = open(drv).read()
    m = re.match(r'\(\* prelude:([^*]*)\*\)', drv_txt)
    pre = m.group(1).split() if m else []
    main_txt = 'open %s\n' % (name[0].upper() + name[1:])
    for p in pre:
        main_txt += open(os.path.join(VERIF, 'ocaml', 'prelude_%s.ml' % p)).read()
    main_txt += drv_txt
    h = hashlib.sha256()
    for s_ in (mli, ml):
        h.update(open(s_, 'rb').read())
    h.update(main_txt.encode())
    stamp = exe + '.stamp'
    if os.path.exists(exe) and os.path.exists(stamp) and \
            open(stamp).read() == h.hexdigest():
        return exe
    bdir = os.path.join(WORK, 'ocaml_' + name)
    shutil.rmtree(bdir, ignore_errors=True)
    os.makedirs(bdir)
    for s_ in (mli, ml):
        shutil.copy(s_, bdir)
    with open(os.path.join(bdir, name + '_main.ml'), 'w') as f:
        f.write(main_txt)
    rc, out = sh(['ocamlfind', 'ocamlopt', '-O3', '-w', '-a', '-package', 'str',
                  '-linkpkg', name + '.mli', name + '.ml',
                  name + '_main.ml', '-o', exe], cwd=bdir)
    shutil.rmtree(bdir, ignore_errors=True)
    if rc != 0:
        raise TieBroken('ocaml build %s' % name, out[-3000:])
    with open(stamp, 'w') as f:
        f.write(h.hexdigest())
    return exe


def _die_with_parent():
    """a driver must not outlive the check that started it (PR_SET_PDEATHSIG = 1, SIGKILL)"""
    try:
        import ctypes
        ctypes.CDLL('libc.so.6').prctl(1, 9)
    except Exception:
        pass


def run_driver(exe, lines, timeout=3000, shards=None):
    """Feed lines to the driver; one output line per input line. Sharded over
    processes when large."""
    if not lines:
        return []
    n = len(lines)
    shards = shards or (1 if n < 400 else min(int(NPROC), 16))
    size = (n + shards - 1) // shards
    procs = []
    for i in range(0, n, size):
        chunk = lines[i:i + size]
        p = subprocess.Popen([exe], stdin=subprocess.PIPE,
                             stdout=subprocess.PIPE, stderr=subprocess.PIPE,
                             text=True, preexec_fn=_die_with_parent)
        procs.append((p, chunk))
    # write/read using communicate in threads to avoid deadlocks
    import threading
    outs = [None] * len(procs)

    def work(k):
        p, chunk = procs[k]
        try:
            o, e = p.communicate('\n'.join(chunk) + '\n', timeout=timeout)
        except subprocess.TimeoutExpired:
            p.kill()
            o, e = '', 'timeout'
        outs[k] = (o, e, p.returncode)
    ths = [threading.Thread(target=work, args=(k,)) for k in range(len(procs))]
    for t in ths:
        t.start()
    for t in ths:
        t.join()
    res = []
    for k, (o, e, rc) in enumerate(outs):
        ol = o.splitlines()
        want = len(procs[k][1])
        if rc != 0 or len(ol) != want:
            raise TieBroken('model driver %s' % os.path.basename(exe),
                            'rc=%s got %d lines want %d stderr=%s' %
                            (rc, len(ol), want, (e or '')[-500:]))
        res += ol
    return res


def run_impl_script(script, payload, timeout=3000, env=None, hashseed='0'):
    """Run harness/<script> under the repo's interpreter with PYTHONPATH=REPO,
    JSON in on stdin, JSON out on stdout."""
    e = {'PYTHONPATH': REPO + os.pathsep + os.path.join(VERIF, 'harness'),
         'PYTHONHASHSEED': hashseed, 'PYTHONDONTWRITEBYTECODE': '1'}
    if env:
        e.update(env)
    ee = dict(os.environ)
    ee.update(e)
    p = subprocess.run([PY, os.path.join(VERIF, 'harness', script)],
                       input=json.dumps(payload), stdout=subprocess.PIPE,
                       stderr=subprocess.PIPE, text=True, env=ee,
                       timeout=timeout)
    if p.returncode != 0:
        raise RuntimeError('impl runner %s failed: %s' %
                           (script, p.stderr[-3000:]))
    return json.loads(p.stdout)


# ---------------------------------------------------------------------------
# known findings, evidence, reporting
# ---------------------------------------------------------------------------

def load_corpus(pid):
    out = []
    for f in sorted(glob.glob(os.path.join(VERIF, 'corpus', pid, '*.json'))):
        c = json.load(open(f))['case']
        out.append(c)
    return out


def known_findings(pid):
    p = os.path.join(VERIF, 'known_findings.json')
    if not os.path.exists(p):
        return []
    return [f for f in json.load(open(p))['findings']
            if pid in f['properties']]


class Report:
    def __init__(self, pid, tier, seed):
        self.pid = pid
        self.tier = tier
        self.seed = seed
        self.t0 = time.time()
        self.violations = []      # (replay_path, suffix)
        self.known = []
        self.cov = {
            'evaluations': 0, 'distinct_nontrivial': 0, 'rule': '',
            'samples': [], 'obligations': 0, 'discharged': 0,
            'checker_cmd': '', 'trusted_base': [],
            'traces_validated_against_impl': 0, 'exhaustive': False,
        }
        self.assumptions = []
        os.makedirs(os.path.join(VERIF, 'evidence'), exist_ok=True)
        self.replay_dir = os.path.join(VERIF, 'evidence', 'replay')
        os.makedirs(self.replay_dir, exist_ok=True)
        self._n = 0

    def violation(self, replay_obj, found_input=True, tag=''):
        self._n += 1
        path = os.path.join(self.replay_dir, '%s_%d%s.json' %
                            (self.pid, self._n, ('_' + tag) if tag else ''))
        replay_obj = dict(replay_obj)
        replay_obj.setdefault('property', self.pid)
        with open(path, 'w') as f:
            json.dump(replay_obj, f, indent=1, default=str)
        self.violations.append((path, found_input))
        line = 'VIOLATION property=%s replay=%s' % (self.pid, path)
        if not found_input:
            line += ' no-failing-input-found'
        print(line, flush=True)

    def known_finding(self, what):
        self.known.append(what)
        print('KNOWN-FINDING: property=%s %s' % (self.pid, what), flush=True)

    def finish(self):
        ev = {
            'property_id': self.pid, 'tier': self.tier, 'seed': self.seed,
            'level': 'proof', 'coverage': self.cov,
            'assumptions': self.assumptions,
            'wall_s': round(time.time() - self.t0, 2),
            'violations': len(self.violations),
        }
        ev['coverage']['known_findings_replayed'] = self.known
        with open(os.path.join(VERIF, 'evidence', self.pid + '.json'), 'w') as f:
            json.dump(ev, f, indent=1, default=str)
        return 1 if self.violations else 0


STD_ASSUMPTIONS = [
    'Coq 8.16.1 kernel (Debian build); vm_compute used for closed computations; native_compute not used',
    'extraction with ExtrOcamlBasic only (bool, option, unit, list, prod, sumbool to OCaml natives; andb/orb/negb/fst/snd inlined); Z, positive, Q, nat stay inductive; OCaml 4.13.1',
    'the Python-ast translator harness/tables_*.py (fail-closed) and the correspondence harness (generators, canonicalisation, comparison)',
    'CPython 3.12 semantics of list/dict/set/exceptions, IEEE-754 binary64 and libm are modelled, not verified',
]


def prove(rep, prop_file, tables, extra_targets=()):
    """Steps 1-4. Returns True when the proof side checks; otherwise records
    what broke in rep.broken (list of strings) and returns False."""
    rep.broken = []
    with Lock():
        try:
            gen_tables(tables)
        except TieBroken as e:
            rep.broken.append('%s: %s' % (e.what, e.detail))
            return False
        cone_targets = [prop_file[:-2] + '.vo'] + list(extra_targets)
        # first build everything except the props file output capture
        ok, out, assum = compile_props(prop_file)
        if ok and extra_targets:
            rc, out2 = coq_make(list(extra_targets))
            if rc != 0:
                ok = False
                out = out2
        cone = vo_cone(prop_file) if ok else []
    rep.cov['checker_cmd'] = ('cd /verif/coq && coq_makefile -f _CoqProject -o Makefile && '
                              'make -j%s %s   (full .vo build; %s recompiled on every run)'
                              % (NPROC, ' '.join(cone_targets), prop_file))
    bad = scan_forbidden()
    if bad:
        rep.broken.append('forbidden vernacular: ' + '; '.join(bad[:10]))
    if not ok:
        rep.broken.append('coq build failed: ' + first_error(out))
        return False
    st, qd = count_obligations(cone)
    rep.cov['obligations'] = st
    rep.cov['discharged'] = qd if qd <= st else st
    rep.cov['proof_files'] = cone
    tb = []
    axioms = set()
    for thm, ax in assum.items():
        if ax:
            tb.append('Print Assumptions %s: %s' % (thm, ', '.join(ax)))
            axioms.update(ax)
        else:
            tb.append('Print Assumptions %s: Closed under the global context' % thm)
    rep.cov['trusted_base'] = tb + STD_ASSUMPTIONS
    rep.cov['axioms'] = sorted(axioms)
    rep.assumptions = list(STD_ASSUMPTIONS)
    if st != qd:
        rep.broken.append('statement/Qed count mismatch %d/%d' % (st, qd))
    return not rep.broken


def coqchk(rep, prop_file):
    """Thorough tier: independent re-check of the property's .vo closure."""
    lib = 'EosV.' + prop_file[:-2].replace('/', '.')
    rc, out = sh(['timeout', '3000', 'coqchk', '-silent', '-o', '-Q', '.', 'EosV', lib],
                 cwd=COQ, timeout=3100)
    rep.cov['coqchk'] = {'rc': rc, 'tail': out.splitlines()[-40:]}
    if rc != 0:
        rep.broken.append('coqchk failed: ' + out[-800:])
    return rc == 0
