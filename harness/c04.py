"""C04 — fit statistics equal aggregation over current items and obey algebraic laws."""
import json
import math
import os
import random
import time
from fractions import Fraction

import common
from eosenv import parse_q

PROP_FILE = 'props/C04.v'
TABLES = ['eos', 'stats']
REL = 1e-9


# ---------------------------------------------------------------------------
# comparison of one model line with one implementation line
# ---------------------------------------------------------------------------

def close(a, b, rel=REL):
    return a == b or abs(a - b) <= rel * max(abs(a), abs(b))


def same(cmd, m, i):
    import eng_run
    m = m.rstrip()
    i = i.rstrip()
    if m == i:
        return True
    mt, it = m.split(), i.split()
    if not mt or not it:
        return False
    if mt[0] == 'exn' and it[0] == 'exn':
        if mt[1].startswith('Internal'):
            return True
        return it[1] in mt[1].split('|')
    if cmd.startswith(('st ', 'setdmg')):
        if mt[0] != it[0] or len(mt) != len(it):
            return False
        for a, b in zip(mt[1:], it[1:]):
            if '/' in a and '/' in b:
                if not close(parse_q(a), parse_q(b)):
                    return False
            elif a != b:
                return False
        return True
    if cmd.startswith('regdump'):
        return False
    return eng_run.same(cmd, m, i)


# ---------------------------------------------------------------------------
# direct oracle: implementation only. Recomputes the statistics from the
# public state of the items that are on the fit now and evaluates the
# algebraic laws on the implementation's own outputs.
# ---------------------------------------------------------------------------

class Oracle:
    def __init__(self, impl):
        from eos.const.eve import AttrId, EffectId
        from eos.const.eos import State
        self.impl = impl
        self.A, self.E, self.State = AttrId, EffectId, State
        E = EffectId
        self.dd_ids = {int(x) for x in (
            E.target_attack, E.projectile_fired, E.chain_lightning, E.target_disintegrator_attack, E.use_missiles,
            E.emp_wave, E.super_weapon_amarr, E.super_weapon_caldari, E.super_weapon_gallente,
            E.super_weapon_minmatar, E.fighter_ability_attack_m, E.fighter_ability_kamikaze,
            E.fighter_ability_launch_bomb, E.fighter_ability_missiles)}
        self.larmor = {int(E.armor_repair), int(E.fueled_armor_repair)}
        self.lshield = {int(E.shield_boosting), int(E.fueled_shield_boosting)}
        self.rarmor = {int(x) for x in (E.ship_module_remote_armor_repairer, E.npc_entity_remote_armor_repairer,
                                        E.ship_module_ancillary_remote_armor_repairer,
                                        E.ship_module_remote_armor_mutadaptive_repairer)}
        self.rshield = {int(x) for x in (E.ship_module_remote_shield_booster, E.npc_entity_remote_shield_booster,
                                         E.ship_module_ancillary_remote_shield_booster)}
        self.generic_cycles = {int(x) for x in (E.projectile_fired, E.chain_lightning,
                                                E.target_disintegrator_attack, E.use_missiles)}

    # -- public state -----------------------------------------------------
    def fit_items(self, fit):
        tops = [fit.ship, fit.character, fit.stance, fit.effect_beacon]
        for c in (fit.skills, fit.implants, fit.boosters, fit.subsystems, fit.rigs, fit.drones, fit.fighters,
                  fit.modules.high, fit.modules.mid, fit.modules.low):
            tops += list(c)
        out = []
        for t in tops:
            if t is None:
                continue
            out.append(t)
            ch = getattr(t, 'charge', None)
            subs = ([ch] if ch is not None else []) + list(t.autocharges.values())
            for s in subs:
                out.append(s)
                out += list(s.autocharges.values())
        return out

    def running(self, item):
        return {int(e) for e, d in item.effects.items() if d.status}

    def loaded(self, item):
        return item._type is not None

    # -- expected values --------------------------------------------------
    def members(self, fit, name):
        from eos import Drone, FighterSquad
        A, E = self.A, self.E
        items = self.fit_items(fit)
        eff_attr = {'cpu': (E.online, A.cpu), 'powergrid': (E.online, A.power),
                    'calibration': (E.rig_slot, A.upgrade_cost)}
        if name in eff_attr:
            e, a = eff_attr[name]
            return [i for i in items if int(e) in self.running(i) and a in i._type_attrs]
        if name == 'dronebay':
            return [i for i in items if isinstance(i, Drone) and self.loaded(i) and A.volume in i._type_attrs]
        if name == 'drone_bandwidth':
            return [i for i in items if isinstance(i, Drone) and self.loaded(i) and i.state >= self.State.online
                    and A.drone_bandwidth_used in i._type_attrs]
        if name == 'turret_slots':
            return [i for i in items if int(E.turret_fitted) in self.running(i)]
        if name == 'launcher_slots':
            return [i for i in items if int(E.launcher_fitted) in self.running(i)]
        if name == 'launched_drones':
            return [i for i in items if isinstance(i, Drone) and i.state >= self.State.online]
        fa = {'fighter_squads_support': A.fighter_squadron_is_support,
              'fighter_squads_light': A.fighter_squadron_is_light,
              'fighter_squads_heavy': A.fighter_squadron_is_heavy}[name]
        return [i for i in items if isinstance(i, FighterSquad) and self.loaded(i) and i._type_attrs.get(fa)]

    def avg_time(self, item, eid, reload):
        """cycle time of effect eid on item from its attributes (None: cannot cycle; 'skip': not covered)"""
        A = self.A
        eff = item._type_effects[eid]
        if eid in self.generic_cycles or eid in (int(self.E.fueled_shield_boosting),
                                                 int(self.E.ship_module_ancillary_remote_shield_booster)):
            cq = getattr(item, 'charge_quantity', None)
            rate = item.attrs.get(A.charge_rate)
            cycles = None
            if cq is not None and rate:
                cycles = cq // int(rate) or None
            if cycles is None:
                cycles = math.inf if eid not in self.generic_cycles else None
        elif eid == int(self.E.target_attack):
            if item._type_default_effect_id != eid or not hasattr(item, 'cycles_until_reload'):
                return 'skip'
            cycles = item.cycles_until_reload
        else:
            cycles = math.inf
        if not cycles or cycles <= 0:
            return None
        dur_attr = eff.duration_attr_id
        act = (item.attrs.get(dur_attr) or 0) / 1000 if dur_attr is not None else 0
        forced = (item.attrs.get(A.module_reactivation_delay) or 0) / 1000
        rt = item.attrs.get(A.reload_time) if hasattr(item, 'reload_time') else None
        rt = None if rt is None else rt / 1000
        if rt is None and cycles < math.inf:
            if cycles == 1 or forced == 0:
                return act
            return ((cycles - 1) * (act + forced) + act) / cycles
        if not reload or cycles == math.inf or forced >= rt:
            return act + forced
        return ((cycles - 1) * (act + forced) + act + rt) / cycles

    def expected_item_dps(self, item, reload):
        """dps of one item from its volley and the cycle time of its running damage effects"""
        effs = [e for e in self.running(item) if e in self.dd_ids]
        if len(effs) != 1:
            return 'skip'
        t = self.avg_time(item, effs[0], reload)
        if t == 'skip':
            return 'skip'
        v = item.get_volley()
        if t is None:
            return (0, 0, 0, 0)
        return tuple(x / t for x in (v.em, v.thermal, v.kinetic, v.explosive))

    # -- checks -------------------------------------------------------------
    def check_read(self, cmd, out, block):
        """None or a description of how the implementation's output contradicts the property"""
        t = cmd.split()
        if t[0] != 'st':
            return None
        if out.startswith('exn'):
            if t[1] in ('arps', 'srps') and out.startswith('exn AttributeError'):
                try:
                    return self.check_rps(cmd, t, out, [])
                except Exception:  # noqa
                    return None
            return None
        k = t[1]
        ot = out.split()
        vals = [parse_q(x) for x in ot[1:] if '/' in x]
        try:
            if k in ('used', 'slot_used'):
                fit = self.impl.fits[int(t[2])]
                mem = self.members(fit, t[3])
                if k == 'slot_used':
                    return None if int(ot[1]) == len(mem) else '%s: %s but %d items satisfy the predicate' % (cmd, out, len(mem))
                A = self.A
                attr = {'cpu': A.cpu, 'powergrid': A.power, 'calibration': A.upgrade_cost, 'dronebay': A.volume,
                        'drone_bandwidth': A.drone_bandwidth_used}[t[3]]
                want = sum(i.attrs[attr] for i in mem)
                if t[3] in ('cpu', 'powergrid'):
                    want = round(want, 2)
                return None if close(Fraction(want), vals[0], 1e-6) else '%s: %s, recomputed %r' % (cmd, float(vals[0]), want)
            if k in ('output', 'slot_total', 'slots'):
                fit = self.impl.fits[int(t[2])]
                A = self.A
                amap = {'cpu': A.cpu_output, 'powergrid': A.power_output, 'calibration': A.upgrade_capacity,
                        'dronebay': A.drone_capacity, 'drone_bandwidth': A.drone_bandwidth,
                        'turret_slots': A.turret_slots_left, 'launcher_slots': A.launcher_slots_left,
                        'launched_drones': A.max_active_drones, 'fighter_squads_support': A.fighter_support_slots,
                        'fighter_squads_light': A.fighter_light_slots, 'fighter_squads_heavy': A.fighter_heavy_slots,
                        'high_slots': A.hi_slots, 'mid_slots': A.med_slots, 'low_slots': A.low_slots,
                        'rig_slots': A.rig_slots, 'subsystem_slots': A.max_subsystems, 'fighter_squads': A.fighter_tubes}
                holder = fit.character if t[3] == 'launched_drones' else fit.ship
                v = holder.attrs.get(amap[t[3]]) if holder is not None else None
                want = 0 if v is None else v
                if k == 'output':
                    return None if close(Fraction(want), vals[0], 1e-6) else '%s: %s, attribute says %r' % (cmd, out, want)
                got = int(ot[-1])
                if got != int(want):
                    return '%s: total %d, attribute says %r' % (cmd, got, want)
                if k == 'slots':
                    cont = {'high_slots': fit.modules.high, 'mid_slots': fit.modules.mid, 'low_slots': fit.modules.low,
                            'rig_slots': fit.rigs, 'subsystem_slots': fit.subsystems, 'fighter_squads': fit.fighters}[t[3]]
                    if int(ot[1]) != len(cont):
                        return '%s: used %s, container holds %d' % (cmd, ot[1], len(cont))
                return None
            if k in ('volley', 'dps'):
                fit = self.impl.fits[int(t[2])]
                import c04_impl
                flt = c04_impl.make_filter(t[3])
                res = c04_impl.oprofile(__import__('eos').ResistProfile, t[-1])
                items = [i for i in self.fit_items(fit)
                         if (self.running(i) & self.dd_ids) and (flt is None or flt(i))]
                tot = [0, 0, 0, 0]
                for i in items:
                    d = i.get_volley(tgt_resists=res) if k == 'volley' else i.get_dps(reload=t[4] == '1', tgt_resists=res)
                    d = (d.em, d.thermal, d.kinetic, d.explosive)
                    if k == 'dps':
                        # the item's own dps, from its volley and the cycle time its attributes give
                        e = self.expected_item_dps(i, t[4] == '1')
                        if e != 'skip':
                            d = tuple(x * (1 - r) for x, r in zip(e, res or (0, 0, 0, 0)))
                    for n, x in enumerate(d):
                        tot[n] += x
                for n in range(4):
                    if not close(Fraction(tot[n]), vals[n], 1e-6):
                        return '%s: %s, sum over the %d current damage dealers is %r' % (
                            cmd, [float(v) for v in vals], len(items), tot)
                return None
            if k in ('arps', 'srps'):
                return self.check_rps(cmd, t, out, vals)
            if k == 'idps' and t[-1] == '-':
                item = self.impl.items[int(t[2])]
                want = self.expected_item_dps(item, t[3] == '1')
                if want == 'skip':
                    return None
                for n in range(4):
                    if not close(Fraction(want[n]), vals[n], 1e-6):
                        return '%s: %s, volley / cycle time gives %r' % (cmd, [float(v) for v in vals], want)
                return None
        except Exception:   # the recomputation itself hit an undocumented path: no verdict
            return None
        return None

    def expected_rps(self, fit, armor, reload):
        from eos import ModuleHigh, ModuleMid, ModuleLow
        A, E = self.A, self.E
        ship = fit.ship
        if ship is None:
            return 0
        local = self.larmor if armor else self.lshield
        remote = self.rarmor if armor else self.rshield
        unsupported = {int(E.fueled_armor_repair), int(E.ship_module_ancillary_remote_armor_repairer)}
        tot = 0

        def one(item, eid):
            if eid in unsupported:
                raise KeyError('not covered')
            t = self.avg_time(item, eid, reload)
            if t == 'skip' or t == 0:
                raise KeyError('not covered')
            if t is None:
                return 0
            if armor:
                amount = item.attrs.get(A.armor_dmg_amount, 0)
                if eid == int(E.ship_module_remote_armor_mutadaptive_repairer):
                    amount *= 1 + item.attrs.get(A.repair_mult_bonus_max, 0)
            else:
                amount = item.attrs.get(A.shield_bonus, 0)
            return amount / t
        for item in self.fit_items(fit):
            if isinstance(item, (ModuleHigh, ModuleMid, ModuleLow)):
                for eid in self.running(item) & local:
                    tot += one(item, eid)
            elif self.running(item) & local:
                raise KeyError('not covered')
        for g in self.impl.fits.values():
            # projection needs projector and target in one solar system
            if fit.solar_system is None or g.solar_system is not fit.solar_system:
                continue
            for item in self.fit_items(g):
                if getattr(item, 'target', None) is ship:
                    for eid in self.running(item) & remote:
                        tot += one(item, eid)
        return tot

    def check_rps(self, cmd, t, out, vals):
        import c04_impl
        from eos import DmgProfile
        fit = self.impl.fits[int(t[2])]
        armor = t[1] == 'arps'
        want = self.expected_rps(fit, armor, t[4] == '1')
        if out.startswith('exn'):
            if fit.ship is None or fit.solar_system is None:
                return ('%s raises %s; a fit %s has no running repairer: the rate is 0' % (
                    cmd, out[4:], 'without a ship' if fit.ship is None else 'outside any solar system'))
            return None
        if t[3] != 'none' and fit.ship is not None:
            p = fit.default_incoming_dmg if t[3] == 'default' else c04_impl.profile(DmgProfile, t[3])
            r = fit.ship.resists
            r = r.armor if armor else r.shield
            dealt = p.em + p.thermal + p.kinetic + p.explosive
            rec = dealt - (p.em * r.em + p.thermal * r.thermal + p.kinetic * r.kinetic + p.explosive * r.explosive)
            want = want * dealt / rec
        return None if close(Fraction(want), vals[0], 1e-6) else '%s: %s, recomputed from the running repairers %r' % (
            cmd, float(vals[0]), want)

    def check_laws(self, block):
        """block: list of (cmd, impl output) read in one state. Laws on the outputs."""
        vals = {}
        for cmd, out in block:
            if cmd.startswith('st ') and not out.startswith('exn'):
                vals[cmd] = [parse_q(x) for x in out.split()[1:] if '/' in x]
        for cmd, v in vals.items():
            t = cmd.split()
            k = t[1]
            if k in ('volley', 'dps') and t[3].startswith('!'):
                a = ' '.join(t[:3] + [t[3][1:]] + t[4:])
                al = ' '.join(t[:3] + ['all'] + t[4:])
                if a in vals and al in vals:
                    for n in range(4):
                        if not close(vals[a][n] + v[n], vals[al][n], 1e-6):
                            return 'additivity: %s + %s != %s (%s + %s vs %s)' % (
                                a, cmd, al, float(vals[a][n]), float(v[n]), float(vals[al][n]))
            if k == 'dps' and t[4] == '1':
                nr = ' '.join(t[:4] + ['0'] + t[5:])
                if nr in vals:
                    for n in range(4):
                        if v[n] > vals[nr][n] * (1 + 1e-9) + 1e-12:
                            return 'reload increases dps: %s = %s > %s = %s' % (cmd, float(v[n]), nr, float(vals[nr][n]))
            if k == 'idps' and t[3] == '1':
                nr = ' '.join(t[:3] + ['0'] + t[4:])
                if nr in vals:
                    for n in range(4):
                        if v[n] > vals[nr][n] * (1 + 1e-9) + 1e-12:
                            return 'reload increases dps: %s = %s > %s = %s' % (cmd, float(v[n]), nr, float(vals[nr][n]))
            if k in ('volley', 'ivolley', 'dps', 'idps') and t[-1] != '-':
                base = ' '.join(t[:-1] + ['-'])
                if base in vals:
                    r = [parse_q(x) for x in t[-1].split(',')]
                    for n in range(4):
                        if not close(v[n], vals[base][n] * (1 - r[n]), 1e-6):
                            return 'resist scaling: %s[%d] = %s, expected %s * (1 - %s)' % (
                                cmd, n, float(v[n]), float(vals[base][n]), float(r[n]))
            if k in ('ehp', 'iehp'):
                hp = vals.get('st %s %s' % ('hp' if k == 'ehp' else 'ihp', t[2]))
                wc = vals.get('st %s %s' % ('wcehp' if k == 'ehp' else 'iwcehp', t[2]))
                for n in range(3):
                    if hp and v[n] < hp[n] * (1 - 1e-9):
                        return 'ehp below hp: %s[%d] = %s < %s' % (cmd, n, float(v[n]), float(hp[n]))
                    if wc and v[n] < wc[n] * (1 - 1e-9):
                        return 'ehp below worst-case ehp: %s[%d] = %s < %s' % (cmd, n, float(v[n]), float(wc[n]))
        # ehp scale invariance: two ehp reads whose profiles are proportional
        ehps = [(c, v) for c, v in vals.items() if c.split()[1] == 'ehp' and c.split()[-1] != '-']
        for c1, v1 in ehps:
            for c2, v2 in ehps:
                if c1 < c2 and c1.split()[2] == c2.split()[2]:
                    p1 = [parse_q(x) for x in c1.split()[-1].split(',')]
                    p2 = [parse_q(x) for x in c2.split()[-1].split(',')]
                    ks = {b / a for a, b in zip(p1, p2) if a != 0}
                    if len(ks) == 1 and all((a == 0) == (b == 0) for a, b in zip(p1, p2)):
                        for n in range(3):
                            if not close(v1[n], v2[n], 1e-6):
                                return 'ehp changes under profile scaling: %s -> %s, %s -> %s' % (
                                    c1, float(v1[n]), c2, float(v2[n]))
        return None


def run_oracle(script):
    """replay the script on a fresh implementation; first contradiction or None"""
    import c04_impl
    import eng_impl
    eng_impl.set_penalty_base(0.5)
    impl = c04_impl.StatImpl()
    orc = Oracle(impl)
    block = []
    n = 0
    for k, (line, kind) in enumerate(script):
        if kind != 'obs':
            why = orc.check_laws(block)
            if why:
                return dict(index=k, fails=why)
            block = []
            impl.run(line)
            continue
        if line.startswith('regdump'):
            continue
        out = impl.run(line)
        n += 1
        why = orc.check_read(line, out, block)
        if why:
            return dict(index=k, fails=why)
        block.append((line, out))
    why = orc.check_laws(block)
    if why:
        return dict(index=len(script), fails=why)
    return None


# ---------------------------------------------------------------------------

def new_stats():
    return dict(lines=0, ops={}, reads={}, read_exn={}, exact=0, inexact=0, regdumps=0, spec_differs=[],
                internal=0, nontrivial=set())


def run_correspondence(exe, histories, pens, stats):
    """-> list of disagreements dict(history, index, cmd, model, impl)"""
    import c04_impl
    import eng_run
    lines = []
    for h in histories:
        lines.append(eng_run.pen_line(pens))
        lines += [l for l, _ in h]
    mout = common.run_driver(exe, lines, shards=1)
    pos = 0
    dis = []
    for hi, h in enumerate(histories):
        impl = c04_impl.StatImpl()
        pos += 1
        dead = False
        last_dump = {}
        nz = changed = False
        for k, (l, kind) in enumerate(h):
            m = mout[pos]
            pos += 1
            if dead:
                continue
            i = impl.run(l)
            stats['lines'] += 1
            c = l.split()[0]
            if kind == 'op':
                stats['ops'][c] = stats['ops'].get(c, 0) + 1
            elif c == 'st':
                kk = l.split()[1]
                stats['reads'][kk] = stats['reads'].get(kk, 0) + 1
                if i.startswith('exn'):
                    stats['read_exn'][i[4:]] = stats['read_exn'].get(i[4:], 0) + 1
                elif m == i:
                    stats['exact'] += 1
                else:
                    stats['inexact'] += 1
                if kk == 'dps' and i.startswith('dmg') and any(x != '0/1' for x in i.split()[1:]):
                    nz = True
            elif c == 'regdump':
                f = l.split()[1]
                if f in last_dump and last_dump[f] != i:
                    changed = True
                last_dump[f] = i
                stats['regdumps'] += 1
                if 'SPEC-DIFFERS' in m or 'HANDLER-ERROR' in m:
                    stats['spec_differs'].append(dict(history=hi, index=k, model=m))
            ok = (m.rstrip() == i.rstrip()) if c == 'regdump' else same(l, m, i)
            if not ok:
                dis.append(dict(history=hi, index=k, cmd=l, model=m, impl=i))
                dead = True
                continue
            if m.startswith('exn Internal') or i.startswith('exn Internal'):
                if kind != 'obs':
                    stats['internal'] += 1
                    dead = True
        if nz and changed:
            stats['nontrivial'].add(hi)
    return dis


def gen_histories(rng, n):
    import c04_gen
    hs = []
    for _ in range(n):
        ul, script, meta = c04_gen.gen_history(rng)
        hs.append(script)
    return hs


def load_corpus():
    out = []
    for c in common.load_corpus('C04'):
        out.append([tuple(x) for x in c['script']])
    return out


def chunk_work(args):
    """one worker: generate a chunk of histories from its own seed, run both sides, compare"""
    exe, pens, seed, n, extra = args
    rng = random.Random(seed)
    hs = list(extra) + gen_histories(rng, n)
    stats = new_stats()
    try:
        dis = run_correspondence(exe, hs, pens, stats)
    except common.TieBroken as e:
        return dict(broken='%s: %s' % (e.what, e.detail))
    for d in dis:
        d['script'] = hs[d['history']]
    for d in stats['spec_differs']:
        d['script'] = hs[d['history']]
    hashes = [hash(tuple(l for l, _ in h)) for h in hs]
    stats['nontrivial'] = [hashes[k] for k in stats['nontrivial']]
    return dict(stats=stats, dis=dis, hashes=hashes, n=len(hs),
                samples=[[l for l, k in h if k != 'setup'][:40] for h in hs[len(extra):len(extra) + 1]])


def merge(into, st):
    for k in ('lines', 'exact', 'inexact', 'regdumps', 'internal'):
        into[k] += st[k]
    for k in ('ops', 'reads', 'read_exn'):
        for a, b in st[k].items():
            into[k][a] = into[k].get(a, 0) + b
    into['spec_differs'] += st['spec_differs']
    into['nontrivial'] |= set(st['nontrivial'])


def run(rep):
    import multiprocessing
    import eng_impl
    n = 320 if rep.tier == 'quick' else 20000
    proved = common.prove(rep, PROP_FILE, TABLES, ['extract/X_stats.vo'])
    if proved and rep.tier == 'thorough':
        common.coqchk(rep, PROP_FILE)
    eng_impl.set_penalty_base(0.5)
    pens = eng_impl.penalties()
    corpus = load_corpus()
    stats = new_stats()
    rep.cov['rule'] = (
        'random histories (eng_gen operations: containers, states, charges, targets, effect modes, fleets, solar '
        'systems, source switches, failing calls; plus default damage profile changes) over universes extended with '
        'resource/slot/tanking/damage/repair/cycle attributes and the damage-dealer, repairer, hardpoint and '
        'resource-use effect ids; after every operation a register dump per fit and reads of fit.stats members and '
        'item getters (all of them or a random subset) with public item filters, their complements, and generated '
        'damage/resist profiles; non-trivial = some fit dps read is non-zero and some register changed after set-up; '
        'distinct by script content')
    disagreements = []
    histories = 0
    hashes = set()
    samples = []
    try:
        exe = common.build_driver('stats')
        per = 40
        jobs = []
        k = 0
        todo = n
        while todo > 0:
            m = min(per, todo)
            jobs.append((exe, pens, rep.seed * 1000003 + k, m, corpus if k == 0 else []))
            todo -= m
            k += 1
        ctx = multiprocessing.get_context('fork')
        with ctx.Pool(min(int(common.NPROC), 14, len(jobs))) as pool:
            for r in pool.imap(chunk_work, jobs):
                if 'broken' in r:
                    rep.broken.append(r['broken'])
                    continue
                merge(stats, r['stats'])
                histories += r['n']
                hashes |= set(r['hashes'])
                samples += r['samples']
                disagreements += r['dis']
                if not r['dis'] and r['stats']['spec_differs']:
                    d = r['stats']['spec_differs'][0]
                    disagreements.append(dict(history=d['history'], index=d['index'], cmd='regdump', model=d['model'],
                                              impl='(registers differ from the from-scratch sets)', script=d['script']))
        rep.cov['traces_validated_against_impl'] = histories
    except common.TieBroken as e:
        rep.broken.append('%s: %s' % (e.what, e.detail))
    rep.cov['evaluations'] = stats['lines']
    rep.cov['distinct_nontrivial'] = len(stats['nontrivial'] & hashes)
    rep.cov['histories'] = histories
    rep.cov['operation_histogram'] = stats['ops']
    rep.cov['read_histogram'] = stats['reads']
    rep.cov['read_exception_histogram'] = stats['read_exn']
    rep.cov['values_exact'] = stats['exact']
    rep.cov['values_within_1e-9'] = stats['inexact']
    rep.cov['register_dumps_compared'] = stats['regdumps']
    rep.cov['register_vs_from_scratch_set_differences'] = len(stats['spec_differs'])
    rep.cov['histories_ended_by_internal_error'] = stats['internal']
    rep.cov['samples'] = samples[:2]
    finish(rep, disagreements)


def finish(rep, disagreements):
    if not rep.broken and not disagreements:
        return
    # search: the direct oracle on the disagreeing histories first, then on fresh ones
    cands = [d['script'] for d in disagreements]
    rng = random.Random(rep.seed + 1)
    t0 = time.time()
    k = 0
    while time.time() - t0 < 240 and k < 600:
        if k < len(cands):
            h = cands[k]
        else:
            h = gen_histories(rng, 1)[0]
        k += 1
        try:
            why = run_oracle(h)
        except Exception:  # noqa
            why = None
        if why:
            script = shrink_for_oracle(h[:why['index'] + 1], why)
            w2 = run_oracle(script) or why
            dis = next((d for d in disagreements if d['script'] is h), None)
            rep.violation({'kind': 'input', 'script': script, 'fails': w2['fails'], 'broken': rep.broken,
                           'disagreement': {x: dis[x] for x in ('cmd', 'model', 'impl')} if dis else None,
                           'other_disagreements': [
                               dict({x: d[x] for x in ('cmd', 'model', 'impl')},
                                    ops=[l for l, kd in d['script'][:d['index'] + 1] if kd == 'op'][-12:])
                               for d in disagreements[:3] if d is not dis]})
            return
    rep.violation({'kind': 'obligation', 'broken': rep.broken,
                   'disagreements': [dict({x: d[x] for x in ('cmd', 'model', 'impl')},
                                          script=d['script'][:d['index'] + 1]) for d in disagreements[:2]]},
                  found_input=False)


def shrink_for_oracle(script, why, budget=120):
    """drop operations while the oracle still reports a contradiction"""
    setup = [x for x in script if x[1] == 'setup']
    rest = [x for x in script if x[1] != 'setup']
    # keep only the last observation block
    last_op = max((k for k, x in enumerate(rest) if x[1] == 'op'), default=-1)
    ops = [x for x in rest[:last_op + 1] if x[1] == 'op']
    obs = rest[last_op + 1:]
    runs = 0
    k = 0
    while k < len(ops) and runs < budget:
        if ops[k][0].startswith(('new ', 'fit ', 'solsys ')):
            k += 1
            continue
        cand = ops[:k] + ops[k + 1:]
        runs += 1
        try:
            w = run_oracle(setup + cand + obs)
        except Exception:  # noqa
            w = None
        if w:
            ops = cand
        else:
            k += 1
    # the failing read alone, when that is enough; then unused item constructions
    if obs:
        for cand_obs in ([obs[-1]], obs):
            try:
                w = run_oracle(setup + ops + cand_obs)
            except Exception:  # noqa
                w = None
            if w:
                obs = cand_obs
                break
    k = 0
    while k < len(ops) and runs < budget + 80:
        if not ops[k][0].startswith('new '):
            k += 1
            continue
        cand = ops[:k] + ops[k + 1:]
        runs += 1
        try:
            w = run_oracle(setup + cand + obs)
        except Exception:  # noqa
            w = None
        if w:
            ops = cand
        else:
            k += 1
    return setup + ops + obs


def replay(path):
    r = json.load(open(path))
    if 'script' not in r:
        print(json.dumps(r, indent=1)[:4000])
        return 1
    script = [tuple(x) for x in r['script']]
    why = run_oracle(script)
    for l, k in script:
        if k != 'setup':
            print(k, l)
    print('oracle:', why['fails'] if why else 'property holds on this input')
    return 1 if why else 0
