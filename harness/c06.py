"""C06 — operations that raise leave the fit unchanged."""
import engcheck
import eng_gen
import eng_oracle

PROP_FILE = 'props/C06.v'
RULE = ('histories as in C01 with 45% deliberately failing calls (wrong class, item already assigned elsewhere or to '
        'the same container, taken slot, negative and out-of-range indices, absent item/key, fit already in a solar '
        'system or fleet); full observation (containers, owners, values, running effects, cached keys, register '
        'sizes) compared between model and implementation after every call, so a raising call that changes anything '
        'shows as a difference from the model, whose raising container operations are proved to do nothing; '
        'non-trivial = at least one AttrsValueChanged or EffectApplied delivered; distinct by generation seed')


def gen(rng):
    return eng_gen.gen_history(rng, profile='bad')


def run(rep):
    engcheck.run(rep, 'C06', PROP_FILE, gen, 120, 6000, ['all', 'some'], eng_oracle.oracle_c06, RULE, direct=15)


def replay(path):
    return engcheck.replay(path, eng_oracle.oracle_c06)
