"""Direct oracles on the implementation only (no model): they state the engine
properties themselves and are used to search for a failing input after a
proof obligation or the correspondence broke (DESIGN 7.1)."""
import eng_impl
from eng_run import observation, same

SLOTS = ('ship', 'stance', 'beacon')
SETS = ('skills', 'implants', 'boosters', 'subsystems', 'rigs', 'drones', 'fighters')
RACKS = ('high', 'mid', 'low')
CLS_NAME = {v: k for k, v in eng_impl.CLASSES.items()}


def snapshot_script(impl, ulines):
    """construction script of the current configuration, through public state
    (effect-mode overrides are read from the item's override map)"""
    out = list(ulines)
    for s in impl.sss:
        out.append('solsys %d' % s)
    for f, fit in impl.fits.items():
        out.append('fit %d %s' % (f, impl.iid(fit.character)))
    for i, obj in impl.items.items():
        cls = CLS_NAME.get(type(obj))
        if cls in (None, 'character', 'autocharge'):
            continue
        st = getattr(obj, 'state', 1)
        out.append('new %d %s %d %d %d' % (i, cls, obj._type_id, int(st) if st is not None else 1,
                                           getattr(obj, 'level', 0)))
    src_of = {}
    for s, ss in impl.sss.items():
        for k, src in impl.sources.items():
            if ss.source is src:
                src_of[s] = k
        out.append('source %d %s' % (s, src_of.get(s, '-')))
    for f, fit in impl.fits.items():
        for s, ss in impl.sss.items():
            if fit.solar_system is ss:
                out.append('ssadd %d %d' % (s, f))
    for f, fit in impl.fits.items():
        for k in SLOTS:
            it = getattr(fit, eng_impl.SLOT_ATTR[k])
            if it is not None:
                out.append('slot %d %s %s' % (f, k, impl.iid(it)))
        for k in SETS:
            for it in sorted(getattr(fit, k), key=lambda x: int(impl.iid(x))):
                out.append('sadd %d %s %s' % (f, k, impl.iid(it)))
        for k in RACKS:
            for n, it in enumerate(getattr(fit.modules, k)):
                if it is not None:
                    out.append('rplace %d %s %d %s' % (f, k, n, impl.iid(it)))
    for i, obj in impl.items.items():
        ch = getattr(obj, 'charge', None)
        if ch is not None:
            out.append('charge %d %s' % (i, impl.iid(ch)))
        ov = getattr(obj, '_BaseItemMixin__effect_mode_overrides', None) or {}
        for e, m in sorted(ov.items()):
            out.append('mode %d %d %d' % (i, e, int(m)))
    for i, obj in impl.items.items():
        tg = getattr(obj, 'target', None)
        if tg is not None:
            out.append('target %d %s' % (i, impl.iid(tg)))
    for fl, fleet in impl.fleets.items():
        for f, fit in impl.fits.items():
            if fit.fleet is fleet:
                out.append('fladd %d %d' % (fl, f))
    return out


def values(impl, meta, with_cached=False):
    out = []
    # statistics and validation are functions of the configuration too (implementation-only observations)
    for f in meta['fits']:
        for cmd in ('stats %d' % f, 'validate %d' % f):
            try:
                out.append((cmd, impl.run(cmd)))
            except Exception as e:  # noqa
                out.append((cmd, 'raise ' + type(e).__name__))
    for l in observation(meta):
        if l.startswith(('get ', 'effects ', 'fitdump ')):
            out.append((l, impl.run(l)))
        elif l.startswith('item '):
            r = impl.run(l)
            if not with_cached:
                r = r.split(' cached=')[0]
            out.append((l, r))
    return out


def mirror_check(impl, meta, ulines):
    """C01/C14: every value and running effect equals the from-scratch build of
    the same configuration"""
    script = snapshot_script(impl, ulines)
    fresh = eng_impl.Impl()
    for l in script:
        r = fresh.run(l)
        if r.startswith('exn'):
            return 'mirror construction failed at %r: %s' % (l, r)
    for (l, a), (_, b) in zip(values(impl, meta), values(fresh, meta)):
        if not same(l, a, b):
            return 'history-built world and from-scratch build differ at %r: %s vs %s' % (l, a, b)
    return None


def run_ops(ulines, lines):
    impl = eng_impl.Impl()
    for l in ulines:
        impl.run(l)
    res = []
    for l in lines:
        res.append(impl.run(l))
    return impl, res


def oracle_c01(ulines, lines, meta, every=6):
    """replay; after every [every]-th mutating line and at the end compare with the from-scratch build"""
    impl = eng_impl.Impl()
    for l in ulines:
        impl.run(l)
    muts = 0
    last = -1
    for k, l in enumerate(lines):
        r = impl.run(l)
        if 'ZeroDivisionError' in r:
            return None          # zero divisor: outside the quantifier (well-formed universes)
        if r.startswith('exn Internal'):
            return dict(fails='internal error %s at %r' % (r, l), upto=k)
        if l.split()[0] in ('get', 'read', 'keys', 'effects', 'item', 'fitdump', 'regs', 'counters', 'new',
                             'fit', 'solsys', 'spec'):
            continue
        muts += 1
        last = k
        if muts % every:
            continue
        why = mirror_check(impl, meta, ulines)
        if why:
            return dict(fails=why, upto=k)
    if last >= 0:
        why = mirror_check(impl, meta, ulines)
        if why:
            return dict(fails=why, upto=len(lines) - 1)
    return None


def side_effect_check(impl):
    """every effect of a loaded booster whose chance attribute has a value (zero included) is one of its side
    effects: listed with that chance, switchable; an effect whose chance has no value is none"""
    from eos import Booster
    for i, obj in sorted(impl.items.items()):
        if not isinstance(obj, Booster) or not obj._is_loaded:
            continue
        try:
            listed = obj.side_effects
        except Exception as e:  # noqa
            return 'booster %d: side_effects raised %s' % (i, type(e).__name__)
        for eid, effect in obj._type_effects.items():
            ca = effect.fitting_usage_chance_attr_id
            chance = None if ca is None else obj.attrs.get(ca)
            if (chance is not None) != (eid in listed):
                return ('booster %d: effect %d has chance %r but is %s booster.side_effects'
                        % (i, eid, chance, 'in' if eid in listed else 'missing from'))
            if chance is not None and listed[eid].chance != chance:
                return 'booster %d: side effect %d reported with chance %r, the attribute is %r' % (
                    i, eid, listed[eid].chance, chance)
    return None


def oracle_c05(ulines, lines, meta, every=6):
    """the mirror oracle, and the side-effect switches of boosters at the end of the history"""
    why = oracle_c01(ulines, lines, meta, every)
    if why:
        return why
    impl = eng_impl.Impl()
    for l in ulines:
        impl.run(l)
    for k, l in enumerate(lines):
        r = impl.run(l)
        if 'ZeroDivisionError' in r:
            return None
        if l.split()[0] in ('switch', 'randomize', 'source', 'sadd', 'slot', 'rappend', 'state', 'level', 'ssadd'):
            why = side_effect_check(impl)
            if why:
                return dict(fails=why, upto=k)
    return None


DOC_EXN = ('exn TypeError', 'exn ValueError', 'exn KeyError', 'exn IndexError', 'exn SlotTakenError',
           'exn UnknownSourceError')


def oracle_c06(ulines, lines, meta):
    """a call that raises a documented exception leaves every observation unchanged"""
    impl = eng_impl.Impl()
    for l in ulines:
        impl.run(l)
    for k, l in enumerate(lines):
        if l.split()[0] in ('get', 'read', 'keys', 'effects', 'item', 'fitdump', 'regs', 'counters'):
            impl.run(l)
            continue
        before = values(impl, meta, with_cached=False)
        r = impl.run(l)
        if r.startswith(DOC_EXN):
            after = values(impl, meta, with_cached=False)
            for (c, a), (_, b) in zip(before, after):
                if not same(c, a, b):
                    return dict(fails='%r raised %s but changed %r: %s -> %s' % (l, r[4:], c, a, b), upto=k)
    return None


def oracle_c10(ulines, lines, meta):
    impl = eng_impl.Impl()
    for l in ulines:
        impl.run(l)
    for k, l in enumerate(lines):
        r = impl.run(l)
        if 'ZeroDivisionError' in r:
            return None          # zero divisor: outside the quantifier (well-formed universes)
        if r.startswith('exn Internal'):
            return dict(fails='%r raised %s' % (l, r[4:]), upto=k)
    return None


def teardown_lines(meta):
    out = []
    for s in meta['sss']:
        out.append('ssclear %d' % s)
    for f in meta['fits']:
        for k in RACKS:
            out.append('rclear %d %s' % (f, k))
        for k in SETS:
            out.append('sclear %d %s' % (f, k))
        for k in SLOTS:
            out.append('slot %d %s -' % (f, k))
    for fl in (1, 2):
        out.append('flclear %d' % fl)
    return out


def retained_items(impl):
    """generic emptiness walk after tear-down: every item object that is still referenced from a service
    object (statistics, restrictions, RAH simulator, message broker of a fit; calculator of a solar system),
    following attributes of eos objects and the contents of containers, not following fits, solar systems
    and items themselves. -> list of (where, item id)"""
    import eos
    from eos.item.mixin.base import BaseItemMixin
    from eos import Fit, SolarSystem
    found = []
    seen = set()

    def walk(obj, path, depth):
        if depth > 8 or id(obj) in seen:
            return
        if isinstance(obj, BaseItemMixin):
            found.append((path, obj))
            return
        if isinstance(obj, (Fit, SolarSystem)) or obj is None or isinstance(obj, (int, float, str, bytes, bool, type)):
            return
        seen.add(id(obj))
        if isinstance(obj, dict):
            for k, v in list(obj.items()):
                walk(k, path + '{k}', depth + 1)
                walk(v, path + '[%s]' % (getattr(k, '__name__', None) or type(k).__name__), depth + 1)
        elif isinstance(obj, (list, tuple, set, frozenset)):
            for v in list(obj):
                walk(v, path + '[]', depth + 1)
        elif type(obj).__module__.startswith('eos.'):
            d = getattr(obj, '__dict__', None)
            if d:
                for k, v in list(d.items()):
                    walk(v, path + '.' + k.split('__')[-1], depth + 1)
            if hasattr(obj, '__slots__'):
                for k in obj.__slots__:
                    walk(getattr(obj, k, None), path + '.' + k, depth + 1)
    for f, fit in impl.fits.items():
        for name in ('stats', '_restriction', '_Fit__rah_sim', '_FitMsgBroker__subscribers'):
            walk(getattr(fit, name, None), 'fit%d.%s' % (f, name.split('__')[-1]), 0)
    for s, ss in impl.sss.items():
        walk(ss._calculator, 'solsys%d.calculator' % s, 0)
    return found


def oracle_c11(ulines, lines, meta):
    """after complete tear-down no calculator register retains an entry"""
    impl = eng_impl.Impl()
    for l in ulines:
        impl.run(l)
    for l in lines:
        impl.run(l)
    for l in teardown_lines(meta):
        r = impl.run(l)
        if r.startswith('exn Internal'):
            return dict(fails='tear-down %r raised %s' % (l, r[4:]))
    # generic emptiness walk: no service object may still refer to an item that left its fit
    chars_all = {id(fit.character) for fit in impl.fits.values()}
    for where, obj in retained_items(impl):
        if id(obj) not in chars_all:
            return dict(fails='after tear-down %s still refers to item %s' % (where, impl.iid(obj)))
    # validation after tear-down can only concern the characters (everything else left the fits)
    for f in meta['fits']:
        try:
            r = impl.run('validate %d' % f)
        except Exception as e:  # noqa
            r = 'raise ' + type(e).__name__
        chars = {impl.iid(impl.fits[f].character)} if f in impl.fits else set()
        for ent in r.split()[2:]:
            who = ent.split(':', 1)[0]
            if who not in chars:
                return dict(fails='after tear-down validation of fit %d still reports item %s: %s' % (f, who, ent[:120]))
    for s in meta['sss']:
        # the characters stay on their fits; fits were removed from the solar systems
        r = impl.run('regs %d' % s)
        nz = [kv for kv in r.split()[2:] if not kv.endswith('=0')]
        if nz:
            return dict(fails='registers not empty after tear-down: ' + ' '.join(nz))
    return None


def oracle_c07(ulines, lines, meta):
    """container invariants on the implementation after every call: an item is
    in at most one place, its own view of owner and fit agrees with membership,
    racks have no trailing hole, skill lookup by type id agrees with contents"""
    impl = eng_impl.Impl()
    for l in ulines:
        impl.run(l)
    for k, l in enumerate(lines):
        impl.run(l)
        if l.split()[0] in ('get', 'read', 'keys', 'effects', 'item', 'fitdump', 'regs', 'counters'):
            continue
        seen = {}
        for f, fit in impl.fits.items():
            places = []
            for s in SLOTS + ('character',):
                it = getattr(fit, eng_impl.SLOT_ATTR[s])
                if it is not None:
                    places.append((it, 'slot:%d:%s' % (f, s)))
            for s in SETS:
                c = getattr(fit, s)
                if len(c) != len(list(c)):
                    return dict(fails='len/iter disagree on %s of fit %d after %r' % (s, f, l), upto=k)
                for it in c:
                    places.append((it, 'set:%d:%s' % (f, s)))
                    if it not in c:
                        return dict(fails='iteration/membership disagree on %s after %r' % (s, l), upto=k)
            for it in fit.skills:
                if fit.skills[it._type_id] is not it:
                    return dict(fails='skill lookup by type id disagrees with contents after %r' % l, upto=k)
                # a type id is a number: membership, lookup and contents agree for every way of writing it
                from fractions import Fraction as _Fr
                for key in (it._type_id, float(it._type_id), _Fr(it._type_id)):
                    try:
                        ok = (key in fit.skills) and fit.skills[key] is it
                    except Exception:  # noqa
                        ok = False
                    if not ok:
                        return dict(fails='type id %r: membership / lookup in fit.skills disagree with its contents '
                                          'after %r' % (key, l), upto=k)
            for absent in (4242, 4242.0):
                if (absent in fit.skills) != any(sk._type_id == 4242 for sk in fit.skills):
                    return dict(fails='membership of absent type id %r in fit.skills after %r' % (absent, l), upto=k)
            for s in RACKS:
                r = getattr(fit.modules, s)
                lst = list(r)
                if lst and lst[-1] is None:
                    return dict(fails='trailing hole in rack %s of fit %d after %r' % (s, f, l), upto=k)
                if len(r) != len(lst) or len(r.items()) != sum(1 for x in lst if x is not None):
                    return dict(fails='len / items view disagree on rack %s after %r' % (s, l), upto=k)
                for n, it in enumerate(lst):
                    if it is not None:
                        places.append((it, 'rack:%d:%s' % (f, s)))
                        if r.index(it) != n and lst.index(it) == n:
                            return dict(fails='index() disagrees on rack %s after %r' % (s, l), upto=k)
            for it, where in places:
                if id(it) in seen:
                    return dict(fails='item %s is in two places (%s and %s) after %r' %
                                (impl.iid(it), seen[id(it)], where, l), upto=k)
                seen[id(it)] = where
                if it._fit is not fit:
                    return dict(fails='item %s in %s does not resolve to fit %d after %r' %
                                (impl.iid(it), where, f, l), upto=k)
                if impl.place(it) != where:
                    return dict(fails='item %s: membership %s but own view %s after %r' %
                                (impl.iid(it), where, impl.place(it), l), upto=k)
        for i, it in impl.items.items():
            if it._container is not None and id(it) not in seen and impl.place(it).startswith(('slot', 'set', 'rack')):
                return dict(fails='item %d believes it is in %s but the container does not hold it after %r' %
                            (i, impl.place(it), l), upto=k)
    return None


def oracle_c09(ulines, lines, meta):
    """the same mutations with all reads dropped, and with every value read
    after every mutation, end in the same observable values"""
    muts = [l for l in lines if l.split()[0] not in ('get', 'read', 'keys', 'effects', 'item', 'fitdump', 'regs',
                                                      'counters')]
    a, ra = run_ops(ulines, muts)
    b = eng_impl.Impl()
    for l in ulines:
        b.run(l)
    for k, l in enumerate(muts):
        b.run(l)
        if l.split()[0] in ('new', 'fit', 'solsys'):
            continue
        for o in observation(meta):
            if o.startswith('get '):
                b.run(o)
    for (c, x), (_, y) in zip(values(a, meta), values(b, meta)):
        if not same(c, x, y):
            return dict(fails='reads changed a later value: %r gives %s without reads and %s with reads' % (c, x, y))
    return None
