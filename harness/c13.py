"""C13 — projected effects and fleet boosts reach exactly their current targets."""
import itertools
import random

import engcheck
import eng_gen
import eng_impl
import eng_oracle
from eng_run import same

PROP_FILE = 'props/C13.v'
RULE = ('scenarios of 2-3 fits in one solar system over generated universes with warfare-buff modules and modules '
        'carrying projectable (target category) effects; the set-up steps {assign ship of fit 1, assign ship of fit 2, '
        'both fits join the fleet, add and activate the booster, add the projecting module, set its target to the '
        'other ship} are performed in ALL 120 orders of five of them (exhaustive per scenario); every order is '
        'compared line by line with the model, and the final values of all orders of a scenario are compared with '
        'each other on the implementation; then tear-down steps (remove target ship, re-add it, leave fleet, stop '
        'booster) follow in random order; plus C01-style histories with 22% target and 14% fleet operations; '
        'non-trivial = at least one EffectApplied delivered')


def scenario(rng):
    """returns (ulines, fixed prefix, five permutable steps, suffix, meta)"""
    for _ in range(50):
        u = eng_gen.Universe(rng)
        boosters = [t for t in u.module_types if any(e in [int(b) for b in eng_gen.BUFF_EFFECTS]
                                                      and u.types[t]['default'] == e for e in u.types[t]['effects'])]
        projs = [t for t in u.module_types if u.types[t]['default'] is not None and
                 u.effects[u.types[t]['default']]['cat'] == 2]
        if boosters and projs:
            break
    else:
        return None
    ul = u.lines(1)
    pre = ['solsys 1', 'fit 1 1', 'fit 2 2', 'source 1 1', 'ssadd 1 1', 'ssadd 1 2',
           'new 10 ship %d 1 0' % u.ship_types[0], 'new 11 ship %d 1 0' % u.ship_types[1],
           'new 12 modhigh %d 3 0' % rng.choice(boosters), 'new 13 modmid %d 3 0' % rng.choice(projs),
           'new 14 skill %d 1 3' % u.skill_types[0], 'sadd 1 skills 14',
           'new 15 modlow %d 2 0' % rng.choice(u.module_types), 'rappend 2 low 15']
    steps = ['slot 1 ship 10', 'slot 2 ship 11', 'fladd 1 1|fladd 1 2', 'rappend 1 high 12', 'rappend 1 mid 13|target 13 11']
    suffix = rng.sample(['slot 2 ship -', 'slot 2 ship 11', 'flrm 1 2', 'state 12 1', 'state 12 3', 'fladd 1 2',
                         'target 13 -', 'target 13 11', 'slot 1 ship -', 'slot 1 ship 10'], 6)
    meta = dict(items=[1, 2, 10, 11, 12, 13, 14, 15], fits=[1, 2], sss=[1], attrs=u.all_attr_ids(), setup_len=0)
    return ul, pre, steps, suffix, meta


def permutation_histories(rng, tier):
    out = []
    nscen = 6 if tier == 'quick' else 120
    k = 0
    while k < nscen:
        sc = scenario(rng)
        if sc is None:
            continue
        ul, pre, steps, suffix, meta = sc
        for pi, perm in enumerate(itertools.permutations(steps)):
            ops = list(pre)
            for s in perm:
                ops += s.split('|')
            m = dict(meta)
            m['setup_len'] = len(ops)
            out.append(('scen%d/order%d' % (k, pi), ul, ops + suffix, m))
        k += 1
    return out


def gen(rng):
    return eng_gen.gen_history(rng, profile='projection')


def cross_order(rep, hists):
    """final values of all orders of one scenario agree on the implementation"""
    groups = {}
    for name, ul, script, meta, ol in hists:
        if name.startswith('scen'):
            groups.setdefault(name.split('/')[0], []).append((name, ul, ol, meta))
    eng_impl.set_penalty_base(0.5)
    compared = 0
    try:
        for g, members in groups.items():
            ref = None
            for name, ul, ol, meta in members:
                setup = ol[:meta['setup_len']]
                impl, _ = eng_oracle.run_ops(ul, setup)
                vals = eng_oracle.values(impl, meta)
                compared += 1
                if ref is None:
                    ref = (name, setup, vals)
                    continue
                for (c, a), (_, b) in zip(ref[2], vals):
                    if not same(c, a, b):
                        rep.violation({'kind': 'history', 'ulines': ul, 'ops': setup, 'other_order': ref[1],
                                       'fails': 'set-up order matters: %r is %s after order %s and %s after order %s'
                                                % (c, a, ref[0], b, name)})
                        return compared
    finally:
        eng_impl.set_penalty_base(None)
    return compared


def run(rep):
    res, hists = engcheck.run(rep, 'C13', PROP_FILE, gen, 60, 4000, ['all', 'some'], eng_oracle.oracle_c01, RULE,
                              extra_histories=permutation_histories, direct=15)
    rep.cov['exhaustive'] = True
    rep.cov['exhaustive_part'] = 'all 120 orders of the five set-up steps of each scenario'
    if not rep.violations:
        rep.cov['orders_compared_on_implementation'] = cross_order(rep, hists)


def replay(path):
    return engcheck.replay(path, eng_oracle.oracle_c01)
