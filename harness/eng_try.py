"""development helper: run N random histories, print first disagreements"""
import os, sys, random, json
sys.path.insert(0, os.path.dirname(os.path.abspath(__file__)))
import common
sys.path.insert(0, common.REPO)
import eng_gen, eng_run, eng_impl

n = int(sys.argv[1]) if len(sys.argv) > 1 else 20
seed = int(sys.argv[2]) if len(sys.argv) > 2 else 0
disc = sys.argv[3] if len(sys.argv) > 3 else 'all'
exe = common.build_driver('engine')
eng_impl.set_penalty_base(0.5)
pens = eng_impl.penalties()
rng = random.Random(seed)
hs = []
for k in range(n):
    ul, ol, meta = eng_gen.gen_history(rng)
    hs.append(eng_run.build_script(ul, ol, meta, disc, rng))
res = eng_run.run_histories(exe, hs, pens, eng_impl.Impl)
print('histories', res.histories, 'lines', res.lines, 'ops', res.ops, 'exact', res.exact_vals, 'inexact', res.inexact_vals, 'zerodiv', res.zero_div)
print('exn', res.exn_hist)
print('msgs', res.msg_hist, 'nontrivial', len(res.nontrivial))
print('ops', res.op_hist)
print('internal', len(res.internal), 'disagreements', len(res.disagreements))
for d in res.internal[:5]:
    print('INTERNAL', d)
for d in res.disagreements[:8]:
    print('DISAGREE', d)
    h = hs[d['history']]
    ops = [l for l, k in h[:d['index'] + 1] if k == 'op']
    print('   ops before:', ops[-12:])
