"""Small helpers for the fail-closed Python-ast translators."""
import ast
import os


class Shape(Exception):
    pass


def parse(repo, rel):
    p = os.path.join(repo, rel)
    return ast.parse(open(p).read(), filename=p)


def find_class(tree, name):
    for n in tree.body:
        if isinstance(n, ast.ClassDef) and n.name == name:
            return n
    raise Shape('class %s not found' % name)


def find_func(node, name):
    for n in node.body:
        if isinstance(n, (ast.FunctionDef,)) and n.name == name:
            return n
    raise Shape('function %s not found' % name)


def dotted(e):
    """a.b.c -> 'a.b.c' ; fails on anything else"""
    if isinstance(e, ast.Name):
        return e.id
    if isinstance(e, ast.Attribute):
        return dotted(e.value) + '.' + e.attr
    raise Shape('expected dotted name, got %s' % ast.dump(e)[:80])


def expect(cond, msg):
    if not cond:
        raise Shape(msg)


def const_num(e):
    if isinstance(e, ast.Constant) and isinstance(e.value, (int, float)) \
            and not isinstance(e.value, bool):
        return e.value
    if isinstance(e, ast.UnaryOp) and isinstance(e.op, ast.USub):
        return -const_num(e.operand)
    raise Shape('expected numeric constant, got %s' % ast.dump(e)[:80])


def enum_members(tree, clsname):
    """IntEnum/Enum class body of `name = int` assignments -> ordered dict"""
    cls = find_class(tree, clsname)
    out = {}
    for st in cls.body:
        if isinstance(st, ast.Expr) and isinstance(st.value, ast.Constant):
            continue  # docstring
        if isinstance(st, ast.Assign) and len(st.targets) == 1 and \
                isinstance(st.targets[0], ast.Name):
            out[st.targets[0].id] = const_num(st.value)
            continue
        if isinstance(st, ast.Pass):
            continue
        raise Shape('unexpected statement in enum %s: %s' %
                    (clsname, ast.dump(st)[:80]))
    return out
