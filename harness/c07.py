"""C07 — containers keep ownership and ordering invariants."""
import engcheck
import eng_gen
import eng_oracle

PROP_FILE = 'props/C07.v'
RULE = ('histories dominated by container calls (append/insert/place/equip/remove/free/clear on the three racks with '
        'negative, in-range and out-of-range indices, add/remove/clear on the seven sets, skill deletion by type id, '
        'single-slot and charge assignment; 18% failing calls), fits inside and outside solar systems; after every '
        'call the complete container contents and order, every item\'s own view of its owner and fit, are compared '
        'between the implementation and the model, whose rack functions are proved to be the documented list with '
        'holes; message_histogram.OpOutsideContainerHyp counts the generated calls that fall outside the hypotheses '
        '(fresh ids, existing fit) of the every-history consistency theorem, evaluated by the extracted op_okb; '
        'non-trivial = at least one AttrsValueChanged or EffectApplied delivered')


def gen(rng):
    return eng_gen.gen_history(rng, profile='containers')


def run(rep):
    engcheck.run(rep, 'C07', PROP_FILE, gen, 120, 6000, ['all'], eng_oracle.oracle_c07, RULE, direct=15)


def replay(path):
    return engcheck.replay(path, eng_oracle.oracle_c07)
