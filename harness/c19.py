"""C19 — modifier info conversion is total and faithful.

Observation point: ModBuilder().build({'effectID': 1, 'modifierInfo': infos})
-> (modifiers, status), with `infos` the already decoded JSON value (a list of
entries; that is what JsonDataHandler hands to the builder).  A case is
{'infos': [...]}; it is plain JSON (Python's json keeps NaN/Infinity, big ints
and bools), so a replay file is the input itself.
"""
import copy
import itertools
import json
import logging
import math
import random
import time

import common

PROP_FILE = 'props/C19.v'
TABLES = ['modinfo']
EXTRACT = 'extract/X_modinfo.vo'

MISSING = '<missing>'     # marker used only while generating cases


# ---------------------------------------------------------------------------
# shapes
# ---------------------------------------------------------------------------
KNOWN_FUNCS = ['ItemModifier', 'LocationModifier', 'LocationGroupModifier',
               'LocationRequiredSkillModifier', 'OwnerRequiredSkillModifier']
FUNC_SHAPES = KNOWN_FUNCS + [
    'GangItemModifier', 'itemmodifier', '', MISSING, None, 1, True, 1.5,
    ['ItemModifier'], {'a': 1}]
DOMAIN_SHAPES = [None, 'itemID', 'charID', 'shipID', 'targetID', 'otherID',
                 'gangID', 'shipid', MISSING, 1, True, 0.0, ['shipID'], {}]
OPERATION_SHAPES = [-1, 0, 1, 2, 3, 4, 5, 6, 7, 8, -2, 99, True, False, 6.0, -1.0,
                    1.5, float('nan'), float('inf'), '6', None, MISSING, [6], {}]
ID_FIELDS = ['modifiedAttributeID', 'modifyingAttributeID', 'groupID', 'skillTypeID']
ID_VALID = {'modifiedAttributeID': 22, 'modifyingAttributeID': 11,
            'groupID': 33, 'skillTypeID': 44}
ID3 = ['valid', MISSING, None]


def id_full(v):
    """Every id shape for a field whose plain valid value is v."""
    return [v, 0, -5, 2 ** 70, True, False, float(v), -0.0, 1.9, -1.9, 0.5, 1e300,
            float('nan'), float('inf'), float('-inf'), str(v), ' 2_2 ', '+7', '-7',
            '007', '\t8\n', '', ' ', 'abc', '1.0', '2_', '_2', '1__2', '+ 1', '1 2',
            '0x10', '1e3', None, MISSING, [v], {}]


NON_DICT = ['text', '', None, 5, True, 1.5, [], [1], ['func'], [{}]]

GRAMMAR_ALPHABET = ['1', '0', '_', '+', '-', ' ', '\t', '\n', 'a', '.', '\x1f']
GRAMMAR_ALPHABET_THOROUGH = GRAMMAR_ALPHABET + ['\r', '\x0b', '\x0c', '9']


def mk_entry(func, domain, operation, ids):
    e = {}
    for k, v in (('domain', domain), ('func', func), ('operation', operation)):
        if not (isinstance(v, str) and v == MISSING):
            e[k] = v
    for k, v in ids.items():
        if not (isinstance(v, str) and v == MISSING):
            e[k] = v
    return e


def ids_from(shapes):
    return {k: (ID_VALID[k] if isinstance(s, str) and s == 'valid' else s)
            for k, s in zip(ID_FIELDS, shapes)}


def exhaustive_space(tier):
    """The finite single-entry space; every element is enumerated."""
    out = []
    allvalid = dict(ID_VALID)
    # A x B: the full product of all function, domain and operation shapes with
    # {valid, missing, None}^4 ids (the four valid ids are distinct)
    for f, d, o in itertools.product(FUNC_SHAPES, DOMAIN_SHAPES, OPERATION_SHAPES):
        for sh in itertools.product(ID3, repeat=4):
            out.append(mk_entry(f, d, o, ids_from(sh)))
    glen = 3
    if tier != 'quick':
        # every pair of id fields with every pair of full id shapes
        for f in KNOWN_FUNCS:
            for k1, k2 in itertools.combinations(ID_FIELDS, 2):
                for s1 in id_full(ID_VALID[k1]):
                    for s2 in id_full(ID_VALID[k2]):
                        ids = dict(allvalid)
                        ids[k1], ids[k2] = s1, s2
                        out.append(mk_entry(f, 'charID', 6, ids))
        glen = 4
    # C: every full id shape in every id field, for every known function
    for f in KNOWN_FUNCS:
        for k in ID_FIELDS:
            for s in id_full(ID_VALID[k]):
                ids = dict(allvalid)
                ids[k] = s
                out.append(mk_entry(f, 'charID', 6, ids))
    # D: entries that are not dicts, and the empty dict
    out += copy.deepcopy(NON_DICT) + [{}]
    # E: int(str) grammar: every string over the alphabet up to length glen as an id
    alphabet = GRAMMAR_ALPHABET if tier == 'quick' else GRAMMAR_ALPHABET_THOROUGH
    for n in range(glen + 1):
        for t in itertools.product(alphabet, repeat=n):
            ids = dict(allvalid)
            ids['modifiedAttributeID'] = ''.join(t)
            out.append(mk_entry('ItemModifier', 'shipID', 6, ids))
    # F: no modifier info at all (None is what effect rows without it carry)
    return [{'infos': [e]} for e in out] + [{'infos': None}, {'infos': []}]


# ---------------------------------------------------------------------------
# sampled mixed lists
# ---------------------------------------------------------------------------
def rnd_id(rng, v):
    k = rng.random()
    if k < 0.5:
        return rng.choice([v, rng.randint(0, 60000), rng.randint(-10, 10)])
    if k < 0.6:
        return rng.choice([float(rng.randint(0, 5000)), str(rng.randint(0, 5000)),
                           True, ' %d ' % rng.randint(0, 99), 2 ** rng.randint(31, 90)])
    if k < 0.75:
        return ''.join(rng.choice(GRAMMAR_ALPHABET + ['2', '9'])
                       for _ in range(rng.randint(0, 6)))
    if k < 0.85:
        return rng.choice([rng.uniform(-50, 50), 1.9, 1e300, float('nan'), float('inf'),
                           rng.randint(0, 99) + 0.5])
    return rng.choice(id_full(v))


def rnd_entry(rng):
    k = rng.random()
    if k < 0.08:
        return copy.deepcopy(rng.choice(NON_DICT))
    func = rng.choice(KNOWN_FUNCS)
    if func == 'OwnerRequiredSkillModifier':
        domain = 'charID' if rng.random() < 0.7 else rng.choice(DOMAIN_SHAPES)
    else:
        domain = rng.choice([None, 'itemID', 'charID', 'shipID', 'targetID', 'otherID'])
    operation = rng.choice([-1, 0, 1, 2, 3, 4, 5, 6, 7])
    ids = {f: rng.choice([ID_VALID[f], rng.randint(1, 60000)]) for f in ID_FIELDS}
    if k >= 0.5:      # break or vary 1-3 things
        for _ in range(rng.randint(1, 3)):
            w = rng.randrange(7)
            if w == 0:
                func = rng.choice(FUNC_SHAPES + ['ItemModifi\u00e9r', 'Item\x00Modifier'])
            elif w == 1:
                domain = rng.choice(DOMAIN_SHAPES + ['\u0448ipID', 'shipID '])
            elif w == 2:
                operation = rng.choice(OPERATION_SHAPES + [rng.randint(-3, 12)])
            else:
                f = ID_FIELDS[w - 3]
                ids[f] = rnd_id(rng, ID_VALID[f])
    if rng.random() < 0.3:      # handlers that do not read it must ignore it
        for f in ('groupID', 'skillTypeID'):
            if rng.random() < 0.5:
                ids[f] = MISSING
    e = mk_entry(func, domain, operation, ids)
    if rng.random() < 0.15:     # keys nobody reads
        e[rng.choice(['aggregate', 'x', 'Func', 'domainID'])] = rng.choice([1, 'a', None, [1]])
    if rng.random() < 0.3:      # key order must not matter
        items = list(e.items())
        rng.shuffle(items)
        e = dict(items)
    return e


def gen_lists(rng, n):
    out = []
    for _ in range(n):
        k = rng.random()
        ln = 0 if k < 0.02 else rng.randint(1, 8) if k < 0.9 else rng.randint(9, 40)
        out.append({'infos': [rnd_entry(rng) for _ in range(ln)]})
    return out


def entries_of(case):
    """`if mod_info:` treats None like the empty list."""
    return case['infos'] or []


def nontrivial(case):
    return any(isinstance(e, dict) and isinstance(e.get('func'), str) and
               e['func'] in KNOWN_FUNCS for e in entries_of(case))


# ---------------------------------------------------------------------------
# implementation side
# ---------------------------------------------------------------------------
MOD_FIELDS = ['affectee_filter', 'affectee_filter_extra_arg', 'affectee_domain',
              'affectee_attr_id', 'operator', 'aggregate_mode', 'aggregate_key',
              'affector_attr_id']


def canon_field(v):
    if v is None:
        return None
    if isinstance(v, int) and not isinstance(v, bool):
        return int(v)
    return 'non-int:%r' % (v,)


def run_impl(case):
    from eos.const.eos import EffectBuildStatus
    from eos.eve_obj_builder.mod_builder import ModBuilder
    # through the JSON codec, as JsonDataHandler delivers it
    row = {'effectID': 1, 'modifierInfo': json.loads(json.dumps(case['infos']))}
    try:
        mods, status = ModBuilder().build(row)
    except Exception as e:  # noqa
        return ['raise', type(e).__name__]
    if not isinstance(status, EffectBuildStatus):
        return ['bad-status', repr(status)]
    return ['ok', int(status),
            [[canon_field(getattr(m, f)) for f in MOD_FIELDS] for m in mods]]


# ---------------------------------------------------------------------------
# model side
# ---------------------------------------------------------------------------
def bits(n):
    if n == 0:
        return '0'
    return ('-' if n < 0 else '') + bin(abs(n))[2:]


def hexs(s):
    return s.encode('utf-8', 'surrogatepass').hex()


def value_token(v):
    if v is None:
        return 'none'
    if isinstance(v, bool):
        return 'b1' if v else 'b0'
    if isinstance(v, int):
        return 'i' + bits(v)
    if isinstance(v, float):
        if math.isnan(v):
            return 'nan'
        if math.isinf(v):
            return 'inf'
        n, d = v.as_integer_ratio()
        return 'f%s/%s' % (bits(n), bits(d))
    if isinstance(v, str):
        return 's' + hexs(v)
    if isinstance(v, (list, dict)):
        return 'u'
    raise ValueError('not a JSON value: %r' % (v,))


def model_line(case):
    toks = ['L']
    for e in entries_of(case):
        if isinstance(e, dict):
            toks += ['D', str(len(e))]
            for k, v in e.items():
                toks += ['x' + hexs(k), value_token(v)]
        else:
            toks.append('N')
    return ' '.join(toks)


def parse_model(line):
    t = line.split()
    if t[0] == 'escaped':
        return ['raise', t[1]]
    if t[0] != 'ok':
        return ['model-error', line]
    mods = []
    for m in t[3:]:
        mods.append([None if x == '-' else int(x, 2) for x in m.split(',')])
    assert len(mods) == int(t[2])
    return ['ok', int(t[1], 2), mods]


def in_model_domain(case):
    """Strings used as ids must be ASCII and short (the model's int(str) does
    not know Unicode digits/spaces nor CPython's 4300-digit limit)."""
    for e in entries_of(case):
        if isinstance(e, dict):
            for f in ID_FIELDS:
                v = e.get(f)
                if isinstance(v, str) and (not v.isascii() or len(v) > 4000):
                    return False
    return True


# ---------------------------------------------------------------------------
# direct oracle: the property itself on the implementation's output.
# Own constants (the documented maps); shares nothing with the Coq model.
# ---------------------------------------------------------------------------
O_FUNCS = {'ItemModifier': (1, None), 'LocationModifier': (2, None),
           'LocationGroupModifier': (3, 'groupID'),
           'LocationRequiredSkillModifier': (4, 'skillTypeID'),
           'OwnerRequiredSkillModifier': (5, 'skillTypeID')}
O_DOMAINS = {None: 1, 'itemID': 1, 'charID': 2, 'shipID': 3, 'targetID': 4, 'otherID': 5}
O_OPERATORS = {-1: 1, 0: 2, 1: 3, 2: 4, 3: 5, 4: 6, 5: 8, 6: 9, 7: 10}
O_SUPPORTED = {1: {1, 2, 3, 4, 5}, 2: {1, 2, 3, 4}, 3: {1, 2, 3, 4}, 4: {1, 2, 3, 4}, 5: {2}}
O_SUCCESS, O_PARTIAL, O_ERROR = 4, 3, 2
NO = object()


def o_number(v):
    """The integer a JSON number denotes, else NO (a bool is an int in Python)."""
    if isinstance(v, int):
        return int(v)
    if isinstance(v, float) and math.isfinite(v) and v == math.floor(v):
        return int(v)
    return NO


def o_id(e, key):
    if key not in e:
        return NO
    v = e[key]
    if isinstance(v, str):
        # an integer literal as Python (not eos) reads it
        try:
            return int(v)
        except ValueError:
            return NO
    return o_number(v)


def o_entry(e):
    """Modifier a well-formed entry stands for, or None when malformed."""
    if not isinstance(e, dict):
        return None
    f = e.get('func', NO)
    if not isinstance(f, str) or f not in O_FUNCS:
        return None
    filt, extra_key = O_FUNCS[f]
    d = e.get('domain', NO)
    if not (d is None or isinstance(d, str)) or d not in O_DOMAINS:
        return None
    dom = O_DOMAINS[d]
    c = o_number(e.get('operation', NO))
    if c is NO or c not in O_OPERATORS:
        return None
    extra = None
    if extra_key is not None:
        extra = o_id(e, extra_key)
    attr = o_id(e, 'modifiedAttributeID')
    aff = o_id(e, 'modifyingAttributeID')
    if NO in (extra, attr, aff) or dom not in O_SUPPORTED[filt]:
        return None
    return [filt, extra, dom, attr, O_OPERATORS[c], 1, None, aff]


def oracle(case, iobs):
    infos = entries_of(case)
    if iobs[0] != 'ok':
        return 'build did not return: %s' % (iobs[1:],)
    want = [o_entry(e) for e in infos]
    mods = [m for m in want if m is not None]
    bad = len(want) - len(mods)
    status = O_SUCCESS if bad == 0 else O_PARTIAL if mods else O_ERROR
    if iobs[2] != mods:
        return ('modifiers differ: %d well-formed / %d malformed entries should give %s, '
                'build returned %s' % (len(mods), bad, mods, iobs[2]))
    if iobs[1] != status:
        return ('status %d, but %d well-formed / %d malformed entries require %d'
                % (iobs[1], len(mods), bad, status))
    return None


def shrink(case, fails):
    """Smallest sublist on which `fails` still holds (single entries first)."""
    infos = entries_of(case)
    for e in infos:
        c = {'infos': [e]}
        if fails(c):
            return c
    cur = list(infos)
    changed = True
    while changed and len(cur) > 1:
        changed = False
        for k in range(len(cur)):
            c = {'infos': cur[:k] + cur[k + 1:]}
            if fails(c):
                cur = c['infos']
                changed = True
                break
    return {'infos': cur}


# ---------------------------------------------------------------------------
def histogram(h, k):
    h[str(k)] = h.get(str(k), 0) + 1


def run(rep):
    logging.disable(logging.CRITICAL)
    try:
        _run(rep)
    finally:
        logging.disable(logging.NOTSET)


def _run(rep):
    rng = random.Random(rep.seed)
    quick = rep.tier == 'quick'
    proved = common.prove(rep, PROP_FILE, TABLES, [EXTRACT])
    if proved and not quick:
        common.coqchk(rep, PROP_FILE)
    if not proved:
        # the model does not depend on the proofs: still extract it from the
        # tables just generated, so that it follows the source under test
        with common.Lock():
            common.coq_make([EXTRACT])
    t0 = time.time()
    corpus = common.load_corpus('C19')
    space = exhaustive_space(rep.tier)
    lists = gen_lists(rng, 500 if quick else 50000)
    cases = corpus + space + lists
    iobs = [run_impl(c) for c in cases]
    rep.cov['evaluations'] = len(cases)
    rep.cov['exhaustive'] = True
    rep.cov['exhaustive_single_entry_cases'] = len(space)
    rep.cov['sampled_lists'] = len(lists)
    rep.cov['corpus_cases'] = len(corpus)
    rep.cov['rule'] = (
        'EXHAUSTIVE part (exhaustive=True refers to it): every single-entry list of the finite '
        'space AB: %d function shapes x %d domain shapes x %d operation shapes x {valid, missing, '
        'None}^4 ids (full product, valid ids distinct per field); ' % (
            len(FUNC_SHAPES), len(DOMAIN_SHAPES), len(OPERATION_SHAPES)) +
        ('' if quick else 'P: each known function x every pair of id fields x every pair of the '
         '%d full id shapes; ' % len(id_full(1))) +
        'C: each known function x each id field x each of %d id shapes (ints, bools, integral / '
        'fractional / huge / non-finite floats, integer-literal and other strings, None, missing, '
        'list, dict); D: %d non-dict entries and the empty dict; E: every string over an %d-letter '
        'alphabet up to length %d as an id (int() grammar); F: modifierInfo None and []. Shapes per slot: known names, unknown and '
        'case-changed strings, missing key, None, int, bool, float, list, dict. '
        'SAMPLED part: %d random lists (0-40 entries, ~50%% well-formed entries, 1-3 random '
        'malformations otherwise, extra keys, shuffled key order, non-dict entries). '
        'Compared per case: exception class or (status, [filter, extra arg, domain, affectee attr, '
        'operator, aggregate mode, aggregate key, affector attr] per modifier, in order), exactly. '
        'non-trivial = some entry is a dict naming one of the five known functions; distinct by '
        'JSON content' % (len(id_full(1)), len(NON_DICT),
                          len(GRAMMAR_ALPHABET if quick else GRAMMAR_ALPHABET_THOROUGH),
                          3 if quick else 4, len(lists)))
    rep.cov['distinct_nontrivial'] = len({json.dumps(c['infos'], sort_keys=True)
                                                          for c in cases if nontrivial(c)})
    sample_ix = [len(corpus) + 7, len(corpus) + len(space) + 3]
    rep.cov['samples'] = [{'case': cases[k], 'impl': iobs[k]} for k in sample_ix]
    hs, hn, hl = {}, {}, {}
    for c, o in zip(cases, iobs):
        histogram(hs, o[1] if o[0] == 'ok' else 'raise:' + str(o[1]))
        if o[0] == 'ok':
            histogram(hn, len(o[2]))
        histogram(hl, len(entries_of(c)))
    rep.cov['status_histogram'] = hs
    rep.cov['modifier_count_histogram'] = hn
    rep.cov['list_length_histogram'] = hl
    disagreements = []
    try:
        exe = common.build_driver('modinfo')
        ix = [k for k, c in enumerate(cases) if in_model_domain(c)]
        out = common.run_driver(exe, [model_line(cases[k]) for k in ix])
        for k, line in zip(ix, out):
            mobs = parse_model(line)
            if mobs != iobs[k]:
                disagreements.append((k, mobs))
        rep.cov['traces_validated_against_impl'] = len(ix)
        rep.cov['outside_model_domain'] = len(cases) - len(ix)
    except common.TieBroken as e:
        rep.broken.append('%s: %s' % (e.what, e.detail))
    rep.cov['correspondence_s'] = round(time.time() - t0, 2)
    finish(rep, cases, iobs, disagreements)


def finish(rep, cases, iobs, disagreements):
    """Decide: holds / violation with input / violation without input."""
    if not rep.broken and not disagreements:
        return
    # search: direct oracle on disagreeing cases first, then on everything
    order = [k for k, _ in disagreements] + list(range(len(cases)))
    seen = set()
    for k in order:
        if k in seen:
            continue
        seen.add(k)
        why = oracle(cases[k], iobs[k])
        if why:
            small = shrink(cases[k], lambda c: oracle(c, run_impl(c)) is not None)
            sobs = run_impl(small)
            rep.violation({'kind': 'input', 'case': small, 'impl': sobs,
                           'fails': oracle(small, sobs), 'found_in': cases[k],
                           'broken': rep.broken,
                           'model': next((m for kk, m in disagreements if kk == k), None)})
            return
    rep.violation({'kind': 'obligation', 'broken': rep.broken,
                   'disagreements': [{'case': cases[k], 'impl': iobs[k], 'model': m}
                                     for k, m in disagreements[:3]]},
                  found_input=False)


def replay(path):
    logging.disable(logging.CRITICAL)
    r = json.load(open(path))
    if 'case' not in r:
        print(json.dumps(r, indent=1)[:3000])
        return 1
    iobs = run_impl(r['case'])
    why = oracle(r['case'], iobs)
    print('modifierInfo:', json.dumps(r['case']['infos']))
    print('impl:', iobs)
    print('oracle:', why or 'property holds on this input')
    return 1 if why else 0
