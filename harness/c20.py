"""C20 — range queries form a metric on item positions."""
import json
import math
import random
from fractions import Fraction

import common
from eosenv import mksource, qstr, parse_q

PROP_FILE = 'props/C20.v'
TABLES = ['range']

REL = 1e-9


# ---------------------------------------------------------------------------
# cases
# ---------------------------------------------------------------------------

def rnd_coord(rng):
    k = rng.random()
    if k < 0.15:
        return float(rng.randint(-5, 5))
    if k < 0.5:
        return rng.uniform(-1e4, 1e4)
    if k < 0.7:
        return rng.uniform(-1e13, 1e13)
    if k < 0.8:
        return rng.choice([-1, 1]) * 10 ** rng.uniform(20, 100)
    if k < 0.9:
        return rng.randint(-10 ** 6, 10 ** 6)  # python int
    return rng.choice([0.0, -0.0, 1e-300, 0.5, -2.5])


def rnd_item(rng, base=None):
    cls = rng.choice(['ship', 'drone', 'fighter'])
    k = rng.random()
    where = 'self' if k < 0.75 else rng.choice(['other', 'nosys', 'nofit', 'removed', 'cleared', 'moved', 'taken_out'])
    if base is not None and rng.random() < 0.2:
        coord = list(base)
    else:
        coord = [rnd_coord(rng) for _ in range(3)]
    k = rng.random()
    if k < 0.2:
        radius = None
    elif k < 0.8:
        radius = rng.choice([rng.uniform(0, 5000), float(rng.randint(0, 50)),
                             rng.randint(1, 100)])
    else:
        # radius comparable to the distance, to hit the max(0, .) boundary
        radius = abs(rnd_coord(rng))
    # position history: the item may be turned (orientation) and moved again; only the last coordinate counts
    k = rng.random()
    orient = [rng.choice([-1, 0, 1, 0.5]) for _ in range(3)] if k < 0.5 else None
    if orient is not None and not any(orient):
        orient[rng.randrange(3)] = 1          # the zero vector is rejected by Orientation itself
    orient_when = rng.choice(['after', 'before', 'between'])
    first = [rnd_coord(rng) for _ in range(3)] if rng.random() < 0.3 else None
    return {'cls': cls, 'where': where, 'coord': coord, 'radius': radius,
            'loaded': rng.random() < 0.9, 'orient': orient, 'orient_when': orient_when, 'first_coord': first,
            # a replacement of the placed item by one that belongs elsewhere is attempted and refused
            'rejected': rng.random() < 0.2}


def gen_cases(rng, n):
    cases = []
    for _ in range(n):
        a = rnd_item(rng)
        b = rnd_item(rng, a['coord'])
        c = rnd_item(rng, b['coord'])
        if rng.random() < 0.5:
            # near the overlap boundary: radii summing close to the distance
            d = math.sqrt(sum((Fraction(x) - Fraction(y)) ** 2
                              for x, y in zip(a['coord'], b['coord'])))
            if math.isfinite(d):
                f = rng.choice([0.5, 0.999, 1.0, 1.001, 2.0])
                a['radius'] = d * f * 0.25
                b['radius'] = d * f * 0.75
        cases.append({'items': [a, b, c]})
    return cases


def nontrivial(case):
    a, b = case['items'][0], case['items'][1]
    return a['coord'] != b['coord'] and a['where'] == b['where'] == 'self'


# ---------------------------------------------------------------------------
# implementation side
# ---------------------------------------------------------------------------

def build_world(case):
    from eos import Fit, SolarSystem, Ship, Drone, FighterSquad, Coordinates
    from eos.const.eve import AttrId
    src, ch = mksource()
    solsys = SolarSystem(source=src)
    other = SolarSystem(source=src)
    items = []
    for k, it in enumerate(case['items']):
        tid = 1000 + k
        attrs = {}
        if it['radius'] is not None:
            attrs[AttrId.radius] = it['radius']
        if it['loaded']:
            ch.mktype(tid, attrs=attrs)
        cls = {'ship': Ship, 'drone': Drone, 'fighter': FighterSquad}[it['cls']]
        obj = cls(tid)
        from eos import Orientation
        orient = it.get('orient')
        if orient is not None and it.get('orient_when') == 'before':
            obj.orientation = Orientation(*orient)
        if it.get('first_coord') is not None:
            obj.coordinate = Coordinates(*it['first_coord'])
            if orient is not None and it.get('orient_when') == 'between':
                obj.orientation = Orientation(*orient)
        obj.coordinate = Coordinates(*it['coord'])
        if orient is not None and (it.get('orient_when') == 'after' or
                                   (it.get('orient_when') == 'between' and it.get('first_coord') is None)):
            obj.orientation = Orientation(*orient)
        if it['where'] != 'nofit':
            fit = Fit(solar_system={'self': solsys, 'other': other, 'nosys': None, 'removed': solsys,
                                    'cleared': solsys, 'moved': solsys, 'taken_out': solsys}[it['where']])
            if it['cls'] == 'ship':
                fit.ship = obj
            elif it['cls'] == 'drone':
                fit.drones.add(obj)
            else:
                fit.fighters.add(obj)
        items.append(obj)
        if it.get('rejected') and it['where'] != 'nofit':
            # documented: assigning an item that already belongs somewhere raises ValueError and changes nothing
            elsewhere = Fit()
            taken = cls(tid)
            if it['cls'] == 'ship':
                elsewhere.ship = taken
            elif it['cls'] == 'drone':
                elsewhere.drones.add(taken)
            else:
                elsewhere.fighters.add(taken)
            try:
                if it['cls'] == 'ship':
                    fit.ship = taken
                elif it['cls'] == 'drone':
                    fit.drones.add(taken)
                else:
                    fit.fighters.add(taken)
            except ValueError:
                pass
            # ... and so is adding the very item a second time to the container it is in
            try:
                if it['cls'] == 'drone':
                    fit.drones.add(obj)
                elif it['cls'] == 'fighter':
                    fit.fighters.add(obj)
            except ValueError:
                pass
    # fits that were in the queried solar system and left it again
    for k, it in enumerate(case['items']):
        fit = items[k]._fit
        if it['where'] == 'removed':
            solsys.fits.remove(fit)
        elif it['where'] == 'moved':
            solsys.fits.remove(fit)
            other.fits.add(fit)
    # items taken out of their fit again (the container emptied / the slot cleared)
    for k, it in enumerate(case['items']):
        if it['where'] == 'taken_out':
            fit = items[k]._fit
            if it['cls'] == 'ship':
                fit.ship = None
            elif it['cls'] == 'drone':
                fit.drones.clear()
            else:
                fit.fighters.clear()
    if any(it['where'] == 'cleared' for it in case['items']):
        keep = [items[k]._fit for k, it in enumerate(case['items']) if it['where'] == 'self']
        solsys.fits.clear()
        for f in keep:
            if f.solar_system is None:
                solsys.fits.add(f)
    return solsys, items


def call(fn, *a):
    try:
        v = fn(*a)
        return ['ok', v]
    except Exception as e:  # noqa
        return ['raise', type(e).__name__]


PAIRS = [(0, 1), (1, 0), (1, 2), (0, 2), (0, 0)]


def run_impl(case):
    try:
        solsys, items = build_world(case)
    except Exception as e:  # noqa: a documented-valid placement sequence raised
        return {'build_error': ['raise', type(e).__name__]}
    obs = {}
    for (i, j) in PAIRS:
        obs['ctc%d%d' % (i, j)] = call(solsys.get_ctc_range, items[i], items[j])
        obs['sts%d%d' % (i, j)] = call(solsys.get_sts_range, items[i], items[j])
    return obs


# ---------------------------------------------------------------------------
# model side
# ---------------------------------------------------------------------------

def item_tokens(it):
    w = {'self': '1', 'other': '2', 'nosys': '-', 'nofit': '-', 'removed': '-', 'cleared': '-', 'moved': '2',
         'taken_out': '-'}[it['where']]
    r = it['radius'] if (it['radius'] is not None and it['loaded']) else 0
    return [qstr(c) for c in it['coord']] + [w, qstr(r)]


def model_lines(case):
    lines = []
    for (i, j) in PAIRS:
        toks = item_tokens(case['items'][i]) + item_tokens(case['items'][j])
        lines.append('ctc 1 ' + ' '.join(toks))
        lines.append('sts 1 ' + ' '.join(toks))
    return lines


def parse_model(out):
    obs = {}
    it = iter(out)
    for (i, j) in PAIRS:
        obs['ctc%d%d' % (i, j)] = next(it).split()
        obs['sts%d%d' % (i, j)] = next(it).split()
    return obs


# ---------------------------------------------------------------------------
# comparison (model vs implementation) and direct oracle (implementation only)
# ---------------------------------------------------------------------------

def close(x, y, rel=REL):
    return abs(x - y) <= rel * max(abs(x), abs(y)) or abs(x - y) < 1e-300


def compare(case, iobs, mobs):
    """None when implementation and model agree, else a description."""
    if 'build_error' in iobs:
        return 'placing the items through the public API raised %s' % iobs['build_error'][1]
    for key, iv in iobs.items():
        mv = mobs[key]
        if mv[0] == 'mismatch':
            if iv != ['raise', 'ItemSolarSystemMismatchError']:
                return '%s: model mismatch, impl %s' % (key, iv)
            continue
        if iv[0] != 'ok':
            return '%s: model ok, impl %s' % (key, iv)
        v = iv[1]
        if not isinstance(v, (int, float)) or isinstance(v, bool) or v != v:
            return '%s: impl returned %r' % (key, v)
        if key.startswith('ctc'):
            d = parse_q(mv[1])
            if v < 0 or not close(Fraction(v) ** 2, d):
                return '%s: impl %r, model sqrt(%s)' % (key, v, float(d))
        else:
            zero = mv[1] == 'zero'
            rsum = parse_q(mv[2])
            d = parse_q(mv[3])
            # margin: distance of sqrt(d) from rsum relative to their size
            sd = math.sqrt(d)
            margin = abs(sd - float(rsum)) / max(sd, abs(float(rsum)), 1e-300)
            if margin < 1e-6:
                if v < 0:
                    return '%s: negative sts %r' % (key, v)
                case.setdefault('ambiguous', 0)
                case['ambiguous'] += 1
                continue
            if zero:
                if v != 0:
                    return '%s: impl %r, model 0' % (key, v)
            else:
                if v <= 0 or not close((Fraction(v) + rsum) ** 2, d, 1e-6):
                    return '%s: impl %r, model sqrt(%s)-%s' % (
                        key, v, float(d), float(rsum))
    return None


def oracle(case, iobs):
    """Direct statement of the property on the implementation's outputs."""
    its = case['items']
    if 'build_error' in iobs:
        return ('moving fits between solar systems (add / remove / clear / add elsewhere) raised %s'
                % iobs['build_error'][1])
    pos = [[Fraction(c) for c in it['coord']] for it in its]

    def eu(i, j):
        return math.sqrt(sum((a - b) ** 2 for a, b in zip(pos[i], pos[j])))

    def rad(i):
        it = its[i]
        return it['radius'] if (it['radius'] is not None and it['loaded']) else 0
    for (i, j) in PAIRS:
        both = its[i]['where'] == 'self' and its[j]['where'] == 'self'
        for q in ('ctc', 'sts'):
            o = iobs['%s%d%d' % (q, i, j)]
            if not both:
                if o != ['raise', 'ItemSolarSystemMismatchError']:
                    return '%s(%d,%d) on items outside the solar system gave %s' % (q, i, j, o)
                continue
            if o[0] != 'ok':
                return '%s(%d,%d) raised %s' % (q, i, j, o[1])
            want = eu(i, j)
            if q == 'sts':
                want = max(0, want - rad(i) - rad(j))
                if o[1] < 0:
                    return 'sts(%d,%d) negative: %r' % (i, j, o[1])
                if abs(o[1] - want) > 1e-6 * max(eu(i, j), abs(rad(i) + rad(j)), 1e-300):
                    return 'sts(%d,%d) = %r, expected %r' % (i, j, o[1], want)
            elif not close(o[1], want):
                return 'ctc(%d,%d) = %r, expected %r' % (i, j, o[1], want)
    # metric laws
    if all(it['where'] == 'self' for it in its):
        g = lambda i, j: iobs['ctc%d%d' % (i, j)][1]  # noqa
        if g(0, 1) != g(1, 0):
            return 'ctc not symmetric: %r vs %r' % (g(0, 1), g(1, 0))
        if g(0, 0) != 0:
            return 'ctc(x,x) = %r' % g(0, 0)
        if g(0, 2) > (g(0, 1) + g(1, 2)) * (1 + 1e-12):
            return 'triangle inequality fails: %r > %r + %r' % (g(0, 2), g(0, 1), g(1, 2))
    return None


# ---------------------------------------------------------------------------

def run(rep):
    rng = random.Random(rep.seed)
    n = 2000 if rep.tier == 'quick' else 60000
    proved = common.prove(rep, PROP_FILE, TABLES, ['extract/X_range.vo'])
    if proved and rep.tier == 'thorough':
        common.coqchk(rep, PROP_FILE)
    cases = common.load_corpus('C20') + gen_cases(rng, n)
    rep.cov['rule'] = (
        'triples of in-space items (ship/drone/fighter squad) with random coordinates '
        '(small ints, 1e4, 1e13, up to 1e100, python ints, equal positions), radii (absent, '
        'small, comparable to the distance incl. the overlap boundary), placement (queried '
        'solar system / another / fit without solar system / no fit), loaded or not; each '
        'triple queried with ctc and sts on 5 ordered pairs; non-trivial = both of the first '
        'two items in the queried solar system at different positions; distinct by content')
    iobs = [run_impl(c) for c in cases]
    rep.cov['evaluations'] = len(cases) * len(PAIRS) * 2
    rep.cov['distinct_nontrivial'] = len({json.dumps(c['items'], sort_keys=True)
                                          for c in cases if nontrivial(c)})
    rep.cov['samples'] = [{'case': cases[k], 'impl': iobs[k]} for k in range(2)]
    rep.cov['placement_histogram'] = {}
    for c in cases:
        for it in c['items']:
            h = rep.cov['placement_histogram']
            h[it['where']] = h.get(it['where'], 0) + 1
    disagreements = []
    model_ok = True
    try:
        exe = common.build_driver('range')
        lines = []
        for c in cases:
            lines += model_lines(c)
        out = common.run_driver(exe, lines)
        per = len(PAIRS) * 2
        for k, c in enumerate(cases):
            mobs = parse_model(out[k * per:(k + 1) * per])
            d = compare(c, iobs[k], mobs)
            if d:
                disagreements.append((k, d, mobs))
        rep.cov['traces_validated_against_impl'] = len(cases)
        rep.cov['numerically_ambiguous'] = sum(c.get('ambiguous', 0) for c in cases)
    except common.TieBroken as e:
        model_ok = False
        rep.broken.append('%s: %s' % (e.what, e.detail))
    finish(rep, cases, iobs, disagreements)


def finish(rep, cases, iobs, disagreements):
    """Decide: holds / violation with input / violation without input."""
    if not rep.broken and not disagreements:
        return
    # search: direct oracle on disagreeing cases first, then on everything
    order = [k for k, _, _ in disagreements] + list(range(len(cases)))
    seen = set()
    for k in order:
        if k in seen:
            continue
        seen.add(k)
        why = oracle(cases[k], iobs[k])
        if why:
            rep.violation({'kind': 'input', 'case': cases[k], 'impl': iobs[k],
                           'fails': why, 'broken': rep.broken,
                           'disagreement': next((d for kk, d, _ in disagreements if kk == k), None)})
            return
    rep.violation({'kind': 'obligation', 'broken': rep.broken,
                   'disagreements': [{'case': cases[k], 'impl': iobs[k], 'model': m, 'what': d}
                                     for k, d, m in disagreements[:3]]},
                  found_input=False)


def replay(path):
    r = json.load(open(path))
    if 'case' not in r:
        print(json.dumps(r, indent=1)[:3000])
        return 1
    iobs = run_impl(r['case'])
    why = oracle(r['case'], iobs)
    print('impl:', iobs)
    print('oracle:', why or 'property holds on this input')
    return 1 if why else 0
