"""C08 — results do not depend on notification order or hash iteration order."""
import itertools
import json
import os
import random
import subprocess

import common
import engcheck
import eng_gen
import eng_impl
import eng_oracle
import eng_run

PROP_FILE = 'props/C08.v'
RULE = ('histories as in C01, each executed on the real eos with the EOS_VERIF hooks under several schedules: '
        'subscriber delivery order per publication {sorted, reversed, seeded shuffles, all 24 orders of the '
        'calculator / simulator / statistics / restriction classes for short programs} x item-hash salts x '
        'PYTHONHASHSEED; every schedule is compared line by line (values, running effects, containers, exceptions; '
        'not the cached-key sets, which legitimately depend on who read first) with the first schedule and with '
        'the model (which has one fixed order); non-trivial = at least one AttrsValueChanged or EffectApplied delivered')

CLASSES = ['Calculation', 'ReactiveArmor', 'Stat', 'Restriction']


def run_configs(histories, configs, hashseed, penalty_base=0.5):
    env = dict(os.environ)
    env.update({'EOS_VERIF': '1', 'PYTHONHASHSEED': str(hashseed), 'PYTHONPATH': common.REPO,
                'PYTHONDONTWRITEBYTECODE': '1'})
    p = subprocess.run([common.PY, os.path.join(common.VERIF, 'harness', 'c08_impl.py')],
                       input=json.dumps({'histories': histories, 'configs': configs, 'penalty_base': penalty_base}),
                       stdout=subprocess.PIPE, stderr=subprocess.PIPE, text=True, env=env, timeout=3000)
    if p.returncode != 0:
        raise RuntimeError('c08 runner failed: ' + p.stderr[-2000:])
    return json.loads(p.stdout)


def strip(l):
    return l.split(' cached=')[0] if l.startswith('item ') else l


def oracle(ulines, lines, meta):
    """two schedules give different observations on the implementation"""
    script = ulines + lines
    cfgs = [dict(order_seed=0, salt=0, mode='sorted'), dict(order_seed=1, salt=7, mode='reverse'),
            dict(order_seed=2, salt=13, mode='shuffle')]
    outs = run_configs([script], cfgs, 0)
    ref = outs[0][0]
    for c, o in zip(cfgs[1:], outs[1:]):
        for k, (a, b) in enumerate(zip(ref, o[0])):
            if script[k].startswith(('keys', 'regs', 'counters')):
                continue
            if not eng_run.same(script[k], strip(a), strip(b)):
                return dict(fails='schedule %s differs from the sorted schedule at %r: %s vs %s' %
                                  (c, script[k], a, b), upto=max(0, k - len(ulines)))
    return None


def run(rep):
    res, hists = engcheck.run(rep, 'C08', PROP_FILE, eng_gen.gen_history, 50, 3000, ['all', 'some'],
                              oracle, RULE, real_penalty_share=0.0)
    if rep.violations:
        return
    rng = random.Random(rep.seed + 1)
    nh = 40 if rep.tier == 'quick' else 1500
    sample = [h for h in hists if h[0].startswith('gen')][:nh]
    def with_services(h):
        out = list(h[1])
        for l, k in h[2]:
            if l.startswith(('u_', 'commit')):
                continue
            out.append(l)
            if k == 'op' and not l.startswith(('new', 'fit ', 'solsys')):
                # statistics and validation are services too: observe them on the implementation
                for f in h[3]['fits']:
                    out.append('stats %d' % f)
                    out.append('validate %d' % f)
        return out
    scripts = [with_services(h) for h in sample]
    cfgs = [dict(order_seed=0, salt=0, mode='sorted'), dict(order_seed=1, salt=0, mode='reverse'),
            dict(order_seed=2, salt=11, mode='shuffle'), dict(order_seed=3, salt=23, mode='shuffle')]
    short = [k for k, s in enumerate(scripts) if len(sample[k][4]) <= (60 if rep.tier == 'quick' else 80)]
    perm_cfgs = [dict(order_seed=0, salt=5, mode='class:' + ','.join(p)) for p in itertools.permutations(CLASSES)]
    total = 0
    for hashseed in ((0, 1) if rep.tier == 'quick' else (0, 1, 2, 3)):
        outs = run_configs(scripts, cfgs, hashseed)
        ref = outs[0]
        for ci, o in enumerate(outs):
            for hi, lines in enumerate(o):
                total += 1
                for k, (a, b) in enumerate(zip(ref[hi], lines)):
                    cmd = scripts[hi][k]
                    if cmd.startswith(('keys', 'regs', 'counters')):
                        continue
                    if not eng_run.same(cmd, strip(a), strip(b)):
                        rep.violation({'kind': 'history', 'ulines': sample[hi][1],
                                       'ops': [x for x in scripts[hi][len(sample[hi][1]):k + 1]],
                                       'fails': 'schedule %s (PYTHONHASHSEED=%d) differs from the sorted schedule '
                                                'at %r: %s vs %s' % (cfgs[ci], hashseed, cmd, a, b)})
                        return
    if short:
        sub = [scripts[k] for k in short[:10 if rep.tier == 'quick' else 200]]
        outs = run_configs(sub, perm_cfgs, 0)
        ref = outs[0]
        for ci, o in enumerate(outs):
            for hi, lines in enumerate(o):
                total += 1
                for k, (a, b) in enumerate(zip(ref[hi], lines)):
                    cmd = sub[hi][k]
                    if cmd.startswith(('keys', 'regs', 'counters')):
                        continue
                    if not eng_run.same(cmd, strip(a), strip(b)):
                        rep.violation({'kind': 'history', 'ops': sub[hi][:k + 1],
                                       'fails': 'class order %s differs at %r: %s vs %s' % (perm_cfgs[ci], cmd, a, b)})
                        return
    rep.cov['schedule_runs_compared'] = total
    rep.cov['schedules'] = {'delivery_orders': [c['mode'] for c in cfgs], 'class_orders': len(perm_cfgs),
                            'hash_seeds': 2 if rep.tier == 'quick' else 4}


def replay(path):
    return engcheck.replay(path, oracle)
