"""C08 — results do not depend on notification order or hash iteration order."""
import itertools
import json
import os
import random
import subprocess

import common
import engcheck
import eng_gen
import eng_impl
import eng_oracle
import eng_run

PROP_FILE = 'props/C08.v'
RULE = ('histories as in C01, each executed on the real eos with the EOS_VERIF hooks under several schedules: '
        'subscriber delivery order per publication {sorted, reversed, seeded shuffles, all 24 orders of the '
        'calculator / simulator / statistics / restriction classes for short programs} x item-hash salts x '
        'PYTHONHASHSEED; every schedule is compared line by line (values, running effects, containers, exceptions; '
        'not the cached-key sets, which legitimately depend on who read first) with the first schedule and with '
        'the model (which has one fixed order); plus generated resource-user scenarios (cpu / powergrid users whose '
        'resource attribute exists only as a cached default and is modified by an effect starting in the same '
        'publication as the resource use; with controls) under the same schedules; non-trivial = at least one AttrsValueChanged or EffectApplied delivered')

CLASSES = ['Calculation', 'ReactiveArmor', 'Stat', 'Restriction']


def run_configs(histories, configs, hashseed, penalty_base=0.5, rah_histories=None):
    env = dict(os.environ)
    env.update({'EOS_VERIF': '1', 'PYTHONHASHSEED': str(hashseed), 'PYTHONPATH': common.REPO,
                'PYTHONDONTWRITEBYTECODE': '1'})
    p = subprocess.run([common.PY, os.path.join(common.VERIF, 'harness', 'c08_impl.py')],
                       input=json.dumps(dict({'histories': histories, 'configs': configs,
                                              'penalty_base': penalty_base},
                                             **({'rah_histories': rah_histories} if rah_histories is not None
                                                else {}))),
                       stdout=subprocess.PIPE, stderr=subprocess.PIPE, text=True, env=env, timeout=3000)
    if p.returncode != 0:
        raise RuntimeError('c08 runner failed: ' + p.stderr[-2000:])
    return json.loads(p.stdout)


def strip(l):
    return l.split(' cached=')[0] if l.startswith('item ') else l


def oracle(ulines, lines, meta):
    """two schedules give different observations on the implementation"""
    script = ulines + lines
    cfgs = [dict(order_seed=0, salt=0, mode='sorted'), dict(order_seed=1, salt=7, mode='reverse'),
            dict(order_seed=2, salt=13, mode='shuffle')]
    outs = run_configs([script], cfgs, 0)
    ref = outs[0][0]
    for c, o in zip(cfgs[1:], outs[1:]):
        for k, (a, b) in enumerate(zip(ref, o[0])):
            if script[k].startswith(('keys', 'regs', 'counters')):
                continue
            if not eng_run.same(script[k], strip(a), strip(b)):
                return dict(fails='schedule %s differs from the sorted schedule at %r: %s vs %s' %
                                  (c, script[k], a, b), upto=max(0, k - len(ulines)))
    return None


def resource_scenario(rng):
    """a resource user whose resource attribute exists only as the attribute's default value, is read while
    the user is offline (so the value is cached) and is modified by an effect that starts in the same
    publication as the resource use itself: the statistics / restriction registers and the calculator then
    handle one EffectsStarted message, in whatever order the broker delivers it"""
    from eos.const.eve import AttrId, EffectId, EffectCategoryId as EC
    from eos.const.eos import ModAffecteeFilter as F, ModDomain as D, ModOperator as OP, ModAggregateMode as AG
    from eosenv import bits
    res_attr, out_attr = rng.choice([(int(AttrId.cpu), int(AttrId.cpu_output)),
                                     (int(AttrId.power), int(AttrId.power_output))])
    own_effect = rng.random() < 0.5          # the modifier sits on 'online' itself or on a second online effect
    eff = int(EffectId.online) if own_effect else 2050
    val = rng.choice([8, 25, 40])
    default = rng.choice([0, 0, 5])
    on_type = rng.random() < 0.25            # control: the type does define the resource attribute
    ul = ['u_attr 1 1000 - 1 1 -', 'u_attr 1 %d %s/1 0 1 -' % (res_attr, bits(default)),
          'u_attr 1 %d - 1 1 -' % out_attr,
          'u_effect 1 %d %d - - 0 -' % (int(EffectId.online), int(EC.online))]
    if not own_effect:
        ul.append('u_effect 1 %d %d - - 0 -' % (eff, int(EC.online)))
    ul.append('u_mod 1 %d %d - %d %d %d %d - 1000' % (eff, int(F.item), int(D.self), res_attr,
                                                        int(rng.choice([OP.mod_add, OP.mod_add, OP.pre_assign])),
                                                        int(AG.stack)))
    ul += ['u_type 1 1381 - - -', 'u_type 1 3100 50 6 -', 'u_tattr 1 3100 %d %s/1' % (out_attr, bits(100)),
           'u_type 1 3200 51 7 -', 'u_tattr 1 3200 1000 %s/1' % bits(val), 'u_teffect 1 3200 %d' % int(EffectId.online)]
    if not own_effect:
        ul.append('u_teffect 1 3200 %d' % eff)
    if on_type:
        ul.append('u_tattr 1 3200 %d %s/1' % (res_attr, bits(3)))
    ul.append('commit 1')
    rack = rng.choice(['high', 'mid', 'low'])
    ops = ['solsys 1', 'fit 1 1', 'new 10 ship 3100 1 0', 'new 12 mod%s 3200 1 0' % rack,
           'new 13 mod%s 3200 %d 0' % (rack, rng.choice([1, 2, 3])), 'source 1 1', 'ssadd 1 1', 'slot 1 ship 10',
           'rappend 1 %s 12' % rack, 'rappend 1 %s 13' % rack]
    tail = ['get 12 %d' % res_attr, 'get 13 %d' % res_attr, 'state 12 %d' % rng.choice([2, 3]),
            'get 12 %d' % res_attr, 'state 13 %d' % rng.choice([1, 2, 3]), 'state 12 1', 'get 12 %d' % res_attr,
            'state 12 2', 'rremove 1 %s item 13' % rack, 'state 12 1']
    if rng.random() < 0.5:
        tail.pop(0)                          # control: no read before the state change
    script = ul + ops
    for l in tail:
        script.append(l)
        if not l.startswith('get'):
            script += ['stats 1', 'validate 1']
    return script


def run(rep):
    res, hists = engcheck.run(rep, 'C08', PROP_FILE, eng_gen.gen_history, 50, 3000, ['all', 'some'],
                              oracle, RULE, real_penalty_share=0.0)
    if rep.violations:
        return
    rng = random.Random(rep.seed + 1)
    nh = 40 if rep.tier == 'quick' else 1500
    sample = [h for h in hists if h[0].startswith('gen')][:nh]
    def with_services(h):
        out = list(h[1])
        for l, k in h[2]:
            if l.startswith(('u_', 'commit')):
                continue
            out.append(l)
            if k == 'op' and not l.startswith(('new', 'fit ', 'solsys')):
                # statistics and validation are services too: observe them on the implementation
                for f in h[3]['fits']:
                    out.append('stats %d' % f)
                    out.append('validate %d' % f)
        return out
    scripts = [with_services(h) for h in sample]
    nres = 12 if rep.tier == 'quick' else 300
    scripts += [resource_scenario(rng) for _ in range(nres)]
    sample = sample + [('resource', [], None, None, [None] * 20)] * nres
    cfgs = [dict(order_seed=0, salt=0, mode='sorted'), dict(order_seed=1, salt=0, mode='reverse'),
            dict(order_seed=2, salt=11, mode='shuffle'), dict(order_seed=3, salt=23, mode='shuffle')]
    short = [k for k, s in enumerate(scripts) if len(sample[k][4]) <= (60 if rep.tier == 'quick' else 80)]
    perm_cfgs = [dict(order_seed=0, salt=5, mode='class:' + ','.join(p)) for p in itertools.permutations(CLASSES)]
    total = 0
    for hashseed in ((0, 1) if rep.tier == 'quick' else (0, 1, 2, 3)):
        outs = run_configs(scripts, cfgs, hashseed)
        ref = outs[0]
        for ci, o in enumerate(outs):
            for hi, lines in enumerate(o):
                total += 1
                for k, (a, b) in enumerate(zip(ref[hi], lines)):
                    cmd = scripts[hi][k]
                    if cmd.startswith(('keys', 'regs', 'counters')):
                        continue
                    if not eng_run.same(cmd, strip(a), strip(b)):
                        rep.violation({'kind': 'history', 'ulines': sample[hi][1],
                                       'ops': [x for x in scripts[hi][len(sample[hi][1]):k + 1]],
                                       'fails': 'schedule %s (PYTHONHASHSEED=%d) differs from the sorted schedule '
                                                'at %r: %s vs %s' % (cfgs[ci], hashseed, cmd, a, b)})
                        return
    if short:
        sub = [scripts[k] for k in short[:10 if rep.tier == 'quick' else 200]]
        outs = run_configs(sub, perm_cfgs, 0)
        ref = outs[0]
        for ci, o in enumerate(outs):
            for hi, lines in enumerate(o):
                total += 1
                for k, (a, b) in enumerate(zip(ref[hi], lines)):
                    cmd = sub[hi][k]
                    if cmd.startswith(('keys', 'regs', 'counters')):
                        continue
                    if not eng_run.same(cmd, strip(a), strip(b)):
                        rep.violation({'kind': 'history', 'ops': sub[hi][:k + 1],
                                       'fails': 'class order %s differs at %r: %s vs %s' % (perm_cfgs[ci], cmd, a, b)})
                        return
    # reactive armor hardener histories (those of C12: hardeners, ship replaced / removed and added while
    # they run, modifiers of ship and hardener resonances coming and going) under the same delivery orders:
    # the simulator is one more subscriber, its results must not depend on who is told first
    import c12
    nrah = 30 if rep.tier == 'quick' else 600
    rah_hists = []
    while len(rah_hists) < nrah:
        h = c12.gen_history(rng, 'exact')
        if len(rah_hists) < nrah // 2 and not any(o[0] == 'ship' for o in h['ops']):
            continue
        rah_hists.append(h)
    rcfgs = cfgs + [dict(order_seed=0, salt=5, mode='class:' + ','.join(p))
                    for p in (['ReactiveArmor', 'Calculation', 'Stat', 'Restriction'],
                              ['Calculation', 'ReactiveArmor', 'Stat', 'Restriction'],
                              ['Stat', 'Restriction', 'ReactiveArmor', 'Calculation'])]
    outs = run_configs([], rcfgs, 0, rah_histories=rah_hists)
    ref = outs[0]['rah']

    def same_obs(a, b):
        if a == b:
            return True
        if isinstance(a, list) and isinstance(b, list) and len(a) == len(b):
            return all(same_obs(x, y) for x, y in zip(a, b))
        if isinstance(a, float) and isinstance(b, float):
            return abs(a - b) <= 1e-9 * max(1.0, abs(a), abs(b))
        return False
    for ci, o in enumerate(outs):
        for hi, recs in enumerate(o['rah']):
            total += 1
            if not same_obs([r[0] for r in ref[hi]] if ref[hi] and ref[hi][0] != 'raise' else ref[hi],
                            [r[0] for r in recs] if recs and recs[0] != 'raise' else recs):
                k = next((k for k, (a, b) in enumerate(zip(ref[hi], recs)) if not same_obs(a[0], b[0])), 0) \
                    if ref[hi] and recs and ref[hi][0] != 'raise' and recs[0] != 'raise' else 0
                rep.violation({'kind': 'rah_history', 'history': rah_hists[hi], 'config': rcfgs[ci],
                               'fails': 'reactive armor hardener history: schedule %s differs from the sorted '
                                        'schedule at read %d: %s vs %s' % (
                                            rcfgs[ci], k, json.dumps(recs[k] if k < len(recs) else recs)[:300],
                                            json.dumps(ref[hi][k] if k < len(ref[hi]) else ref[hi])[:300])})
                return
    rep.cov['rah_histories_under_schedules'] = len(rah_hists)
    rep.cov['schedule_runs_compared'] = total
    rep.cov['schedules'] = {'delivery_orders': [c['mode'] for c in cfgs], 'class_orders': len(perm_cfgs),
                            'hash_seeds': 2 if rep.tier == 'quick' else 4}


def replay(path):
    r = json.load(open(path))
    if r.get('kind') == 'rah_history':
        cfgs = [dict(order_seed=0, salt=0, mode='sorted'), r['config']]
        outs = run_configs([], cfgs, 0, rah_histories=[r['history']])
        a, b = outs[0]['rah'][0], outs[1]['rah'][0]
        same = json.dumps(a) == json.dumps(b)
        print('sorted schedule :', json.dumps(a)[:600])
        print('%s:' % r['config'], json.dumps(b)[:600])
        print('oracle:', 'property holds on this input' if same else 'the two schedules disagree')
        return 0 if same else 1
    return engcheck.replay(path, oracle)
