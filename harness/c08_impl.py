"""Subprocess runner for C08: executes scripts on the real eos with the
verification hooks on (EOS_VERIF=1): subscriber delivery order permuted by a
seeded PRNG per publication, items hashed with a harness salt."""
import json
import os
import random
import sys

sys.path.insert(0, os.path.dirname(os.path.abspath(__file__)))
assert os.environ.get('EOS_VERIF') == '1'
import eng_impl  # noqa: E402
from eos.item.mixin.base import BaseItemMixin  # noqa: E402
from eos.pubsub.broker import FitMsgBroker  # noqa: E402

job = json.load(sys.stdin)
out = []
for cfg in job['configs']:
    rng = random.Random(cfg['order_seed'])
    mode = cfg['mode']

    def order(msg, subs, rng=rng, mode=mode):
        subs = sorted(subs, key=lambda s: type(s).__name__ + str(id(s) % 7))
        if mode == 'reverse':
            return list(reversed(subs))
        if mode == 'shuffle':
            subs = list(subs)
            rng.shuffle(subs)
        elif mode.startswith('class:'):
            prio = mode[6:].split(',')
            subs = sorted(subs, key=lambda s: next((k for k, p in enumerate(prio) if p in type(s).__name__), 99))
        return subs
    FitMsgBroker._verif_order = staticmethod(order)
    BaseItemMixin._verif_salt = cfg['salt']
    eng_impl.set_penalty_base(job.get('penalty_base'))
    res = []
    for h in job['histories']:
        impl = eng_impl.Impl()
        res.append([impl.run(l) for l in h])
    rres = []
    if job.get('rah_histories'):
        import c12
        for h in job['rah_histories']:
            try:
                recs = c12.run_history_impl(h)
                rres.append([[r['obs'], r['logs']] for r in recs])
            except Exception as e:  # noqa
                rres.append(['raise', type(e).__name__, str(e)[:200]])
    out.append(res if 'rah_histories' not in job else {'eng': res, 'rah': rres})
json.dump(out, sys.stdout)
