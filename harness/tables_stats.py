"""Translator for C04: eos/stats/** (StatService, the 14 registers), the
damage-dealer / repair effect classes and their EffectFactory registrations,
and the source text of every function Stats.v transcribes
-> coq/gen/T_stats.v.  Fail-closed: any unexpected shape raises.

Structured (the model follows the source): per register the subscribed message
kinds, the conjuncts of each handler's `if` (class test, state/effect id in the
message, type-attribute membership or truthiness), add/discard/remove, the
attribute ids of used/output/total, rounding; per effect class its kind (which
abstract base it derives from), how it counts cycles until reload, and the
effect ids registered for it.
Pinned (the model is a transcription of exactly this text; a change makes the
translator refuse): get_cycle_parameters, cycle.py, helper_func.py, the
get_volley / get_rep_amount bodies, tanking.py, the stats containers'
validation, DmgDealerMixin, the register getters, StatService."""
import ast
import hashlib
import os
import re

from pyast import Shape, parse, find_class, find_func, dotted, expect, const_num, enum_members


def zlit(n):
    return '(%d)%%Z' % n


def strip_doc(fn):
    body = list(fn.body)
    if body and isinstance(body[0], ast.Expr) and isinstance(body[0].value, ast.Constant) \
            and isinstance(body[0].value.value, str):
        body = body[1:]
    return body


def body_src(fn):
    return ast.unparse(ast.Module(body=strip_doc(fn) or [ast.Pass()], type_ignores=[]))


def sha(txt):
    return hashlib.sha256(txt.encode()).hexdigest()[:16]


def class_assigns(cls):
    out = {}
    for st in cls.body:
        if isinstance(st, ast.Assign) and len(st.targets) == 1 and isinstance(st.targets[0], ast.Name):
            out[st.targets[0].id] = st.value
    return out


def funcs(cls):
    return {st.name: st for st in cls.body if isinstance(st, ast.FunctionDef)}


class Enums:
    def __init__(self, repo):
        eve = parse(repo, 'eos/const/eve.py')
        eos_ = parse(repo, 'eos/const/eos.py')
        self.known = {'AttrId': enum_members(eve, 'AttrId'), 'EffectId': enum_members(eve, 'EffectId'),
                      'State': enum_members(eos_, 'State')}

    def resolve(self, e):
        d = dotted(e)
        c, _, m = d.partition('.')
        expect(c in self.known and m in self.known[c], 'unknown enum member ' + d)
        return int(self.known[c][m])


# ---------------------------------------------------------------------------
# effect classes
# ---------------------------------------------------------------------------

ROOTS = {'DmgDealerEffect': 'KDmgDealer', 'LocalArmorRepairEffect': 'KLocalArmor',
         'RemoteArmorRepairEffect': 'KRemoteArmor', 'LocalShieldRepairEffect': 'KLocalShield',
         'RemoteShieldRepairEffect': 'KRemoteShield'}

# the classes Stats.v knows; the translator refuses any other set
CLASSES = ['TargetAttack', 'ProjectileFired', 'ChainLightning', 'TargetDisintegratorAttack', 'UseMissiles',
           'EmpWave', 'DoomsdayDirect', 'FighterAbilityAttackM', 'FighterAbilityKamikaze',
           'FighterAbilityLaunchBomb', 'FighterAbilityMissiles',
           'ArmorRepair', 'FueledArmorRepair', 'ShieldBoosting', 'FueledShieldBoosting',
           'NpcEntityRemoteArmorRepairer', 'NpcEntityRemoteShieldBooster',
           'ShipModuleAncillaryRemoteArmorRepairer', 'ShipModuleAncillaryRemoteShieldBooster',
           'ShipModuleRemoteArmorMutadaptiveRepairer', 'ShipModuleRemoteArmorRepairer',
           'ShipModuleRemoteShieldBooster']

def py_files(repo, rel):
    out = []
    for root, _, fs in os.walk(os.path.join(repo, rel)):
        for f in sorted(fs):
            if f.endswith('.py'):
                out.append(os.path.relpath(os.path.join(root, f), repo))
    return sorted(out)


def collect_effect_classes(repo, en):
    classes = {}     # name -> (ClassDef, relpath)
    regs = []        # (class name, effect id)
    for pkg in ('eos/eve_obj/effect/dmg_dealer', 'eos/eve_obj/effect/repairs'):
        for rel in py_files(repo, pkg):
            tree = parse(repo, rel)
            for n in ast.walk(tree):
                if isinstance(n, ast.ClassDef):
                    expect(n.name not in classes, 'duplicate effect class ' + n.name)
                    classes[n.name] = (n, rel)
            for n in tree.body:
                if isinstance(n, ast.Expr) and isinstance(n.value, ast.Call) and \
                        ast.unparse(n.value.func) == 'EffectFactory.register_class_by_id':
                    a = n.value.args
                    expect(len(a) == 2 and isinstance(a[0], ast.Name) and not n.value.keywords,
                           'register_class_by_id shape in ' + rel)
                    regs.append((a[0].id, en.resolve(a[1])))
    fe = parse(repo, 'eos/eve_obj/effect/fighter_effect.py')
    classes['FighterEffect'] = (find_class(fe, 'FighterEffect'), 'eos/eve_obj/effect/fighter_effect.py')
    return classes, regs


def mro_names(classes, name, seen=None):
    """linearised list of ancestors defined in the scanned packages"""
    out = [name]
    if name not in classes:
        return out
    for b in classes[name][0].bases:
        bn = dotted(b).split('.')[-1]
        for x in mro_names(classes, bn):
            if x not in out:
                out.append(x)
    return out


def find_method(classes, name, meth, stop):
    """first definition of meth along the ancestors of name that are not in `stop`"""
    for c in mro_names(classes, name):
        if c in stop or c not in classes:
            continue
        f = funcs(classes[c][0]).get(meth)
        if f is not None:
            return c, f
    return None, None


# pinned source of the effect-level methods (hash of the unparsed body -> mode)
PIN_CYCLES = {}
PIN_VOLLEY = {}
PIN_REP = {}
PIN_FUNCS = {}


def load_pins():
    import json
    p = os.path.join(os.path.dirname(os.path.abspath(__file__)), 'tables_stats_pins.json')
    d = json.load(open(p))
    PIN_CYCLES.update(d['cycles'])
    PIN_VOLLEY.update(d['volley'])
    PIN_REP.update(d['rep'])
    PIN_FUNCS.update(d['funcs'])


def pinned_functions(repo):
    """(label, source text) of every function/method the model transcribes"""
    out = []

    def add(rel, path):
        tree = parse(repo, rel)
        node = tree
        for p in path:
            node = find_class(node, p) if p[0].isupper() else find_func(node, p)
        out.append((rel + ':' + '.'.join(path), body_src(node)))
    e = 'eos/eve_obj/effect/effect.py'
    for m in ('get_charge', 'get_autocharge_type_id', 'get_cycles_until_reload', 'get_reload_time', 'get_duration',
              'get_forced_inactive_time', 'get_cycle_parameters', '__safe_get_attr_value'):
        add(e, ['Effect', m])
    c = 'eos/eve_obj/effect/cycle.py'
    for cl, ms_ in (('CycleInfo', ('__init__', 'average_time', '_get_cycle_quantity', '_get_time')),
                    ('CycleSequence', ('__init__', 'average_time', '_get_cycle_quantity', '_get_time'))):
        for m in ms_:
            add(c, [cl, m])
    h = 'eos/eve_obj/effect/helper_func.py'
    add(h, ['get_cycles_until_reload_generic'])
    add(h, ['get_cycles_until_reload_crystal'])
    add('eos/util/float.py', ['float_to_int'])
    add('eos/eve_obj/effect/dmg_dealer/base.py', ['DmgDealerEffect', 'get_dps'])
    add('eos/eve_obj/effect/repairs/base.py', ['BaseRepairEffect', 'get_rps'])
    t = 'eos/item/mixin/tanking.py'
    for m in ('hp', 'resists', '__get_resist_by_attr', 'get_ehp', '__get_layer_ehp', '_get_tanking_efficiency',
              'worst_case_ehp', '__get_layer_worst_case_ehp'):
        add(t, ['BufferTankingMixin', m])
    d = 'eos/item/mixin/effect_stats/dmg_dealer.py'
    for m in ('__dd_effect_iter', 'get_volley', 'get_dps'):
        add(d, ['DmgDealerMixin', m])
    sc = 'eos/stats_container/dmg_types.py'
    add(sc, ['DmgTypesTotal', 'total'])
    add(sc, ['DmgStats', '__init__'])
    add(sc, ['DmgStats', '_combine'])
    add(sc, ['DmgProfile', '__init__'])
    add(sc, ['ResistProfile', '__init__'])
    tl = 'eos/stats_container/tanking_layers.py'
    add(tl, ['ItemHP', '__init__'])
    add(tl, ['ItemHP', 'total'])
    mo = 'eos/item/module.py'
    add(mo, ['Module', 'charge_quantity'])
    add(mo, ['Module', 'reload_time'])
    add('eos/stats/register/dmg_dealer.py', ['DmgDealerRegister', 'get_volley'])
    add('eos/stats/register/dmg_dealer.py', ['DmgDealerRegister', 'get_dps'])
    add('eos/stats/register/dmg_dealer.py', ['DmgDealerRegister', '__dd_iter'])
    add('eos/stats/register/repairs/armor.py', ['ArmorRepairerRegister', 'get_rps'])
    add('eos/stats/register/repairs/shield.py', ['ShieldRepairerRegister', 'get_rps'])
    sv = 'eos/stats/service.py'
    for m in ('__init__', 'high_slots', 'mid_slots', 'low_slots', 'rig_slots', 'subsystem_slots', 'fighter_squads',
              '__get_slot_stats', 'hp', 'resists', 'get_ehp', 'worst_case_ehp', 'get_volley', 'get_dps',
              'get_armor_rps', 'get_shield_rps'):
        add(sv, ['StatService', m])
    f = 'eos/item_filter.py'
    for m in ('turret_filter', 'missile_filter', 'drone_filter', 'sentry_drone_filter'):
        add(f, [m])
    add('eos/fit.py', ['Fit', 'default_incoming_dmg'])
    return out


def effect_tables(repo, en, out):
    classes, regs = collect_effect_classes(repo, en)
    reg_classes = []
    for c, _ in regs:
        if c not in reg_classes:
            reg_classes.append(c)
    expect(sorted(reg_classes) == sorted(CLASSES),
           'set of registered damage/repair effect classes changed: %s' % sorted(set(reg_classes) ^ set(CLASSES)))
    # effects with a python-modifier customisation the engine model lacks
    cust = parse(repo, 'eos/eve_obj/custom/ancillary_armor_repairer/__init__.py')
    cust_ids = []
    for n in cust.body:
        if isinstance(n, ast.Assign) and isinstance(n.targets[0], ast.Name) and n.targets[0].id in ('aar_id', 'raar_id'):
            cust_ids.append(en.resolve(n.value))
    expect(len(cust_ids) == 2, 'ancillary armor repairer customisation shape')
    kinds, cyc, vol, rep = {}, {}, {}, {}
    stop = set(ROOTS) | {'Effect', 'BaseRepairEffect'}
    for c in CLASSES:
        anc = mro_names(classes, c)
        roots = [ROOTS[a] for a in anc if a in ROOTS]
        expect(len(roots) == 1, '%s: expected exactly one abstract effect base, got %s' % (c, roots))
        kinds[c] = roots[0]
        fighter = 'FighterEffect' in anc
        custom = any(i in cust_ids for cc, i in regs if cc == c)
        if fighter or custom:
            cyc[c], vol[c], rep[c] = 'CmUnsupported', 'VmUnsupported', 'RmNone'
            continue
        # cycles until reload
        _, f = find_method(classes, c, 'get_cycles_until_reload', stop)
        if f is None:
            cyc[c] = 'CmInf'
        else:
            h = sha(body_src(f))
            expect(h in PIN_CYCLES, '%s.get_cycles_until_reload changed:\n%s' % (c, body_src(f)))
            cyc[c] = PIN_CYCLES[h]
        if kinds[c] == 'KDmgDealer':
            parts = []
            for m in ('get_volley', '_get_base_dmg_item', 'get_autocharge_type_id'):
                _, f = find_method(classes, c, m, stop)
                parts.append(m + ':' + (body_src(f) if f is not None else '-'))
            # the turret subclass that overrides get_volley also calls the base one
            own = funcs(classes[c][0]).get('get_volley')
            if own is not None and 'TurretDmgEffect.get_volley' in ast.unparse(own):
                parts.append('base:' + body_src(funcs(classes['TurretDmgEffect'][0])['get_volley']))
            sup = class_assigns(classes[c][0]).get('suppress_dds')
            expect(sup is None, '%s sets suppress_dds (not modelled)' % c)
            h = sha('\n'.join(parts))
            expect(h in PIN_VOLLEY, '%s volley code changed:\n%s' % (c, '\n'.join(parts)))
            vol[c] = PIN_VOLLEY[h]
            rep[c] = 'RmNone'
            _, f = find_method(classes, c, 'get_dps', stop)
            expect(f is None, '%s overrides get_dps' % c)
        else:
            _, f = find_method(classes, c, 'get_rep_amount', stop)
            expect(f is not None, '%s: no get_rep_amount' % c)
            h = sha(body_src(f))
            expect(h in PIN_REP, '%s.get_rep_amount changed:\n%s' % (c, body_src(f)))
            rep[c] = PIN_REP[h]
            vol[c] = 'VmNone'
            _, f = find_method(classes, c, 'get_rps', stop)
            expect(f is None, '%s overrides get_rps' % c)
        for m in ('get_cycle_parameters', 'get_duration', 'get_forced_inactive_time', 'get_reload_time',
                  'get_charge'):
            _, f = find_method(classes, c, m, stop)
            expect(f is None, '%s overrides %s' % (c, m))
    out.append('Inductive eclass := %s.' % ' | '.join('EC_' + c for c in CLASSES))
    out.append('Inductive ekind := KDmgDealer | KLocalArmor | KRemoteArmor | KLocalShield | KRemoteShield.')
    out.append('Definition ekind_eqb (a b : ekind) : bool := match a, b with '
               '| KDmgDealer, KDmgDealer | KLocalArmor, KLocalArmor | KRemoteArmor, KRemoteArmor '
               '| KLocalShield, KLocalShield | KRemoteShield, KRemoteShield => true | _, _ => false end.')
    out.append('Inductive cycmode := CmInf | CmGeneric | CmGenericInf | CmCrystal | CmUnsupported.')
    out.append('Inductive volmode := VmTurretTA | VmTurretCharge | VmTurretSpool | VmMissile | VmSelf '
               '| VmUnsupported | VmNone.')
    out.append('Inductive repmode := RmArmor | RmShield | RmArmorSpool | RmNone.')
    for nm, ty, tab in (('class_kind', 'ekind', kinds), ('class_cycles', 'cycmode', cyc),
                        ('class_volley', 'volmode', vol), ('class_rep', 'repmode', rep)):
        out.append('Definition %s (c : eclass) : %s := match c with %s end.' % (
            nm, ty, ' '.join('| EC_%s => %s' % (c, tab[c]) for c in CLASSES)))
    out.append('Definition ALL_CLASSES : list eclass := [%s].' % '; '.join('EC_' + c for c in CLASSES))
    ids = [i for _, i in regs]
    expect(len(set(ids)) == len(ids), 'effect id registered twice')
    out.append('Definition EFFECT_CLASS : list (Z * eclass) := [%s].' % '; '.join(
        '(%s, EC_%s)' % (zlit(i), c) for c, i in sorted(regs, key=lambda x: x[1])))
    # the abstract bases the registers test with isinstance
    return kinds


# ---------------------------------------------------------------------------
# registers
# ---------------------------------------------------------------------------

MSG_KINDS = ['EffectsStarted', 'EffectsStopped', 'StatesActivated', 'StatesDeactivated',
             'StatesActivatedLoaded', 'StatesDeactivatedLoaded', 'ItemLoaded', 'ItemUnloaded']

SIMPLE = [  # (regid, file, class, StatService attribute)
    ('RegCpu', 'resource/ship_regular.py', 'CpuRegister', 'cpu'),
    ('RegPowergrid', 'resource/ship_regular.py', 'PowergridRegister', 'powergrid'),
    ('RegCalibration', 'resource/ship_regular.py', 'CalibrationRegister', 'calibration'),
    ('RegDronebayVolume', 'resource/dronebay_volume.py', 'DronebayVolumeRegister', 'dronebay'),
    ('RegDroneBandwidth', 'resource/drone_bandwidth.py', 'DroneBandwidthRegister', 'drone_bandwidth'),
    ('RegTurretSlot', 'slot/hardpoint_effect.py', 'TurretSlotRegister', 'turret_slots'),
    ('RegLauncherSlot', 'slot/hardpoint_effect.py', 'LauncherSlotRegister', 'launcher_slots'),
    ('RegLaunchedDrone', 'slot/launched_drone.py', 'LaunchedDroneRegister', 'launched_drones'),
    ('RegFighterSquadSupport', 'slot/fighter_squad.py', 'FighterSquadSupportRegister', 'fighter_squads_support'),
    ('RegFighterSquadLight', 'slot/fighter_squad.py', 'FighterSquadLightRegister', 'fighter_squads_light'),
    ('RegFighterSquadHeavy', 'slot/fighter_squad.py', 'FighterSquadHeavyRegister', 'fighter_squads_heavy'),
]


def class_chain(tree, name):
    """the class and its ancestors defined in the same file, nearest first"""
    out = []
    cur = name
    while True:
        try:
            c = find_class(tree, cur)
        except Shape:
            break
        out.append(c)
        nxt = None
        for b in c.bases:
            bn = dotted(b).split('.')[-1]
            try:
                find_class(tree, bn)
                nxt = bn
            except Shape:
                pass
        if nxt is None:
            break
        cur = nxt
    return out


def lookup(chain, what):
    """first class-level assignment / function / property named `what` along the chain"""
    for c in chain:
        a = class_assigns(c)
        if what in a:
            return a[what]
        f = funcs(c)
        if what in f:
            return f[what]
    return None


def const_of(chain, en, expr):
    """AttrId.x / EffectId.x / State.x directly or through a class constant self._name"""
    src = ast.unparse(expr)
    if src.startswith('self.'):
        v = lookup(chain, src[5:])
        expect(v is not None and not isinstance(v, ast.FunctionDef), 'class constant %s not found' % src)
        return en.resolve(v)
    return en.resolve(expr)


def conjuncts(test):
    if isinstance(test, ast.BoolOp) and isinstance(test.op, ast.And):
        return list(test.values)
    return [test]


def cond_of(chain, en, c):
    s = ast.unparse(c)
    m = re.fullmatch(r'isinstance\(msg\.item, (\w+)\)', s)
    if m:
        expect(m.group(1) in ('Drone', 'FighterSquad'), 'class test on ' + m.group(1))
        return 'CondClass Is' + m.group(1)
    if isinstance(c, ast.Compare) and len(c.ops) == 1 and isinstance(c.ops[0], ast.In):
        rhs = ast.unparse(c.comparators[0])
        if rhs in ('msg.states', 'msg.effect_ids'):
            v = const_of(chain, en, c.left)
            want = 'State.' if rhs == 'msg.states' else 'EffectId.'
            lsrc = ast.unparse(c.left)
            if lsrc.startswith('self.'):
                lsrc = ast.unparse(lookup(chain, lsrc[5:]))
            expect(lsrc.startswith(want), 'membership test %s mixes enums' % s)
            return 'CondIdIn %s' % zlit(v)
        if rhs == 'msg.item._type_attrs':
            return 'CondTypeAttrIn %s' % zlit(const_of(chain, en, c.left))
    if isinstance(c, ast.Call) and ast.unparse(c.func) == 'msg.item._type_attrs.get' and len(c.args) == 1 \
            and not c.keywords:
        return 'CondTypeAttrTruthy %s' % zlit(const_of(chain, en, c.args[0]))
    raise Shape('unsupported handler condition: ' + s)


def handler_desc(chain, en, fn):
    """-> (list of conds, method in add/discard/remove, store name)"""
    body = strip_doc(fn)
    expect(len(body) == 1, 'handler %s: expected one statement' % fn.name)
    st = body[0]
    conds = []
    if isinstance(st, ast.If):
        expect(not st.orelse and len(st.body) == 1, 'handler %s: if shape' % fn.name)
        conds = [cond_of(chain, en, c) for c in conjuncts(st.test)]
        st = st.body[0]
    expect(isinstance(st, ast.Expr) and isinstance(st.value, ast.Call), 'handler %s: call shape' % fn.name)
    call = st.value
    m = re.fullmatch(r'self\.(__\w+)\.(add|discard|remove)', ast.unparse(call.func))
    expect(m is not None and len(call.args) == 1 and ast.unparse(call.args[0]) == 'msg.item' and not call.keywords,
           'handler %s: store call shape' % fn.name)
    return conds, m.group(2), m.group(1)


def handler_map(chain):
    hm = lookup(chain, '_handler_map')
    expect(isinstance(hm, ast.Dict), '_handler_map shape')
    out = {}
    for k, v in zip(hm.keys, hm.values):
        expect(isinstance(k, ast.Name) and isinstance(v, ast.Name), '_handler_map entry shape')
        expect(k.id in MSG_KINDS, 'register subscribes to unexpected message ' + k.id)
        out[k.id] = v.id
    return out


def subscription_ok(chain):
    init = lookup(chain, '__init__')
    expect(isinstance(init, ast.FunctionDef), 'register __init__ not found')
    src = ast.unparse(init)
    expect('fit._subscribe(self, self._handler_map.keys())' in src, 'register subscription shape')
    expect('set()' in src or 'KeyedStorage()' in src, 'register store initialisation shape')


def getter_src(chain, name):
    f = lookup(chain, name)
    expect(isinstance(f, ast.FunctionDef), 'getter %s not found' % name)
    return body_src(f)


def simple_register(repo, en, regid, rel, clsname):
    tree = parse(repo, 'eos/stats/register/' + rel)
    chain = class_chain(tree, clsname)
    expect(chain, 'register class %s not found' % clsname)
    subscription_ok(chain)
    hm = handler_map(chain)
    expect(len(hm) == 2, '%s: expected two handlers' % clsname)
    on = off = None
    for k, h in hm.items():
        f = lookup(chain, h)
        expect(isinstance(f, ast.FunctionDef), 'handler %s not found' % h)
        conds, meth, store = handler_desc(chain, en, f)
        if meth == 'add':
            expect(on is None, '%s: two inserting handlers' % clsname)
            on = (k, conds, store)
        else:
            expect(meth == 'discard', '%s: item-set register uses set.%s' % (clsname, meth))
            expect(off is None, '%s: two discarding handlers' % clsname)
            off = (k, conds, store)
    expect(on and off and on[2] == off[2], '%s: handlers do not insert/discard on one store' % clsname)
    store = on[2]
    # getters
    used = getter_src(chain, 'used')
    rounded = False
    if used == 'return round(super().used, 2)':
        rounded = True
        k = next(i for i, c in enumerate(chain) if 'used' in funcs(c))
        used = getter_src(chain[k + 1:], 'used')
    use_attr = 'None'
    m = re.fullmatch(r'return sum\(\(item\.attrs\[(.+?)\] for item in self\.%s\)\)' % re.escape(store), used)
    if m:
        use_attr = 'Some %s' % zlit(const_of(chain, en, ast.parse(m.group(1), mode='eval').body))
    else:
        expect(used == 'return len(self.%s)' % store, '%s.used shape: %s' % (clsname, used))
    out_name = 'output' if use_attr != 'None' else 'total'
    outp = getter_src(chain, out_name)
    pat = (r'try:\n    return (int\()?self\.__fit\.(ship|character)\.attrs\[(.+?)\]\)?\n'
           r'except \(AttributeError, KeyError\):\n    return 0')
    m = re.fullmatch(pat, outp)
    expect(m is not None, '%s.%s shape: %s' % (clsname, out_name, outp))
    expect((m.group(1) is not None) == (out_name == 'total'), '%s: int() conversion of the total' % clsname)
    out_attr = const_of(chain, en, ast.parse(m.group(3), mode='eval').body)
    holder = 'HShip' if m.group(2) == 'ship' else 'HCharacter'
    users = getter_src(chain, '_users')
    expect(users == 'return self.%s' % store, '%s._users shape' % clsname)
    return ('(%s, mkRegDesc Mk%s Mk%s [%s] [%s] (%s) %s %s %s)' % (
        regid, on[0], off[0], '; '.join(on[1]), '; '.join(off[1]), use_attr, zlit(out_attr),
        'true' if rounded else 'false', holder))


PAIR_HANDLER = ('item_effects = msg.item._type_effects\n'
                'for effect_id in msg.effect_ids:\n'
                '    effect = item_effects[effect_id]\n'
                '    if isinstance(effect, %s):\n'
                '        %s')


def pair_register(repo, rel, clsname, kinds_of_root):
    tree = parse(repo, 'eos/stats/register/' + rel)
    chain = class_chain(tree, clsname)
    subscription_ok(chain)
    hm = handler_map(chain)
    expect(sorted(hm) == ['EffectsStarted', 'EffectsStopped'], '%s: subscriptions %s' % (clsname, sorted(hm)))
    res = {}
    for k, h in hm.items():
        src = body_src(lookup(chain, h))
        m = re.fullmatch(re.escape(PAIR_HANDLER).replace('%s', '(.+?)', 1).replace('%s', '(.+)', 1), src)
        expect(m is not None, '%s.%s shape:\n%s' % (clsname, h, src))
        root, call = m.group(1), m.group(2)
        expect(root in ROOTS, '%s: isinstance test on %s' % (clsname, root))
        mm = re.fullmatch(r'self\.(__\w+)\.(add_data_entry|rm_data_entry)\(msg\.item, effect\)', call) or \
            re.fullmatch(r'self\.(__\w+)\.(add|remove|discard)\(\(msg\.item, effect\)\)', call)
        expect(mm is not None, '%s.%s store call: %s' % (clsname, h, call))
        res[k] = (ROOTS[root], mm.group(2), mm.group(1))
    on, off = res['EffectsStarted'], res['EffectsStopped']
    expect(on[1] in ('add_data_entry', 'add') and off[1] in ('rm_data_entry', 'remove', 'discard'),
           '%s: insert/remove roles' % clsname)
    expect(on[0] == off[0] and on[2] == off[2], '%s: start/stop handlers disagree' % clsname)
    strict = off[1] == 'remove'
    remote = 'None'
    g = lookup(chain, 'get_rps')
    if isinstance(g, ast.FunctionDef):
        m = re.search(r'if not isinstance\(rep_effect, (\w+)\):\n\s+continue', ast.unparse(g))
        expect(m is not None and m.group(1) in ROOTS, '%s.get_rps remote class test' % clsname)
        remote = 'Some ' + ROOTS[m.group(1)]
    return 'mkPairDesc MkEffectsStarted MkEffectsStopped [%s] %s (%s)' % (
        on[0], 'true' if strict else 'false', remote)


def service_tables(repo, en, out):
    tree = parse(repo, 'eos/stats/service.py')
    cls = find_class(tree, 'StatService')
    init = body_src(find_func(cls, '__init__'))
    regs = re.findall(r'self\.(\w+) = (\w+)\(fit\)', init)
    want = [('_StatService__dd_reg' if False else '__dd_reg', 'DmgDealerRegister'),
            ('__armor_rep_reg', 'ArmorRepairerRegister'), ('__shield_rep_reg', 'ShieldRepairerRegister')] + \
        [(attr, c) for _, _, c, attr in SIMPLE]
    expect(sorted(regs) == sorted(want), 'StatService registers changed: %s' % sorted(set(regs) ^ set(want)))
    slots = {}
    for name, key in (('high_slots', 'high'), ('mid_slots', 'mid'), ('low_slots', 'low'), ('rig_slots', 'rig'),
                      ('subsystem_slots', 'subsystem'), ('fighter_squads', 'fighter')):
        src = body_src(find_func(cls, name))
        m = re.fullmatch(r'return self\.__get_slot_stats\(self\.__fit\.([\w.]+), (AttrId\.\w+)\)', src)
        expect(m is not None, 'StatService.%s shape' % name)
        cont = {'high': 'modules.high', 'mid': 'modules.mid', 'low': 'modules.low', 'rig': 'rigs',
                'subsystem': 'subsystems', 'fighter': 'fighters'}[key]
        expect(m.group(1) == cont, 'StatService.%s reads container %s' % (name, m.group(1)))
        slots[key] = en.resolve(ast.parse(m.group(2), mode='eval').body)
    for k, v in slots.items():
        out.append('Definition SLOT_ATTR_%s : Z := %s.' % (k, zlit(v)))


HEADER = '''(* GENERATED by harness/tables_stats.py -- do not edit *)
From Coq Require Import ZArith List Bool.
Import ListNotations.
Inductive mkind := MkEffectsStarted | MkEffectsStopped | MkStatesActivated | MkStatesDeactivated
  | MkStatesActivatedLoaded | MkStatesDeactivatedLoaded | MkItemLoaded | MkItemUnloaded.
Definition mkind_eqb (a b : mkind) : bool := match a, b with
  | MkEffectsStarted, MkEffectsStarted | MkEffectsStopped, MkEffectsStopped
  | MkStatesActivated, MkStatesActivated | MkStatesDeactivated, MkStatesDeactivated
  | MkStatesActivatedLoaded, MkStatesActivatedLoaded | MkStatesDeactivatedLoaded, MkStatesDeactivatedLoaded
  | MkItemLoaded, MkItemLoaded | MkItemUnloaded, MkItemUnloaded => true | _, _ => false end.
Inductive clstest := AnyClass | IsDrone | IsFighterSquad.
Inductive cond := CondClass (t : clstest) | CondIdIn (x : Z) | CondTypeAttrIn (a : Z) | CondTypeAttrTruthy (a : Z).
Inductive holder := HShip | HCharacter.
Record regdesc := mkRegDesc { rd_on : mkind; rd_off : mkind; rd_on_conds : list cond; rd_off_conds : list cond;
  rd_use_attr : option Z; rd_out_attr : Z; rd_rounded : bool; rd_holder : holder }.
Inductive regid := RegCpu | RegPowergrid | RegCalibration | RegDronebayVolume | RegDroneBandwidth
  | RegTurretSlot | RegLauncherSlot | RegLaunchedDrone | RegFighterSquadSupport | RegFighterSquadLight
  | RegFighterSquadHeavy.
Definition regid_eqb (a b : regid) : bool := match a, b with
  | RegCpu, RegCpu | RegPowergrid, RegPowergrid | RegCalibration, RegCalibration
  | RegDronebayVolume, RegDronebayVolume | RegDroneBandwidth, RegDroneBandwidth
  | RegTurretSlot, RegTurretSlot | RegLauncherSlot, RegLauncherSlot | RegLaunchedDrone, RegLaunchedDrone
  | RegFighterSquadSupport, RegFighterSquadSupport | RegFighterSquadLight, RegFighterSquadLight
  | RegFighterSquadHeavy, RegFighterSquadHeavy => true | _, _ => false end.
'''


def generate(repo):
    load_pins()
    en = Enums(repo)
    out = [HEADER]
    effect_tables(repo, en, out)
    out.append('Record pairdesc := mkPairDesc { pd_on : mkind; pd_off : mkind; pd_kinds : list ekind; '
               'pd_strict : bool; pd_remote : option ekind }.')
    rows = [simple_register(repo, en, rid, rel, c) for rid, rel, c, _ in SIMPLE]
    out.append('Definition SIMPLE_REGS : list (regid * regdesc) := [\n  %s].' % ';\n  '.join(rows))
    out.append('Definition DD_DESC : pairdesc := %s.' % pair_register(repo, 'dmg_dealer.py', 'DmgDealerRegister', None))
    out.append('Definition AREP_DESC : pairdesc := %s.' % pair_register(repo, 'repairs/armor.py',
                                                                      'ArmorRepairerRegister', None))
    out.append('Definition SREP_DESC : pairdesc := %s.' % pair_register(repo, 'repairs/shield.py',
                                                                      'ShieldRepairerRegister', None))
    service_tables(repo, en, out)
    # pinned transcriptions
    changed = []
    for label, src in pinned_functions(repo):
        h = sha(src)
        if PIN_FUNCS.get(label) != h:
            changed.append(label)
    expect(not changed, 'source text the model transcribes changed: ' + ', '.join(changed))
    out.append('Definition PINNED_FUNCTIONS : nat := %d.' % len(PIN_FUNCS))
    return '\n'.join(out) + '\n'


def make_pins(repo):
    """development helper: (re)compute tables_stats_pins.json from the given
    tree. The modes must be reviewed by hand against Stats.v."""
    import json
    en = Enums(repo)
    classes, regs = collect_effect_classes(repo, en)
    stop = set(ROOTS) | {'Effect', 'BaseRepairEffect'}
    pins = {'cycles': {}, 'volley': {}, 'rep': {}, 'funcs': {}}
    CY = {'TargetAttack': 'CmCrystal', 'ProjectileFired': 'CmGeneric', 'ChainLightning': 'CmGeneric',
          'TargetDisintegratorAttack': 'CmGeneric', 'UseMissiles': 'CmGeneric',
          'FueledShieldBoosting': 'CmGenericInf', 'ShipModuleAncillaryRemoteShieldBooster': 'CmGenericInf'}
    VO = {'TargetAttack': 'VmTurretTA', 'ProjectileFired': 'VmTurretCharge', 'ChainLightning': 'VmTurretCharge',
          'TargetDisintegratorAttack': 'VmTurretSpool', 'UseMissiles': 'VmMissile', 'EmpWave': 'VmSelf',
          'DoomsdayDirect': 'VmSelf'}
    RE = {'ArmorRepair': 'RmArmor', 'ShieldBoosting': 'RmShield', 'FueledShieldBoosting': 'RmShield',
          'NpcEntityRemoteArmorRepairer': 'RmArmor', 'NpcEntityRemoteShieldBooster': 'RmShield',
          'ShipModuleAncillaryRemoteShieldBooster': 'RmShield',
          'ShipModuleRemoteArmorMutadaptiveRepairer': 'RmArmorSpool', 'ShipModuleRemoteArmorRepairer': 'RmArmor',
          'ShipModuleRemoteShieldBooster': 'RmShield'}
    for c, mode in CY.items():
        _, f = find_method(classes, c, 'get_cycles_until_reload', stop)
        pins['cycles'][sha(body_src(f))] = mode
    for c, mode in VO.items():
        parts = []
        for m in ('get_volley', '_get_base_dmg_item', 'get_autocharge_type_id'):
            _, f = find_method(classes, c, m, stop)
            parts.append(m + ':' + (body_src(f) if f is not None else '-'))
        own = funcs(classes[c][0]).get('get_volley')
        if own is not None and 'TurretDmgEffect.get_volley' in ast.unparse(own):
            parts.append('base:' + body_src(funcs(classes['TurretDmgEffect'][0])['get_volley']))
        pins['volley'][sha('\n'.join(parts))] = mode
    for c, mode in RE.items():
        _, f = find_method(classes, c, 'get_rep_amount', stop)
        pins['rep'][sha(body_src(f))] = mode
    for label, src in pinned_functions(repo):
        pins['funcs'][label] = sha(src)
    p = os.path.join(os.path.dirname(os.path.abspath(__file__)), 'tables_stats_pins.json')
    json.dump(pins, open(p, 'w'), indent=1, sort_keys=True)
    return pins


if __name__ == '__main__':
    import sys
    if len(sys.argv) > 2 and sys.argv[1] == '--make-pins':
        print(make_pins(sys.argv[2]))
    else:
        print(generate(sys.argv[1] if len(sys.argv) > 1 else '/repo'))
