"""C18 implementation runner: JSON {"cases": [raw data set, ...]} on stdin ->
JSON list of canonical observations of EveObjBuilder.run on stdout.  Started
as a separate interpreter so that PYTHONHASHSEED takes effect (set/dict
iteration order of the builder's row sets depends on it).

Also importable: run_case(case) is used in-process by harness/c18.py replay."""
import json
import logging
import math
import sys
from fractions import Fraction
from numbers import Integral

TABLES = ['evetypes', 'evegroups', 'dgmattribs', 'dgmtypeattribs', 'dgmeffects',
          'dgmtypeeffects', 'dbuffcollections', 'skillreqs', 'typefighterabils']

EFFECT_ARGS = ['duration_attr_id', 'discharge_attr_id', 'range_attr_id', 'falloff_attr_id',
               'tracking_speed_attr_id', 'fitting_usage_chance_attr_id', 'resist_attr_id']


class MemDataHandler:
    """Minimal in-memory data handler: the nine table getters of
    eos.data_handler.base.BaseDataHandler returning lists of dict rows."""

    def __init__(self, tables):
        self.tables = tables

    def _rows(self, name):
        # fresh dicts on every call: the builder writes row['table_pos']
        return [dict(r) for r in self.tables.get(name, [])]

    def get_evetypes(self):
        return self._rows('evetypes')

    def get_evegroups(self):
        return self._rows('evegroups')

    def get_dgmattribs(self):
        return self._rows('dgmattribs')

    def get_dgmtypeattribs(self):
        return self._rows('dgmtypeattribs')

    def get_dgmeffects(self):
        return self._rows('dgmeffects')

    def get_dgmtypeeffects(self):
        return self._rows('dgmtypeeffects')

    def get_dbuffcollections(self):
        return self._rows('dbuffcollections')

    def get_skillreqs(self):
        return self._rows('skillreqs')

    def get_typefighterabils(self):
        return self._rows('typefighterabils')

    def get_version(self):
        return 'mem'


def bits(n):
    n = int(n)
    if n == 0:
        return '0'
    return ('-' if n < 0 else '') + bin(abs(n))[2:]


def hexs(s):
    return 'x' + s.encode('utf-8').hex()


def canon(v):
    """canonical text of a field value; the same text the model driver prints"""
    if v is None:
        return 'n'
    if isinstance(v, bool):
        return 'b:1' if v else 'b:0'
    if isinstance(v, int):
        return 'i:' + bits(v)
    if isinstance(v, float):
        if math.isnan(v):
            return 'nan'
        if math.isinf(v):
            return 'inf+' if v > 0 else 'inf-'
        f = Fraction(v)
        return 'f:%s/%s' % (bits(f.numerator), bits(f.denominator))
    if isinstance(v, str):
        return 's:' + hexs(v)
    if isinstance(v, (list, tuple)):
        return 'L%d' % len(v)
    return '?' + type(v).__name__


def ident(v):
    """an object id as built (int, or bool for a True/False primary key)"""
    if isinstance(v, Integral):
        return int(v)
    return 'bad-id:' + canon(v)


def observe(types, attrs, effects, buffs):
    o = {'types': {}, 'attrs': {}, 'effects': {}, 'buffs': []}
    for t in types:
        o['types'][str(ident(t.id))] = {
            'group': canon(t.group_id), 'category': canon(t.category_id),
            'attrs': {str(ident(k)): canon(v) for k, v in t.attrs.items()},
            'effects': sorted(str(ident(k)) for k in t.effects),
            'effects_consistent': all(ident(k) == ident(e.id) for k, e in t.effects.items()),
            'default': None if t.default_effect is None else str(ident(t.default_effect.id)),
            'skills': {str(ident(k)): canon(v) for k, v in t.required_skills.items()}}
    for a in attrs:
        o['attrs'][str(ident(a.id))] = {'max_attr_id': canon(a.max_attr_id)}
    for e in effects:
        mods = []
        for m in e.modifiers:
            mods.append([int(m.affectee_filter), canon(m.affectee_filter_extra_arg),
                         canon(m.affectee_attr_id), canon(m.affector_attr_id)])
        o['effects'][str(ident(e.id))] = {
            'args': {a: canon(getattr(e, a)) for a in EFFECT_ARGS},
            'mods': sorted(mods)}
    for b in buffs:
        o['buffs'].append([str(ident(b.buff_id)), b.affectee_filter.name,
                           canon(b.affectee_filter_extra_arg), canon(b.affectee_attr_id)])
    o['buffs'].sort()
    o['dup_ids'] = (len(o['types']) != len(types) or len(o['attrs']) != len(attrs) or
                    len(o['effects']) != len(effects))
    return o


def run_case(case):
    from eos.eve_obj_builder import EveObjBuilder
    try:
        res = EveObjBuilder.run(MemDataHandler(case['tables']))
    except Exception as e:  # noqa
        return {'raise': type(e).__name__, 'msg': str(e)[:200]}
    return observe(*res)


def main():
    logging.disable(logging.CRITICAL)
    payload = json.load(sys.stdin)
    out = [run_case(c) for c in payload['cases']]
    json.dump(out, sys.stdout)


if __name__ == '__main__':
    main()
