"""Minimise a history on which a direct oracle fails (implementation only)."""
import json
import os
import sys

sys.path.insert(0, os.path.dirname(os.path.abspath(__file__)))
import common  # noqa
sys.path.insert(0, common.REPO)
import eng_impl  # noqa
import eng_oracle  # noqa
import engcheck  # noqa


def shrink(ulines, ops, oracle, budget=600):
    meta = engcheck.meta_of(ulines, ops)

    def bad(cand):
        try:
            return oracle(ulines, cand, meta)
        except Exception:
            return None
    why = bad(ops)
    if not why:
        return ops, None
    if why.get('upto') is not None:
        ops = ops[:why['upto'] + 1]
    ops = [l for l in ops if not l.startswith(('get', 'keys', 'effects', 'item', 'fitdump', 'regs', 'spec',
                                               'counters'))] if bad([l for l in ops if not l.startswith(
        ('get', 'keys', 'effects', 'item', 'fitdump', 'regs', 'spec', 'counters'))]) else ops
    n = 2
    runs = 0
    while len(ops) >= 2 and runs < budget:
        chunk = max(1, len(ops) // n)
        removed = False
        k = 0
        while k < len(ops) and runs < budget:
            hi = min(k + chunk, len(ops))
            keep = [l for l in ops[k:hi] if l.startswith(('new ', 'fit ', 'solsys '))]
            if len(keep) == hi - k:
                k += chunk
                continue
            cand = ops[:k] + keep + ops[hi:]
            runs += 1
            w = bad(cand)
            if w:
                ops = cand
                why = w
                removed = True
                k += len(keep)
            else:
                k += chunk
        if not removed:
            if chunk == 1:
                break
            n = min(n * 2, len(ops))
    return ops, why


if __name__ == '__main__':
    r = json.load(open(sys.argv[1]))
    oracle = getattr(eng_oracle, 'oracle_' + sys.argv[2])
    if sys.argv[2] == 'c01':
        oracle = lambda u, l, m: eng_oracle.oracle_c01(u, l, m, every=1)  # noqa
    eng_impl.set_penalty_base(r.get('penalty_base', 0.5))
    ops, why = shrink(r['ulines'], r['ops'], oracle)
    print(why)
    used = set()
    for l in ops:
        if not l.startswith('new'):
            used.update(t for t in l.split()[1:] if t.isdigit())
    for l in ops:
        if l.startswith('new') and l.split()[1] not in used:
            continue
        print(l)
    json.dump({'ulines': r['ulines'], 'ops': ops, 'why': why}, open(os.path.join(common.VERIF, '.work', 'oracle_shrunk.json'), 'w'), indent=0)
