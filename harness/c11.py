"""C11 — removal is complete: no residue and no lingering influence."""
import engcheck
import eng_gen
import eng_oracle

PROP_FILE = 'props/C11.v'
RULE = ('histories as in C01 followed by complete tear-down (all fits out of the solar systems, racks/sets cleared, '
        'slots emptied, fleets cleared); sizes of all 18 calculator registers and all value caches compared between '
        'model and implementation after every step of the tear-down (and the model reproduces every residue the '
        'implementation would have); removal of subsets happens inside the histories and is covered by the '
        'full-observation comparison; non-trivial = at least one AttrsValueChanged or EffectApplied delivered')


def gen(rng):
    return eng_gen.gen_history(rng, profile=rng.choice(['default', 'projection', 'source']))


def run(rep):
    res, hists = engcheck.run(rep, 'C11', PROP_FILE, gen, 120, 6000, ['some', 'all'], eng_oracle.oracle_c11, RULE, direct=0,
                              post=eng_oracle.teardown_lines)
    # residue check on the model side is part of the compared 'regs' lines; additionally the
    # implementation's registers must be empty at the very end of every history
    if not rep.violations:
        import eng_impl
        bad = None
        checked = 0
        sel = hists[:40 if rep.tier == 'quick' else 400] + [h for h in hists if h[0].startswith('scen:')]
        for name, ul, script, meta, ol in sel:
            why = eng_oracle.oracle_c11(ul, [l for l in ol if l not in eng_oracle.teardown_lines(meta)], meta)
            checked += 1
            if why:
                bad = (name, ul, ol, why)
                break
        rep.cov['teardown_emptiness_checked'] = checked
        if bad:
            rep.violation({'kind': 'history', 'name': bad[0], 'ulines': bad[1], 'ops': bad[2], 'fails': bad[3]['fails']})


def replay(path):
    return engcheck.replay(path, eng_oracle.oracle_c11)
