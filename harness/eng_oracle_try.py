import os, sys, random, json
sys.path.insert(0, os.path.dirname(os.path.abspath(__file__)))
import common
sys.path.insert(0, common.REPO)
import eng_gen, eng_oracle, eng_impl
name = sys.argv[1]; n = int(sys.argv[2]); seed = int(sys.argv[3])
eng_impl.set_penalty_base(0.5)
rng = random.Random(seed)
fn = getattr(eng_oracle, 'oracle_' + name)
found = 0
for k in range(n):
    ul, ol, meta = eng_gen.gen_history(rng)
    r = fn(ul, ol, meta)
    if r:
        found += 1
        if found <= 4:
            print(k, r['fails'][:400])
            print('   ', [l for l in ol[:r.get('upto', len(ol)) + 1] if not l.startswith('new')][-6:])
print('found', found, 'of', n)
