import os, sys, json
sys.path.insert(0, os.path.dirname(os.path.abspath(__file__)))
import common
sys.path.insert(0, common.REPO)
import eng_impl, eng_run
d = json.load(open(sys.argv[1]))
eng_impl.set_penalty_base(0.5)
impl = eng_impl.Impl()
for l in d['ulines'] + d['ops']:
    r = impl.run(l)
ss = impl.sss[1]
a = ss._calculator._CalculationService__affections
for n in ('affectors_domain','affectors_domain_group','affectors_domain_skillrq','affectors_owner_skillrq'):
    st = getattr(a, '_AffectionRegister__'+n)
    for k, v in st.items():
        print(n, [impl.fid(x) if hasattr(x,'ship') else x for x in k], [(impl.iid(s.item), s.effect.id, s.modifier.affectee_filter, s.modifier.affectee_domain) for s in v])
