"""Translator for C12: eos/sim/reactive_armor_hardener.py (+ util/round.py,
eve_obj/custom/reactive_armor_hardener/modifier.py) -> coq/gen/T_rah.v.

Emitted (plain definitions; obligations about them are in proofs/Rah_p.v):
  gen_MAX_SIMULATION_TICKS : nat, gen_SIG_DIGITS : Z
  gen_res_attr_ids : list Z              numeric AttrId values, source order
  gen_attr_profile_map : list (Z * string)
  gen_handlers : list (string * string * bool)
       (message class, handler name, handler body calls self.__clear_results())
  gen_rah_modifier : list string          operator/domain/filter/aggregate names
  gen_rah_modifier_attrs : list Z
Each extractor matches one expected source shape and raises otherwise."""
import ast

from pyast import Shape, parse, find_class, find_func, dotted, expect, const_num, enum_members

SIM = 'eos/sim/reactive_armor_hardener.py'


def module_assign(tree, name):
    found = [s for s in tree.body if isinstance(s, ast.Assign) and
             len(s.targets) == 1 and isinstance(s.targets[0], ast.Name) and
             s.targets[0].id == name]
    expect(len(found) == 1, 'expected exactly one module-level assignment of %s' % name)
    return found[0].value


def attr_id(e, attr_ids):
    d = dotted(e)
    expect(d.startswith('AttrId.'), 'expected AttrId.<name>, got %s' % d)
    n = d[len('AttrId.'):]
    expect(n in attr_ids, 'unknown AttrId member %s' % n)
    return int(attr_ids[n])


def calls_clear(fn):
    """does the handler body (anywhere) call self.__clear_results()?"""
    for n in ast.walk(fn):
        if isinstance(n, ast.Call) and isinstance(n.func, ast.Attribute) and \
                n.func.attr == '__clear_results' and \
                isinstance(n.func.value, ast.Name) and n.func.value.id == 'self':
            return True
    return False


def check_sig_round(repo):
    tree = parse(repo, 'eos/util/round.py')
    fn = find_func(tree, 'sig_round')
    expect([a.arg for a in fn.args.args] == ['x', 'sig_digits'], 'sig_round arguments')
    body = [s for s in fn.body if not (isinstance(s, ast.Expr) and
                                       isinstance(s.value, ast.Constant))]
    expect(len(body) == 2, 'sig_round: expected 2 statements')
    want0 = ast.dump(ast.parse(
        'highest_magnitude = math.floor(math.log10(abs(x)))').body[0])
    want1 = ast.dump(ast.parse(
        'return round(x, -highest_magnitude - 1 + sig_digits)').body[0])
    expect(ast.dump(body[0]) == want0, 'sig_round: magnitude statement changed')
    expect(ast.dump(body[1]) == want1, 'sig_round: rounding statement changed')


def check_notify(cls):
    """_notify ignores messages while the simulation is running and otherwise
    dispatches through BaseSubscriber._notify"""
    fn = find_func(cls, '_notify')
    body = [s for s in fn.body if not (isinstance(s, ast.Expr) and
                                       isinstance(s.value, ast.Constant))]
    want = ast.parse(
        'if self.__running is True:\n    return\nBaseSubscriber._notify(self, msg)').body
    expect(len(body) == 2 and ast.dump(body[0]) == ast.dump(want[0]) and
           ast.dump(body[1]) == ast.dump(want[1]), '_notify shape changed')


def coq_str(s):
    expect('"' not in s, 'quote in string')
    return '"%s"' % s


def generate(repo):
    tree = parse(repo, SIM)
    eve = parse(repo, 'eos/const/eve.py')
    attr_ids = enum_members(eve, 'AttrId')

    max_ticks = const_num(module_assign(tree, 'MAX_SIMULATION_TICKS'))
    sig_digits = const_num(module_assign(tree, 'SIG_DIGITS'))
    expect(isinstance(max_ticks, int) and 0 <= max_ticks <= 5000,
           'MAX_SIMULATION_TICKS must be a small non-negative int')
    expect(isinstance(sig_digits, int), 'SIG_DIGITS must be an int')

    order = module_assign(tree, 'res_attr_ids')
    expect(isinstance(order, ast.Tuple), 'res_attr_ids must be a tuple literal')
    res_ids = [attr_id(e, attr_ids) for e in order.elts]

    apm = module_assign(tree, 'attr_profile_map')
    expect(isinstance(apm, ast.Dict), 'attr_profile_map must be a dict literal')
    pairs = []
    for k, v in zip(apm.keys, apm.values):
        expect(isinstance(v, ast.Constant) and isinstance(v.value, str),
               'attr_profile_map values must be strings')
        pairs.append((attr_id(k, attr_ids), v.value))

    cls = find_class(tree, 'ReactiveArmorHardenerSimulator')
    hm = [s for s in cls.body if isinstance(s, ast.Assign) and
          len(s.targets) == 1 and isinstance(s.targets[0], ast.Name) and
          s.targets[0].id == '_handler_map']
    expect(len(hm) == 1 and isinstance(hm[0].value, ast.Dict),
           '_handler_map must be one dict literal in the class body')
    handlers = []
    for k, v in zip(hm[0].value.keys, hm[0].value.values):
        expect(isinstance(k, ast.Name) and isinstance(v, ast.Name),
               '_handler_map entries must be Name: Name')
        fn = find_func(cls, v.id)
        handlers.append((k.id, v.id, calls_clear(fn)))
    check_notify(cls)
    check_sig_round(repo)

    # the modifiers the hardener effect gets
    mtree = parse(repo, 'eos/eve_obj/custom/reactive_armor_hardener/modifier.py')
    fn = find_func(mtree, 'make_rah_modifiers')
    calls = [n for n in ast.walk(fn) if isinstance(n, ast.Call) and
             isinstance(n.func, ast.Name) and n.func.id == 'DogmaModifier']
    expect(len(calls) == 1, 'make_rah_modifiers: one DogmaModifier(...) call expected')
    kw = {k.arg: k.value for k in calls[0].keywords}
    expect(set(kw) == {'affectee_filter', 'affectee_domain', 'affectee_attr_id',
                       'operator', 'aggregate_mode', 'affector_attr_id'} and
           not calls[0].args, 'DogmaModifier keyword set changed')
    expect(dotted(kw['affectee_attr_id']) == 'attr_id' and
           dotted(kw['affector_attr_id']) == 'attr_id',
           'hardener modifier must map an attribute onto the same attribute')
    mod = [dotted(kw['operator']), dotted(kw['affectee_domain']),
           dotted(kw['affectee_filter']), dotted(kw['aggregate_mode'])]
    gens = [n for n in ast.walk(fn) if isinstance(n, ast.GeneratorExp)]
    expect(len(gens) == 1 and len(gens[0].generators) == 1 and
           isinstance(gens[0].generators[0].iter, ast.Tuple) and
           dotted(gens[0].generators[0].target) == 'attr_id' and
           not gens[0].generators[0].ifs,
           'make_rah_modifiers: generator over a tuple of attributes expected')
    mod_attrs = [attr_id(e, attr_ids) for e in gens[0].generators[0].iter.elts]

    out = ['(* GENERATED by harness/tables_rah.py from %s, eos/util/round.py, '
           'eos/eve_obj/custom/reactive_armor_hardener/modifier.py, eos/const/eve.py '
           '-- do not edit *)' % SIM,
           'From Coq Require Import ZArith String List.',
           'Import ListNotations.',
           'Local Open Scope string_scope.',
           'Definition gen_MAX_SIMULATION_TICKS : nat := %d.' % max_ticks,
           'Definition gen_SIG_DIGITS : Z := (%d)%%Z.' % sig_digits,
           'Definition gen_res_attr_ids : list Z := [%s]%%Z.' %
           '; '.join(str(i) for i in res_ids),
           'Definition gen_attr_profile_map : list (Z * string) := [%s].' %
           '; '.join('((%d)%%Z, %s)' % (i, coq_str(s)) for i, s in pairs),
           'Definition gen_handlers : list (string * string * bool) := [%s].' %
           '; '.join('(%s, %s, %s)' % (coq_str(a), coq_str(b), 'true' if c else 'false')
                     for a, b, c in handlers),
           'Definition gen_rah_modifier : list string := [%s].' %
           '; '.join(coq_str(s) for s in mod),
           'Definition gen_rah_modifier_attrs : list Z := [%s]%%Z.' %
           '; '.join(str(i) for i in mod_attrs),
           '']
    return '\n'.join(out)


if __name__ == '__main__':
    import sys
    print(generate(sys.argv[1] if len(sys.argv) > 1 else '/repo'))
