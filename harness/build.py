#!/venv/bin/python
"""Serialised Coq build: harness/build.py [--tables a,b] target.vo ...
Regenerates the named tables (default: all), then `make`s the targets under the
project lock. Prints the build output; exit status is make's."""
import os
import sys
sys.path.insert(0, os.path.dirname(os.path.abspath(__file__)))
import common  # noqa

args = sys.argv[1:]
tables = None
if args and args[0] == '--tables':
    tables = [t for t in args[1].split(',') if t]
    args = args[2:]
with common.Lock():
    try:
        common.gen_tables(common.all_table_names() if tables is None else tables)
    except common.TieBroken as e:
        print('TRANSLATOR FAILED:', e.what, e.detail)
        sys.exit(2)
    rc, out = common.coq_make(args or [f[:-2] + '.vo' for f in common.coq_files()])
print(out[-8000:])
sys.exit(rc)
