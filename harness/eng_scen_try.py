"""development helper: run the feature-interaction scenarios on model and implementation"""
import os, sys, random
sys.path.insert(0, os.path.dirname(os.path.abspath(__file__)))
import common
sys.path.insert(0, common.REPO)
import eng_run, eng_impl, eng_scen, eng_oracle

seed = int(sys.argv[1]) if len(sys.argv) > 1 else 0
only = sys.argv[2] if len(sys.argv) > 2 else None
exe = common.build_driver('engine')
eng_impl.set_penalty_base(0.5)
pens = eng_impl.penalties()
rng = random.Random(seed)
sc = [s for s in eng_scen.scenarios(rng, 'quick') if only is None or only in s[0]]
hs = [eng_run.build_script(ul, ol, meta, 'all', rng) for _, ul, ol, meta in sc]
res = eng_run.run_histories(exe, hs, pens, eng_impl.Impl)
print('histories', res.histories, 'lines', res.lines, 'exact', res.exact_vals, 'inexact', res.inexact_vals,
      'internal', len(res.internal), 'disagreements', len(res.disagreements))
print('exn', res.exn_hist)
for d in res.internal[:5]:
    print('INTERNAL', sc[d['history']][0], d['cmd'], d['model'], d['impl'])
for d in res.disagreements[:8]:
    print('DISAGREE', sc[d['history']][0], d['cmd'], '| model', d['model'][:150], '| impl', d['impl'][:150])
    h = hs[d['history']]
    print('   ops before:', [l for l, k in h[:d['index'] + 1] if k == 'op'][-10:])
# the mirror oracle on every scenario
bad = 0
for name, ul, ol, meta in sc:
    lines = [l for l, k in eng_run.build_script(ul, ol, meta, 'all', rng) if not l.startswith(('u_', 'commit'))]
    why = eng_oracle.oracle_c01(ul, lines, meta, every=1)
    if why:
        bad += 1
        print('ORACLE', name, why['fails'][:200])
print('oracle failures', bad)
