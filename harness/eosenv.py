"""In-memory cache handler and small helpers to build eos worlds in-process."""
from fractions import Fraction

from eos.cache_handler import AttrFetchError
from eos.cache_handler import EffectFetchError
from eos.cache_handler import TypeFetchError
from eos.eve_obj.attribute import AttrFactory
from eos.eve_obj.effect import EffectFactory
from eos.eve_obj.type import TypeFactory
from eos.source import Source


class MemCacheHandler:
    def __init__(self):
        self.types = {}
        self.attrs = {}
        self.effects = {}
        self.buffs = {}

    def mktype(self, type_id, **kw):
        t = TypeFactory.make(type_id=type_id, **kw)
        self.types[type_id] = t
        return t

    def mkattr(self, attr_id, **kw):
        a = AttrFactory.make(attr_id=attr_id, **kw)
        self.attrs[attr_id] = a
        return a

    def mkeffect(self, effect_id, **kw):
        e = EffectFactory.make(effect_id=effect_id, **kw)
        self.effects[effect_id] = e
        return e

    def get_type(self, type_id):
        try:
            return self.types[type_id]
        except KeyError:
            raise TypeFetchError(type_id)

    def get_attr(self, attr_id):
        try:
            return self.attrs[attr_id]
        except KeyError:
            raise AttrFetchError(attr_id)

    def get_effect(self, effect_id):
        try:
            return self.effects[effect_id]
        except KeyError:
            raise EffectFetchError(effect_id)

    def get_buff_templates(self, buff_id):
        from eos.cache_handler import BuffTemplatesFetchError
        try:
            return self.buffs[buff_id]
        except KeyError:
            raise BuffTemplatesFetchError(buff_id)

    def get_fingerprint(self):
        return 'mem'


def mksource(alias='t'):
    ch = MemCacheHandler()
    return Source(alias, ch), ch


def bits(n):
    """int -> binary string understood by the OCaml drivers."""
    n = int(n)
    if n == 0:
        return '0'
    return ('-' if n < 0 else '') + bin(abs(n))[2:]


def qstr(x):
    """number -> 'num/den' in binary (exact value of a float)."""
    f = Fraction(x)
    return bits(f.numerator) + '/' + bits(f.denominator)


def parse_q(s):
    n, d = s.split('/')
    return Fraction(int(n, 2), int(d, 2))
