"""C05 — which effects run is a fixed function of state, run mode and effect category."""
import engcheck
import eng_gen
import eng_oracle
from eng_gen import q

PROP_FILE = 'props/C05.v'
RULE = ('(a) EXHAUSTIVE decision table on real items: item state(4) x run mode(4 + one unknown) x effect category '
        '(6 mapped) x default effect? x online effect {absent, present in full compliance, stopped by '
        'force_stop, forced to run, state compliance} x chance attribute? = 4800 rows, each a module built through the public API whose '
        'effects[eid].status is compared with the model (whose resolver is proved equal to the documented decision '
        'on the whole finite domain); (b) histories dominated by state and effect-mode changes (55%), incl. charges '
        'following their container, source switches and unloaded items; non-trivial = at least one '
        'AttrsValueChanged or EffectApplied delivered; message_histogram.OpOutsideRunningHyp / OpOutsideFlatHyp '
        'count the generated calls outside the hypotheses of the two every-history theorems (directly held items / '
        'charges and autocharges in flat worlds); for those calls the correspondence alone stands')

CATS = [0, 1, 2, 4, 5, 7]


def table_histories(rng, tier):
    out = []
    k = 0
    for st in (1, 2, 3, 4):
        for mode in (1, 2, 3, 4, 9):
            for cat in CATS:
                for default in (0, 1):
                    for online in ('absent', 'running', 'stopped', 'forced', 'statecomp'):
                        for chance in (0, 1):
                            ul = ['u_attr 1 1000 - 1 1 -',
                                  'u_effect 1 2000 %d %s - 0 -' % (cat, '1000' if chance else '-'),
                                  'u_effect 1 16 4 - - 0 -',
                                  'u_type 1 1381 - - -',
                                  'u_type 1 3200 50 7 %s' % ('2000' if default else '-'),
                                  'u_tattr 1 3200 1000 %s' % q(1),
                                  'u_teffect 1 3200 2000']
                            if online != 'absent':
                                ul.append('u_teffect 1 3200 16')
                            ul.append('commit 1')
                            ops = ['solsys 1', 'fit 1 1', 'new 10 modhigh 3200 %d 0' % st, 'source 1 1', 'ssadd 1 1',
                                   'rappend 1 high 10']
                            if mode != 1:
                                ops.append('mode 10 2000 %d' % mode)
                            if online == 'stopped':
                                ops.append('mode 10 16 4')
                            elif online == 'forced':
                                ops.append('mode 10 16 3')     # 'online' itself forced to run whatever the state
                            elif online == 'statecomp':
                                ops.append('mode 10 16 2')
                            ops.append('effects 10')
                            meta = dict(items=[1, 10], fits=[1], sss=[1], attrs=[1000], setup_len=len(ops))
                            out.append(('row%d' % k, ul, ops, meta))
                            k += 1
    return out


def gen(rng):
    return eng_gen.gen_history(rng, profile='state')


def run(rep):
    res, hists = engcheck.run(rep, 'C05', PROP_FILE, gen, 80, 6000, ['all', 'some'], eng_oracle.oracle_c05, RULE, direct=10,
                              extra_histories=table_histories)
    rep.cov['exhaustive'] = True
    rep.cov['exhaustive_part'] = 'decision table rows: %d' % sum(1 for h in hists if h[0].startswith('row'))


def replay(path):
    return engcheck.replay(path, eng_oracle.oracle_c05)
