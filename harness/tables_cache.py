"""Translator for C15/C16: eos/cache_handler/json_cache_handler.py (+ the
constructors of the five cached classes) -> coq/gen/T_cache.v.

Emitted (each matched against one expected source shape, anything else raises
Shape = fail closed):
  * X_compress   : list cexpr         -- the returned tuple of __X_compress
  * X_decompress : list (string * dexpr)  -- keyword -> index expression of __X_decompress
  * X_init       : list (string * string * iconv) -- attribute <- parameter in X.__init__
  * X_params     : list (string * pdef)  -- constructor parameters and defaults
  * mem_steps    : list step          -- __update_memory_cache, statement by statement
  * load_where / load_handler_steps / load_reraise / load_catch_all
                                      -- __load_persistent_cache try/except/else
  * cache_keys / update_order / objs_order -- update_cache
"""
import ast

from pyast import Shape, parse, find_class, find_func, dotted, expect

ENT = ['type', 'attr', 'effect', 'modifier', 'buff_template']
STORAGE = {'__type_storage': 'SType', '__attr_storage': 'SAttr',
           '__effect_storage': 'SEffect',
           '__buff_template_storage': 'SBuff'}
ENT_STORAGE = {'type': 'SType', 'attr': 'SAttr', 'effect': 'SEffect',
               'buff_template': 'SBuff'}
FACTORY = {'type': 'TypeFactory.make', 'attr': 'AttrFactory.make',
           'effect': 'EffectFactory.make', 'modifier': 'DogmaModifier',
           'buff_template': 'WarfareBuffTemplate'}


def body_of(fn):
    return [s for s in fn.body
            if not (isinstance(s, ast.Expr) and isinstance(s.value, ast.Constant))]


def cstr(s):
    expect('"' not in s and '\\' not in s, 'unexpected character in name %r' % s)
    return '"%s"' % s


def is_none(e):
    return isinstance(e, ast.Constant) and e.value is None


def idx_of(e, var):
    """var[<int>] -> int"""
    expect(isinstance(e, ast.Subscript) and isinstance(e.value, ast.Name) and
           e.value.id == var and isinstance(e.slice, ast.Constant) and
           isinstance(e.slice.value, int) and not isinstance(e.slice.value, bool)
           and e.slice.value >= 0, 'expected %s[<index>], got %s' % (var, ast.dump(e)[:120]))
    return e.slice.value


def single_gen(e):
    """tuple(<elt> for <name> in <iter>) -> (elt, name, iter)"""
    expect(isinstance(e, ast.Call) and dotted(e.func) == 'tuple' and
           len(e.args) == 1 and not e.keywords and
           isinstance(e.args[0], ast.GeneratorExp), 'expected tuple(<generator>)')
    g = e.args[0]
    expect(len(g.generators) == 1 and not g.generators[0].ifs and
           isinstance(g.generators[0].target, ast.Name), 'generator shape')
    return g.elt, g.generators[0].target.id, g.generators[0].iter


# ---------------------------------------------------------------------------
# compress
# ---------------------------------------------------------------------------

def compress_expr(e, obj, locals_):
    # obj.NAME
    if isinstance(e, ast.Attribute) and isinstance(e.value, ast.Name) and e.value.id == obj:
        return 'CAttr %s' % cstr(e.attr)
    # local computed above
    if isinstance(e, ast.Name) and e.id in locals_:
        return locals_[e.id]
    if isinstance(e, ast.Call) and isinstance(e.func, ast.Name) and e.func.id == 'tuple':
        expect(len(e.args) == 1 and not e.keywords, 'tuple() arity')
        a = e.args[0]
        # tuple(obj.NAME.items()) / tuple(obj.NAME.keys())
        if isinstance(a, ast.Call) and isinstance(a.func, ast.Attribute) and \
                a.func.attr in ('items', 'keys') and not a.args and not a.keywords:
            tgt = a.func.value
            expect(isinstance(tgt, ast.Attribute) and isinstance(tgt.value, ast.Name)
                   and tgt.value.id == obj, 'tuple(obj.X.items()) shape')
            return '%s %s' % ('CItems' if a.func.attr == 'items' else 'CKeys',
                              cstr(tgt.attr))
        # tuple(self.__modifier_compress(m) for m in obj.NAME)
        elt, var, it = single_gen(e)
        expect(isinstance(elt, ast.Call) and dotted(elt.func) == 'self.__modifier_compress'
               and len(elt.args) == 1 and isinstance(elt.args[0], ast.Name) and
               elt.args[0].id == var and not elt.keywords, 'sub-compress call shape')
        expect(isinstance(it, ast.Attribute) and isinstance(it.value, ast.Name) and
               it.value.id == obj, 'sub-compress iterable shape')
        return 'CSub %s' % cstr(it.attr)
    raise Shape('unsupported compress expression %s' % ast.dump(e)[:120])


def compress_table(cls, ent):
    fn = find_func(cls, '__%s_compress' % ent)
    expect(len(fn.args.args) == 2, '%s_compress arity' % ent)
    obj = fn.args.args[1].arg
    body = body_of(fn)
    locals_ = {}
    # optional: if obj.X is not None: v = obj.X.id  else: v = None
    while len(body) > 1 and isinstance(body[0], ast.If):
        st = body.pop(0)
        t = st.test
        expect(isinstance(t, ast.Compare) and len(t.ops) == 1 and
               isinstance(t.ops[0], ast.IsNot) and is_none(t.comparators[0]) and
               isinstance(t.left, ast.Attribute) and isinstance(t.left.value, ast.Name)
               and t.left.value.id == obj, 'compress: if obj.X is not None shape')
        name = t.left.attr
        expect(len(st.body) == 1 and len(st.orelse) == 1 and
               isinstance(st.body[0], ast.Assign) and isinstance(st.orelse[0], ast.Assign),
               'compress: if/else assign shape')
        v1, v2 = st.body[0], st.orelse[0]
        expect(isinstance(v1.targets[0], ast.Name) and isinstance(v2.targets[0], ast.Name)
               and v1.targets[0].id == v2.targets[0].id, 'compress: same local')
        expect(dotted(v1.value) == '%s.%s.id' % (obj, name) and is_none(v2.value),
               'compress: local = obj.X.id / None')
        locals_[v1.targets[0].id] = 'CSubId %s' % cstr(name)
    # `x = (...)` ; `return x`   or   `return (...)`
    if len(body) == 2 and isinstance(body[0], ast.Assign) and isinstance(body[1], ast.Return):
        expect(isinstance(body[0].targets[0], ast.Name) and
               isinstance(body[1].value, ast.Name) and
               body[1].value.id == body[0].targets[0].id, 'compress: assign/return shape')
        tup = body[0].value
    else:
        expect(len(body) == 1 and isinstance(body[0], ast.Return), '%s_compress body shape' % ent)
        tup = body[0].value
    expect(isinstance(tup, ast.Tuple), '%s_compress must return a tuple literal' % ent)
    return [compress_expr(e, obj, locals_) for e in tup.elts]


# ---------------------------------------------------------------------------
# decompress
# ---------------------------------------------------------------------------

def decompress_expr(e, var, locals_):
    if isinstance(e, ast.Name) and e.id in locals_:
        return locals_[e.id]
    if isinstance(e, ast.Subscript):
        return 'DIdx %d' % idx_of(e, var)
    if isinstance(e, ast.DictComp):
        expect(len(e.generators) == 1 and not e.generators[0].ifs, 'dict comprehension shape')
        g = e.generators[0]
        expect(isinstance(g.target, ast.Tuple) and len(g.target.elts) == 2 and
               all(isinstance(x, ast.Name) for x in g.target.elts), 'dict comprehension target')
        k, v = (x.id for x in g.target.elts)
        expect(isinstance(e.key, ast.Name) and e.key.id == k, 'dict comprehension key')
        i = idx_of(g.iter, var)
        if isinstance(e.value, ast.Name) and e.value.id == v:
            return 'DDictComp %d' % i
        val = e.value
        expect(isinstance(val, ast.Call) and dotted(val.func) == 'AbilityData' and
               len(val.args) == 1 and isinstance(val.args[0], ast.Starred) and
               isinstance(val.args[0].value, ast.Name) and val.args[0].value.id == v
               and not val.keywords, 'AbilityData(*v) shape')
        return 'DAbil %d' % i
    if isinstance(e, ast.Call):
        elt, gv, it = single_gen(e)
        i = idx_of(it, var)
        expect(isinstance(elt, ast.Call) and len(elt.args) == 1 and not elt.keywords and
               isinstance(elt.args[0], ast.Name) and elt.args[0].id == gv,
               'generator element call shape')
        f = dotted(elt.func)
        if f == 'self.get_effect':
            return 'DEffects %d' % i
        if f == 'self.__modifier_decompress':
            return 'DSub %d' % i
        raise Shape('unexpected call %s in decompress' % f)
    raise Shape('unsupported decompress expression %s' % ast.dump(e)[:120])


def decompress_table(cls, ent):
    fn = find_func(cls, '__%s_decompress' % ent)
    expect(len(fn.args.args) == 2, '%s_decompress arity' % ent)
    var = fn.args.args[1].arg
    body = body_of(fn)
    locals_ = {}
    # optional prelude:  x_id = data[i]; if x_id is None: x = None else: x = self.get_effect(x_id)
    while len(body) > 1:
        expect(len(body) >= 3 and isinstance(body[0], ast.Assign) and
               isinstance(body[1], ast.If), '%s_decompress prelude shape' % ent)
        a, st = body[0], body[1]
        body = body[2:]
        expect(isinstance(a.targets[0], ast.Name), 'prelude assign target')
        lid = a.targets[0].id
        i = idx_of(a.value, var)
        t = st.test
        expect(isinstance(t, ast.Compare) and len(t.ops) == 1 and isinstance(t.ops[0], ast.Is)
               and isinstance(t.left, ast.Name) and t.left.id == lid and
               is_none(t.comparators[0]), 'prelude: if x is None')
        expect(len(st.body) == 1 and len(st.orelse) == 1 and
               isinstance(st.body[0], ast.Assign) and isinstance(st.orelse[0], ast.Assign),
               'prelude if/else shape')
        b1, b2 = st.body[0], st.orelse[0]
        expect(isinstance(b1.targets[0], ast.Name) and isinstance(b2.targets[0], ast.Name) and
               b1.targets[0].id == b2.targets[0].id and is_none(b1.value), 'prelude branches')
        c = b2.value
        expect(isinstance(c, ast.Call) and dotted(c.func) == 'self.get_effect' and
               len(c.args) == 1 and isinstance(c.args[0], ast.Name) and c.args[0].id == lid,
               'prelude: self.get_effect(x)')
        locals_[b1.targets[0].id] = 'DDefault %d' % i
    expect(len(body) == 1 and isinstance(body[0], ast.Return) and
           isinstance(body[0].value, ast.Call), '%s_decompress return shape' % ent)
    call = body[0].value
    expect(dotted(call.func) == FACTORY[ent], '%s_decompress must call %s' % (ent, FACTORY[ent]))
    expect(not call.args, 'positional arguments in %s_decompress' % ent)
    out = []
    for kw in call.keywords:
        expect(kw.arg is not None, '**kwargs in decompress')
        out.append('(%s, %s)' % (cstr(kw.arg), decompress_expr(kw.value, var, locals_)))
    return out


# ---------------------------------------------------------------------------
# constructors
# ---------------------------------------------------------------------------

def default_of(e):
    if e is None:
        return 'PRequired'
    if is_none(e):
        return 'PNone'
    if isinstance(e, ast.Constant) and e.value is True:
        return 'PTrue'
    if isinstance(e, ast.Constant) and e.value is False:
        return 'PFalse'
    if isinstance(e, ast.Tuple) and not e.elts:
        return 'PEmptyTuple'
    raise Shape('unsupported parameter default %s' % ast.dump(e)[:80])


def params_of(fn):
    a = fn.args
    expect(not a.vararg and not a.kwarg and not a.kwonlyargs and not a.posonlyargs,
           'constructor signature shape')
    names = [x.arg for x in a.args][1:]
    defs = [None] * (len(names) - len(a.defaults)) + list(a.defaults)
    return [(n, default_of(d)) for n, d in zip(names, defs)]


def init_assigns(fn, params):
    """self.A = P | self.A = bool(P) | self.A = {e.id: e for e in P} |
    `if P is None: P = {}` (recorded as IDictOrEmpty on the later assignment)"""
    pnames = {n for n, _ in params}
    out = []
    empties = set()
    for st in body_of(fn):
        if isinstance(st, ast.If):
            t = st.test
            expect(isinstance(t, ast.Compare) and len(t.ops) == 1 and isinstance(t.ops[0], ast.Is)
                   and isinstance(t.left, ast.Name) and t.left.id in pnames and
                   is_none(t.comparators[0]) and not st.orelse and len(st.body) == 1 and
                   isinstance(st.body[0], ast.Assign) and
                   isinstance(st.body[0].targets[0], ast.Name) and
                   st.body[0].targets[0].id == t.left.id and
                   isinstance(st.body[0].value, ast.Dict) and not st.body[0].value.keys,
                   '__init__: if P is None: P = {} shape')
            empties.add(t.left.id)
            continue
        expect(isinstance(st, ast.Assign) and len(st.targets) == 1 and
               isinstance(st.targets[0], ast.Attribute) and
               isinstance(st.targets[0].value, ast.Name) and st.targets[0].value.id == 'self',
               '__init__: unexpected statement %s' % ast.dump(st)[:100])
        attr = st.targets[0].attr
        v = st.value
        if isinstance(v, ast.Name):
            expect(v.id in pnames, '__init__: unknown name %s' % v.id)
            out.append((attr, v.id, 'IEmptyIfNone' if v.id in empties else 'IPlain'))
        elif isinstance(v, ast.Call):
            expect(dotted(v.func) == 'bool' and len(v.args) == 1 and
                   isinstance(v.args[0], ast.Name) and v.args[0].id in pnames and
                   not v.keywords, '__init__: bool(P) shape')
            out.append((attr, v.args[0].id, 'IBool'))
        elif isinstance(v, ast.DictComp):
            g = v.generators
            expect(len(g) == 1 and not g[0].ifs and isinstance(g[0].target, ast.Name) and
                   isinstance(g[0].iter, ast.Name) and g[0].iter.id in pnames and
                   dotted(v.key) == g[0].target.id + '.id' and
                   isinstance(v.value, ast.Name) and v.value.id == g[0].target.id,
                   '__init__: {e.id: e for e in P} shape')
            out.append((attr, g[0].iter.id, 'IById'))
        else:
            raise Shape('__init__: unsupported value %s' % ast.dump(v)[:100])
    return out


def ctor_tables(repo):
    res = {}
    specs = [('type', 'eos/eve_obj/type/type.py', 'Type'),
             ('attr', 'eos/eve_obj/attribute/attribute.py', 'Attribute'),
             ('effect', 'eos/eve_obj/effect/effect.py', 'Effect'),
             ('buff_template', 'eos/eve_obj/buff_template.py', 'WarfareBuffTemplate')]
    for ent, rel, cname in specs:
        fn = find_func(find_class(parse(repo, rel), cname), '__init__')
        params = params_of(fn)
        res[ent] = (params, init_assigns(fn, params))
    # DogmaModifier: BaseModifier.__init__(self, k=k, ...) then plain assignments
    base = find_func(find_class(parse(repo, 'eos/eve_obj/modifier/base.py'), 'BaseModifier'),
                     '__init__')
    bparams = params_of(base)
    bassign = init_assigns(base, bparams)
    dm = find_func(find_class(parse(repo, 'eos/eve_obj/modifier/dogma.py'), 'DogmaModifier'),
                   '__init__')
    params = params_of(dm)
    body = body_of(dm)
    first = body[0]
    expect(isinstance(first, ast.Expr) and isinstance(first.value, ast.Call) and
           dotted(first.value.func) == 'BaseModifier.__init__' and
           len(first.value.args) == 1 and dotted(first.value.args[0]) == 'self',
           'DogmaModifier.__init__: base call shape')
    passed = {}
    for kw in first.value.keywords:
        expect(kw.arg is not None and isinstance(kw.value, ast.Name) and
               kw.value.id in {n for n, _ in params}, 'base call keyword shape')
        passed[kw.arg] = kw.value.id
    expect(set(passed) == {n for n, _ in bparams}, 'base call must pass every base parameter')
    assigns = []
    for attr, p, conv in bassign:
        assigns.append((attr, passed[p], conv))
    rest = ast.FunctionDef(name='__init__', args=dm.args, body=body[1:], decorator_list=[])
    assigns += init_assigns(rest, params)
    res['modifier'] = (params, assigns)
    # factories add nothing but customisation: make(cls, *args, **kwargs) -> Class(*args, **kwargs)
    return res


# ---------------------------------------------------------------------------
# memory update / loader / update_cache
# ---------------------------------------------------------------------------

def self_attr(e):
    """self.__name -> '__name'"""
    if isinstance(e, ast.Attribute) and isinstance(e.value, ast.Name) and e.value.id == 'self':
        return e.attr
    return None


def key_sub(e, var):
    """var['KEY'] -> KEY"""
    expect(isinstance(e, ast.Subscript) and isinstance(e.value, ast.Name) and e.value.id == var
           and isinstance(e.slice, ast.Constant) and isinstance(e.slice.value, str),
           "expected %s['key']" % var)
    return e.slice.value


def fill_step(st, var):
    key = key_sub(st.iter, var)
    expect(isinstance(st.target, ast.Name) and not st.orelse, 'fill loop shape')
    item = st.target.id
    b = st.body
    expect(len(b) >= 2 and isinstance(b[0], ast.Assign) and isinstance(b[0].targets[0], ast.Name)
           and isinstance(b[0].value, ast.Call), 'fill loop: decompress statement')
    obj = b[0].targets[0].id
    f = dotted(b[0].value.func)
    expect(len(b[0].value.args) == 1 and isinstance(b[0].value.args[0], ast.Name) and
           b[0].value.args[0].id == item and not b[0].value.keywords, 'fill loop: decompress arg')
    ents = {'self.__%s_decompress' % e: e for e in ENT_STORAGE}
    expect(f in ents, 'fill loop: unexpected call %s' % f)
    ent = ents[f]
    if ent != 'buff_template':
        expect(len(b) == 2 and isinstance(b[1], ast.Assign), 'fill loop: store statement')
        t = b[1].targets[0]
        expect(isinstance(t, ast.Subscript) and self_attr(t.value) == '__%s_storage' % ent and
               dotted(t.slice) == obj + '.id' and isinstance(b[1].value, ast.Name) and
               b[1].value.id == obj, 'fill loop: storage[obj.id] = obj shape')
    else:
        expect(len(b) == 3 and isinstance(b[1], ast.Assign) and isinstance(b[2], ast.Expr),
               'buff fill loop shape')
        c = b[1].value
        expect(isinstance(b[1].targets[0], ast.Name) and isinstance(c, ast.Call) and
               isinstance(c.func, ast.Attribute) and c.func.attr == 'setdefault' and
               self_attr(c.func.value) == '__buff_template_storage' and len(c.args) == 2 and
               dotted(c.args[0]) == obj + '.buff_id' and isinstance(c.args[1], ast.Call) and
               dotted(c.args[1].func) == 'set' and not c.args[1].args,
               'buff fill: setdefault(obj.buff_id, set()) shape')
        s = b[1].targets[0].id
        a = b[2].value
        expect(isinstance(a, ast.Call) and dotted(a.func) == s + '.add' and len(a.args) == 1
               and isinstance(a.args[0], ast.Name) and a.args[0].id == obj, 'buff fill: add shape')
    return 'Fill %s %s' % (ENT_STORAGE[ent], cstr(key))


def steps_of(cls, stmts, var, depth=0):
    out = []
    for st in stmts:
        if isinstance(st, ast.Expr) and isinstance(st.value, ast.Constant):
            continue
        if isinstance(st, ast.Expr) and isinstance(st.value, ast.Call):
            c = st.value
            if isinstance(c.func, ast.Attribute) and c.func.attr == 'clear' and \
                    self_attr(c.func.value) in STORAGE and not c.args and not c.keywords:
                out.append('Clear %s' % STORAGE[self_attr(c.func.value)])
                continue
            name = self_attr(c.func)
            if name is not None and not c.args and not c.keywords and depth == 0:
                helper = find_func(cls, name)
                expect(len(helper.args.args) == 1, 'helper %s takes arguments' % name)
                out += steps_of(cls, helper.body, None, depth + 1)
                continue
            raise Shape('unexpected call statement %s' % ast.dump(st)[:120])
        if isinstance(st, ast.For) and var is not None:
            out.append(fill_step(st, var))
            continue
        if isinstance(st, ast.Assign) and len(st.targets) == 1 and \
                self_attr(st.targets[0]) == '__fingerprint':
            if is_none(st.value):
                out.append('ResetFp')
            else:
                expect(var is not None, 'fingerprint from data in a helper')
                out.append('SetFp %s' % cstr(key_sub(st.value, var)))
            continue
        raise Shape('unexpected statement in memory update: %s' % ast.dump(st)[:120])
    return out


def is_update_call(st):
    return isinstance(st, ast.Expr) and isinstance(st.value, ast.Call) and \
        dotted(st.value.func) == 'self.__update_memory_cache' and \
        len(st.value.args) == 1 and dotted(st.value.args[0]) == 'cache_data' and \
        not st.value.keywords


def load_shape(cls):
    fn = find_func(cls, '__load_persistent_cache')
    body = body_of(fn)
    expect(len(body) == 2 and isinstance(body[0], ast.If) and isinstance(body[1], ast.Try),
           'loader: expected `if not exists: return` + try')
    g = body[0]
    expect(isinstance(g.test, ast.UnaryOp) and isinstance(g.test.op, ast.Not) and
           isinstance(g.test.operand, ast.Call) and dotted(g.test.operand.func) == 'os.path.exists'
           and len(g.body) == 1 and isinstance(g.body[0], ast.Return) and g.body[0].value is None
           and not g.orelse, 'loader: existence guard shape')
    tr = body[1]
    expect(not tr.finalbody, 'loader: unexpected finally')
    tb = tr.body
    expect(len(tb) in (1, 2) and isinstance(tb[0], ast.With), 'loader: try body shape')
    w = tb[0]
    expect(len(w.items) == 1 and isinstance(w.items[0].context_expr, ast.Call) and
           dotted(w.items[0].context_expr.func) == 'bz2.BZ2File', 'loader: with bz2.BZ2File')
    expect(len(w.body) == 2 and all(isinstance(s, ast.Assign) for s in w.body) and
           dotted(w.body[1].targets[0]) == 'cache_data' and
           isinstance(w.body[1].value, ast.Call) and dotted(w.body[1].value.func) == 'json.loads',
           'loader: read + json.loads shape')
    where = None
    if len(tb) == 2:
        expect(is_update_call(tb[1]), 'loader: second try statement must be the memory update')
        where = 'InTry'
    if tr.orelse:
        expect(where is None and len(tr.orelse) == 1 and is_update_call(tr.orelse[0]),
               'loader: else shape')
        where = 'InElse'
    expect(where is not None, 'loader: memory update call not found')
    reraise = []
    catch_all = False
    hsteps = []
    for h in tr.handlers:
        expect(not catch_all, 'loader: handler after catch-all')
        if h.type is None or (isinstance(h.type, ast.Name) and h.type.id == 'BaseException'):
            catch_all = True
            rest = []
            for st in h.body:
                # msg = '...'; logger.error(msg)
                if isinstance(st, ast.Assign) and isinstance(st.targets[0], ast.Name) and \
                        isinstance(st.value, ast.Constant) and isinstance(st.value.value, str):
                    continue
                if isinstance(st, ast.Expr) and isinstance(st.value, ast.Call) and \
                        dotted(st.value.func).startswith('logger.'):
                    continue
                rest.append(st)
            hsteps = steps_of(cls, rest, None)
        else:
            expect(isinstance(h.type, ast.Name) and len(h.body) == 1 and
                   isinstance(h.body[0], ast.Raise) and h.body[0].exc is None,
                   'loader: only `except X: raise` handlers before the catch-all')
            reraise.append(h.type.id)
    return where, hsteps, reraise, catch_all


def update_cache_shape(cls):
    fn = find_func(cls, 'update_cache')
    expect([a.arg for a in fn.args.args] == ['self', 'eve_objects', 'fingerprint'],
           'update_cache signature')
    body = body_of(fn)
    expect(len(body) == 4, 'update_cache: expected 4 statements')
    u = body[0]
    expect(isinstance(u, ast.Assign) and isinstance(u.targets[0], ast.Tuple) and
           dotted(u.value) == 'eve_objects', 'update_cache: unpack shape')
    names = [dotted(x) for x in u.targets[0].elts]
    d = body[1]
    expect(isinstance(d, ast.Assign) and dotted(d.targets[0]) == 'cache_data' and
           isinstance(d.value, ast.Dict), 'update_cache: cache_data dict literal')
    var_ent = {}
    keys = []
    for k, v in zip(d.value.keys, d.value.values):
        expect(isinstance(k, ast.Constant) and isinstance(k.value, str), 'cache_data key')
        if isinstance(v, ast.Name):
            expect(v.id == 'fingerprint', 'cache_data: unexpected name %s' % v.id)
            keys.append('(%s, KFingerprint)' % cstr(k.value))
            continue
        expect(isinstance(v, ast.ListComp) and len(v.generators) == 1 and
               not v.generators[0].ifs and isinstance(v.generators[0].target, ast.Name) and
               isinstance(v.generators[0].iter, ast.Name) and isinstance(v.elt, ast.Call) and
               len(v.elt.args) == 1 and dotted(v.elt.args[0]) == v.generators[0].target.id,
               'cache_data: list comprehension shape')
        f = dotted(v.elt.func)
        ents = {'self.__%s_compress' % e: e for e in ENT_STORAGE}
        expect(f in ents, 'cache_data: unexpected call %s' % f)
        src = v.generators[0].iter.id
        expect(src in names, 'cache_data: unknown collection %s' % src)
        var_ent[src] = ents[f]
        keys.append('(%s, KObjs %s %d)' % (cstr(k.value), ENT_STORAGE[ents[f]], names.index(src)))
    order = []
    for st in body[2:]:
        expect(isinstance(st, ast.Expr) and isinstance(st.value, ast.Call) and
               len(st.value.args) == 1 and dotted(st.value.args[0]) == 'cache_data',
               'update_cache: persist/memory call shape')
        f = dotted(st.value.func)
        expect(f in ('self.__update_persistent_cache', 'self.__update_memory_cache'),
               'update_cache: unexpected call %s' % f)
        order.append('UPersist' if 'persistent' in f else 'UMemory')
    return keys, order, len(names)


def getter_shape(cls):
    """get_X(id): int(id) [TypeError -> XFetchError]; storage[id] [KeyError -> XFetchError]"""
    for g, stor, err in (('get_type', '__type_storage', 'TypeFetchError'),
                         ('get_attr', '__attr_storage', 'AttrFetchError'),
                         ('get_effect', '__effect_storage', 'EffectFetchError'),
                         ('get_buff_templates', '__buff_template_storage',
                          'BuffTemplatesFetchError')):
        fn = find_func(cls, g)
        body = body_of(fn)
        expect(len(body) == 3 and isinstance(body[0], ast.Try) and isinstance(body[1], ast.Try)
               and isinstance(body[2], ast.Return), '%s shape' % g)
        arg = fn.args.args[1].arg
        t0, t1 = body[0], body[1]
        a0 = t0.body[0]
        expect(len(t0.body) == 1 and isinstance(a0, ast.Assign) and dotted(a0.targets[0]) == arg
               and isinstance(a0.value, ast.Call) and dotted(a0.value.func) == 'int' and
               dotted(a0.value.args[0]) == arg, '%s: int() conversion' % g)
        expect(len(t0.handlers) == 1 and dotted(t0.handlers[0].type) == 'TypeError' and
               isinstance(t0.handlers[0].body[0], ast.Raise) and
               dotted(t0.handlers[0].body[0].exc.func) == err, '%s: TypeError handler' % g)
        a1 = t1.body[0]
        expect(len(t1.body) == 1 and isinstance(a1, ast.Assign) and
               isinstance(a1.value, ast.Subscript) and self_attr(a1.value.value) == stor and
               dotted(a1.value.slice) == arg, '%s: storage lookup' % g)
        expect(len(t1.handlers) == 1 and dotted(t1.handlers[0].type) == 'KeyError' and
               isinstance(t1.handlers[0].body[0], ast.Raise) and
               dotted(t1.handlers[0].body[0].exc.func) == err, '%s: KeyError handler' % g)
        expect(dotted(body[2].value) == dotted(a1.targets[0]), '%s: return' % g)
    fp = body_of(find_func(cls, 'get_fingerprint'))
    expect(len(fp) == 1 and isinstance(fp[0], ast.Return) and
           self_attr(fp[0].value) == '__fingerprint', 'get_fingerprint shape')


def init_shape(cls):
    """constructor: four empty storages, fingerprint None, then the loader"""
    body = body_of(find_func(cls, '__init__'))
    seen = []
    for st in body[1:]:
        if isinstance(st, ast.Assign) and self_attr(st.targets[0]) in STORAGE:
            expect(isinstance(st.value, ast.Dict) and not st.value.keys, 'storage init')
            seen.append(self_attr(st.targets[0]))
        elif isinstance(st, ast.Assign) and self_attr(st.targets[0]) == '__fingerprint':
            expect(is_none(st.value), 'fingerprint init')
            seen.append('fp')
        else:
            expect(isinstance(st, ast.Expr) and isinstance(st.value, ast.Call) and
                   dotted(st.value.func) == 'self.__load_persistent_cache' and
                   st is body[-1], 'constructor: unexpected statement')
    expect(sorted(seen) == sorted(list(STORAGE) + ['fp']), 'constructor: storages')


def factory_shapes(repo):
    """X.make(...) = constructor(*args, **kwargs) followed only by registered
    customisation callables applied to the new object (effects, types); the
    attribute factory adds nothing."""
    def make_of(rel, cname):
        return find_func(find_class(parse(repo, rel), cname), 'make')

    def ctor_call(st, var, cls_expr, extra_first=None):
        expect(isinstance(st, ast.Assign) and dotted(st.targets[0]) == var and
               isinstance(st.value, ast.Call) and dotted(st.value.func) == cls_expr,
               'factory: %s = %s(...) shape' % (var, cls_expr))
        args = st.value.args
        if extra_first:
            expect(len(args) == 2 and dotted(args[0]) == extra_first, 'factory: first argument')
            args = args[1:]
        expect(len(args) == 1 and isinstance(args[0], ast.Starred) and
               dotted(args[0].value) == 'args' and len(st.value.keywords) == 1 and
               st.value.keywords[0].arg is None and dotted(st.value.keywords[0].value) == 'kwargs',
               'factory: (*args, **kwargs) shape')

    def cust_loop(st, var, iter_ok):
        expect(isinstance(st, ast.For) and isinstance(st.target, ast.Name) and len(st.body) == 1
               and isinstance(st.body[0], ast.Expr) and isinstance(st.body[0].value, ast.Call) and
               dotted(st.body[0].value.func) == st.target.id and
               [dotted(a) for a in st.body[0].value.args] == [var] and iter_ok(st.iter),
               'factory: customisation loop shape')

    b = body_of(make_of('eos/eve_obj/attribute/factory.py', 'AttrFactory'))
    expect(len(b) == 2 and isinstance(b[1], ast.Return) and dotted(b[1].value) == 'attr',
           'AttrFactory.make shape')
    ctor_call(b[0], 'attr', 'Attribute')
    b = body_of(make_of('eos/eve_obj/type/factory.py', 'TypeFactory'))
    expect(len(b) == 3 and isinstance(b[2], ast.Return) and dotted(b[2].value) == 'item_type',
           'TypeFactory.make shape')
    ctor_call(b[0], 'item_type', 'Type')
    cust_loop(b[1], 'item_type', lambda it: dotted(it) == 'cls._instance_funcs')
    b = body_of(make_of('eos/eve_obj/effect/factory.py', 'EffectFactory'))
    expect(len(b) == 4 and isinstance(b[3], ast.Return) and dotted(b[3].value) == 'effect',
           'EffectFactory.make shape')
    c = b[0]
    expect(isinstance(c, ast.Assign) and dotted(c.targets[0]) == 'effect_class' and
           isinstance(c.value, ast.Call) and dotted(c.value.func) == 'cls._class_id_map.get' and
           [dotted(a) for a in c.value.args] == ['effect_id', 'Effect'],
           'EffectFactory.make: class lookup (hashes effect_id)')
    ctor_call(b[1], 'effect', 'effect_class', extra_first='effect_id')
    cust_loop(b[2], 'effect', lambda it: isinstance(it, ast.Call) and
              dotted(it.func) == 'cls._instance_id_map.get' and dotted(it.args[0]) == 'effect.id')


def coq_list(items, indent='  '):
    if not items:
        return '[]'
    return '[\n' + ';\n'.join(indent + '  ' + i for i in items) + ']'


def generate(repo):
    tree = parse(repo, 'eos/cache_handler/json_cache_handler.py')
    cls = find_class(tree, 'JsonCacheHandler')
    init_shape(cls)
    getter_shape(cls)
    factory_shapes(repo)
    out = ['(* GENERATED by harness/tables_cache.py from eos/cache_handler/json_cache_handler.py',
           '   and the constructors of Type/Attribute/Effect/DogmaModifier/WarfareBuffTemplate',
           '   -- do not edit *)',
           'From Coq Require Import List String.',
           'From EosV Require Import model.CacheCodec.',
           'Import ListNotations.', 'Local Open Scope string_scope.', '']
    ctors = ctor_tables(repo)
    for ent in ENT:
        out.append('Definition g_%s_compress : list cexpr := %s.' %
                   (ent, coq_list(compress_table(cls, ent))))
        out.append('Definition g_%s_decompress : list (string * dexpr) := %s.' %
                   (ent, coq_list(decompress_table(cls, ent))))
        params, assigns = ctors[ent]
        out.append('Definition g_%s_params : list (string * pdef) := %s.' %
                   (ent, coq_list(['(%s, %s)' % (cstr(n), d) for n, d in params])))
        out.append('Definition g_%s_init : list (string * string * iconv) := %s.' %
                   (ent, coq_list(['(%s, %s, %s)' % (cstr(a), cstr(p), c)
                                   for a, p, c in assigns])))
        out.append('')
    upd = find_func(cls, '__update_memory_cache')
    expect(len(upd.args.args) == 2, '__update_memory_cache arity')
    steps = steps_of(cls, upd.body, upd.args.args[1].arg)
    out.append('Definition mem_steps : list step := %s.' % coq_list(steps))
    where, hsteps, reraise, catch_all = load_shape(cls)
    out.append('Definition load_where : where_ := %s.' % where)
    out.append('Definition load_handler_steps : list step := %s.' % coq_list(hsteps))
    out.append('Definition load_reraise : list string := %s.' %
               coq_list([cstr(r) for r in reraise]))
    out.append('Definition load_catch_all : bool := %s.' % ('true' if catch_all else 'false'))
    keys, order, n = update_cache_shape(cls)
    out.append('Definition cache_keys : list (string * ckey) := %s.' % coq_list(keys))
    out.append('Definition update_order : list ustep := %s.' % coq_list(order))
    out.append('Definition objs_arity : nat := %d.' % n)
    out.append('')
    out.append('Definition gen_tables : tables :=\n'
               '  mkTables g_type_compress g_type_decompress g_attr_compress g_attr_decompress\n'
               '    g_effect_compress g_effect_decompress g_modifier_compress g_modifier_decompress\n'
               '    g_buff_template_compress g_buff_template_decompress mem_steps cache_keys.')
    out.append('Definition gen_ctors : ctors :=\n'
               '  mkCtors (mkCtor g_type_params g_type_init) (mkCtor g_attr_params g_attr_init)\n'
               '    (mkCtor g_effect_params g_effect_init) (mkCtor g_modifier_params g_modifier_init)\n'
               '    (mkCtor g_buff_template_params g_buff_template_init).')
    out.append('Definition gen_load : load_shape := mkLoad load_where load_handler_steps load_catch_all.')
    return '\n'.join(out) + '\n'


if __name__ == '__main__':
    import sys
    print(generate(sys.argv[1] if len(sys.argv) > 1 else '/repo'))
