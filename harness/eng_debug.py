"""development helper: regenerate history #k of seed, shrink its first problem, print the minimal script"""
import os, sys, random, json
sys.path.insert(0, os.path.dirname(os.path.abspath(__file__)))
import common
sys.path.insert(0, common.REPO)
import eng_gen, eng_run, eng_impl, eng_shrink

seed = int(sys.argv[1]); hist = int(sys.argv[2]); disc = sys.argv[3]
internal = len(sys.argv) > 4 and sys.argv[4] == 'internal'
exe = common.build_driver('engine')
eng_impl.set_penalty_base(0.5)
pens = eng_impl.penalties()
rng = random.Random(seed)
for k in range(hist + 1):
    ul, ol, meta = eng_gen.gen_history(rng)
    h = eng_run.build_script(ul, ol, meta, disc, rng)
lines = [l for l, k in h if not l.startswith(('u_', 'commit'))]
lines, d = eng_shrink.shrink(exe, pens, ul, lines, internal)
print(d)
ul2 = eng_shrink.shrink_universe(exe, pens, ul, lines, internal)
script = ul2 + lines + ['trace']
impl = eng_impl.Impl()
mo = common.run_driver(exe, [eng_run.pen_line(pens)] + script, shards=1)[1:]
for l, m in zip(script, mo):
    i = impl.run(l) if not l.startswith('trace') else ''
    flag = '' if eng_run.same(l, m, i) or l == 'trace' else '   <<<<<<'
    print('%-40s | %s | %s%s' % (l, m[:700], i[:700], flag))
json.dump({'ulines': ul2, 'ops': lines}, open('/verif/.work/last_debug.json', 'w'), indent=0)
