"""development helper: regenerate history #k of seed, run ops only up to the op index n, print info"""
import os, sys, random, json
sys.path.insert(0, os.path.dirname(os.path.abspath(__file__)))
import common
sys.path.insert(0, common.REPO)
import eng_gen, eng_run, eng_impl

seed = int(sys.argv[1]); hist = int(sys.argv[2]); disc = sys.argv[3]
extra = sys.argv[4:]
exe = common.build_driver('engine')
eng_impl.set_penalty_base(0.5)
pens = eng_impl.penalties()
rng = random.Random(seed)
for k in range(hist + 1):
    ul, ol, meta = eng_gen.gen_history(rng)
    h = eng_run.build_script(ul, ol, meta, disc, rng)
res = eng_run.run_histories(exe, [h], pens, eng_impl.Impl)
d = (res.disagreements + res.internal)[0]
print(d)
idx = d['index']
lines = [l for l, k in h[:idx + 1] if k != 'obs'] 
# rerun ops only, then the failing command and extras
script = lines + [d['cmd']] + ['trace'] + extra
impl = eng_impl.Impl()
mo = common.run_driver(exe, [eng_run.pen_line(pens)] + script, shards=1)[1:]
for l, m in zip(script, mo):
    i = impl.run(l) if not l.startswith('trace') else ''
    if not l.startswith('u_') :
        flag = '' if eng_run.same(l, m, i) or l == 'trace' else '   <<<<<<'
        print('%-40s | %s | %s%s' % (l, m[:600], i[:600], flag))
json.dump({'ulines': ul, 'ops': [l for l in lines if not l.startswith(('u_', 'commit'))]}, open('/verif/.work/last_debug.json', 'w'))
