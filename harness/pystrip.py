import sys,ast
for p in sys.argv[1:]:
    src=open(p).read()
    t=ast.parse(src)
    for n in ast.walk(t):
        if isinstance(n,(ast.FunctionDef,ast.ClassDef,ast.Module)) and n.body and isinstance(n.body[0],ast.Expr) and isinstance(n.body[0].value,ast.Constant) and isinstance(n.body[0].value.value,str):
            n.body=n.body[1:] or [ast.Pass()]
    print('=====',p)
    print('\n'.join(l for l in ast.unparse(t).splitlines() if not l.startswith(('from ','import ')) and l.strip()))
