"""C14 — switching the data source equals rebuilding under the new source."""
import engcheck
import eng_gen
import eng_oracle

PROP_FILE = 'props/C14.v'
RULE = ('pairs of universes sharing ids (the second drops 20% of the types, changes attribute values, drops effects '
        'and attribute metadata); histories with 22% source switches (to the other source, to None and back) and 10% '
        'solar-system moves interleaved with state, charge, autocharge, effect-mode and target changes; full '
        'observation after every call, model vs implementation; non-trivial = at least one AttrsValueChanged or '
        'EffectApplied delivered')


def gen(rng):
    return eng_gen.gen_history(rng, profile='source')


def run(rep):
    engcheck.run(rep, 'C14', PROP_FILE, gen, 120, 6000, ['all', 'some'], eng_oracle.oracle_c01, RULE, direct=20)


def replay(path):
    return engcheck.replay(path, eng_oracle.oracle_c01)
