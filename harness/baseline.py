#!/venv/bin/python
"""Run the pinned test suite of a repo checkout (default /repo) and verify that
every test in BASELINE.json's stable_pass list passes.
usage: harness/baseline.py [repo_path]"""
import json
import os
import subprocess
import sys
import tempfile
import xml.etree.ElementTree as ET

repo = sys.argv[1] if len(sys.argv) > 1 else '/repo'
base = json.load(open('/root/.vp/BASELINE.json'))
want = set(base['stable_pass'])
fd, xml = tempfile.mkstemp(suffix='.xml')
os.close(fd)
env = dict(os.environ)
env.pop('EOS_VERIF', None)
env['PYTHONPATH'] = repo
p = subprocess.run(['/venv/bin/python', '-m', 'pytest', '-q', '-p', 'no:cacheprovider',
                    '--timeout=900', '--continue-on-collection-errors',
                    '--junitxml=' + xml], cwd=repo, env=env,
                   stdout=subprocess.PIPE, stderr=subprocess.STDOUT, text=True)
passed = set()
for tc in ET.parse(xml).getroot().iter('testcase'):
    if not list(tc):
        passed.add('%s::%s' % (tc.get('classname'), tc.get('name')))
os.remove(xml)
missing = sorted(want - passed)
print(p.stdout.splitlines()[-1])
print('stable_pass: %d, passing now: %d, missing: %d' % (len(want), len(want & passed), len(missing)))
for m in missing[:30]:
    print('  NOT PASSING:', m)
sys.exit(1 if missing else 0)
