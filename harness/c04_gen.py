"""C04 generators: the engine's universe/history generator (eng_gen) extended
with resource, slot, tanking, damage, repair and cycle attributes, the effect
ids of the damage-dealer / repairer / hardpoint / resource-use effect classes,
and reads of every fit.stats member and item-level getter."""
from fractions import Fraction as Fr

import eng_gen
from eng_gen import q, o
from eos.const.eos import State
from eos.const.eve import AttrId as A, EffectCategoryId as EC, EffectId as E, TypeId

DUR_WEAPON = int(A.speed)
DUR_REP = 73          # "duration" (not in eos' AttrId enum; any id works as duration_attr_id)

RESONANCES = [A.em_dmg_resonance, A.therm_dmg_resonance, A.kin_dmg_resonance, A.expl_dmg_resonance,
              A.armor_em_dmg_resonance, A.armor_therm_dmg_resonance, A.armor_kin_dmg_resonance,
              A.armor_expl_dmg_resonance, A.shield_em_dmg_resonance, A.shield_therm_dmg_resonance,
              A.shield_kin_dmg_resonance, A.shield_expl_dmg_resonance]
DMG = [A.em_dmg, A.therm_dmg, A.kin_dmg, A.expl_dmg]
SHIP_RES = [A.cpu_output, A.power_output, A.upgrade_capacity, A.drone_capacity, A.drone_bandwidth]
SHIP_SLOTS = [A.hi_slots, A.med_slots, A.low_slots, A.rig_slots, A.max_subsystems, A.fighter_tubes,
              A.turret_slots_left, A.launcher_slots_left, A.fighter_support_slots, A.fighter_light_slots,
              A.fighter_heavy_slots]
OTHER = [A.max_active_drones, A.upgrade_cost, A.volume, A.drone_bandwidth_used, A.fighter_squadron_is_support,
         A.fighter_squadron_is_light, A.fighter_squadron_is_heavy, A.hp, A.armor_hp, A.shield_capacity,
         A.dmg_mult, A.dmg_mult_bonus_max, A.capacity, A.charge_rate, A.reload_time,
         A.module_reactivation_delay, A.crystals_get_damaged, A.crystal_volatility_chance,
         A.crystal_volatility_dmg, A.armor_dmg_amount, A.shield_bonus, A.repair_mult_bonus_max,
         DUR_WEAPON, DUR_REP]
# attributes that modifiers of the generated universe may target (continuous uses only)
# (cpu_output / power_output are two-digit rounded attributes: modifying them with inexact operators
# puts binary64 and exact arithmetic on different sides of a rounding tie, so they are left unmodified)
STAT_TARGETS = [int(x) for x in (A.dmg_mult, A.em_dmg, A.kin_dmg, A.armor_hp, A.hp, A.drone_bandwidth,
                                 A.armor_dmg_amount, A.shield_bonus, A.drone_bandwidth_used, A.capacity,
                                 A.upgrade_cost)] + [DUR_WEAPON]

# role -> (effect id, category choices, duration attr)
ROLES = {
    'turret_ta': (E.target_attack, [EC.target], DUR_WEAPON),
    'projectile': (E.projectile_fired, [EC.target, EC.active], DUR_WEAPON),
    'chain': (E.chain_lightning, [EC.target], DUR_WEAPON),
    'disintegrator': (E.target_disintegrator_attack, [EC.target], DUR_WEAPON),
    'missile': (E.use_missiles, [EC.target, EC.active], DUR_WEAPON),
    'smartbomb': (E.emp_wave, [EC.active], DUR_WEAPON),
    'doomsday': (E.super_weapon_amarr, [EC.active], DUR_WEAPON),
    'armor_rep': (E.armor_repair, [EC.active], DUR_REP),
    'shield_rep': (E.shield_boosting, [EC.active], DUR_REP),
    'fueled_shield': (E.fueled_shield_boosting, [EC.active], DUR_REP),
    'remote_armor': (E.ship_module_remote_armor_repairer, [EC.target], DUR_REP),
    'remote_armor_mut': (E.ship_module_remote_armor_mutadaptive_repairer, [EC.target], DUR_REP),
    'remote_armor_npc': (E.npc_entity_remote_armor_repairer, [EC.target], DUR_REP),
    'remote_shield': (E.ship_module_remote_shield_booster, [EC.target], DUR_REP),
    'remote_shield_anc': (E.ship_module_ancillary_remote_shield_booster, [EC.target], DUR_REP),
    'remote_shield_npc': (E.npc_entity_remote_shield_booster, [EC.target], DUR_REP),
}
ROLE_WEIGHTS = [('turret_ta', 5), ('projectile', 4), ('chain', 1), ('disintegrator', 2), ('missile', 5),
                ('smartbomb', 3), ('doomsday', 1), ('armor_rep', 7), ('shield_rep', 5), ('fueled_shield', 4),
                ('remote_armor', 2), ('remote_armor_mut', 1), ('remote_armor_npc', 1), ('remote_shield', 2),
                ('remote_shield_anc', 1), ('remote_shield_npc', 1)]


def F(*xs):
    return [Fr(x) for x in xs]


class StatUniverse(eng_gen.Universe):
    ALLOW_CUSTOM = False     # the statistics driver predates the python modifiers; FueledArmorRepair is CmUnsupported

    def gen(self):
        super().gen()
        # fighter abilities are outside the statistics model (T_stats: CmUnsupported / VmUnsupported) and the
        # statistics driver has no switch commands: no ability effects, no ability table in these universes
        ab = [int(eng_gen.fighter_ability_map[a]) for a in self.ability_ids]
        for ty in self.types.values():
            ty['abilities'] = []
            ty['effects'] = [e for e in ty['effects'] if e not in ab]
            if ty.get('default') in ab:
                ty['default'] = None
        for e in ab:
            self.effects.pop(e, None)
        self.dur = {}
        self.augment()

    def wchoice(self, pairs):
        r = self.rng
        tot = sum(w for _, w in pairs)
        x = r.uniform(0, tot)
        for v, w in pairs:
            x -= w
            if x <= 0:
                return v
        return pairs[-1][0]

    def maybe(self, attrs, a, p, values):
        if self.rng.random() < p:
            attrs[int(a)] = self.rng.choice(values)

    def augment(self):
        r = self.rng
        for a in RESONANCES + DMG + SHIP_RES + SHIP_SLOTS + OTHER:
            a = int(a)
            if a in self.attrs:
                continue
            dflt = None
            if r.random() < 0.12:
                dflt = r.choice(F(0, 1, '0.5', 2))
            self.attrs[a] = dict(default=dflt, hig=r.random() < 0.7, stackable=r.random() < 0.7, max=None)
        if r.random() < 0.04:       # a stat attribute without metadata: KeyError paths
            del self.attrs[int(r.choice(SHIP_RES + [A.upgrade_cost, A.volume, A.max_active_drones]))]
        # effects
        def eff(eid, cat, nm=0):
            self.effects[int(eid)] = dict(cat=int(cat), chance=None, resist=None, mods=self.gen_mods(int(cat), nm))
        eff(E.rig_slot, EC.passive)
        eff(E.turret_fitted, EC.passive)
        eff(E.launcher_fitted, EC.passive)
        eff(E.missile_launching, EC.active)
        used_roles = []
        for role, (eid, cats, dur) in ROLES.items():
            if role == 'turret_ta':
                self.dur[int(eid)] = dur     # effect exists already (category target)
                continue
            eff(eid, r.choice(cats), 1 if r.random() < 0.2 else 0)
            self.dur[int(eid)] = dur if r.random() < 0.95 else None
        # a few modifiers onto statistic attributes, appended to existing effects
        saved = self.targets
        self.targets = STAT_TARGETS
        for eid in self.effect_ids:
            if r.random() < 0.45:
                self.effects[eid]['mods'].append(self.gen_mod(self.effects[eid]['cat']))
        self.effects[int(E.online)]['mods'].append(self.gen_mod(int(EC.online)))
        self.targets = saved
        # types
        for t in self.ship_types:
            at = self.types[t]['attrs']
            for a in SHIP_RES:
                self.maybe(at, a, 0.85, F(100, 250, '37.5', 400, 50))
            for a in SHIP_SLOTS:
                self.maybe(at, a, 0.85, F(0, 1, 2, 3, 4, 5, '2.5', 8))
            self.maybe(at, A.hp, 0.85, F(1000, 2500, 0, '812.5'))
            self.maybe(at, A.armor_hp, 0.85, F(1500, 4000, 0, 320))
            self.maybe(at, A.shield_capacity, 0.85, F(900, 5000, 0, '1250.5'))
            for a in RESONANCES:
                self.maybe(at, a, 0.8, F('0.5', '0.25', '0.75', 1, '0.125', '0.875', 0, '0.625')
                           + (F('1.5', '-0.25') if r.random() < 0.04 else []))
        ct = self.types[int(TypeId.character_static)]['attrs']
        self.maybe(ct, A.max_active_drones, 0.85, F(5, 3, '2.5', 0, 10))
        for t in self.module_types:
            ty = self.types[t]
            at = ty['attrs']
            if r.random() < 0.8:
                role = self.wchoice(ROLE_WEIGHTS)
                eid, _, dur = ROLES[role]
                eid = int(eid)
                if eid not in ty['effects']:
                    ty['effects'].append(eid)
                if role != 'turret_ta':
                    at.pop(int(A.ammo_loaded), None)
                elif r.random() < 0.4:
                    at[int(A.ammo_loaded)] = Fr(r.choice(self.charge_types + [9999]))
                else:
                    at.pop(int(A.ammo_loaded), None)
                for e2 in (E.target_attack,):
                    if role != 'turret_ta' and int(e2) in ty['effects']:
                        ty['effects'].remove(int(e2))
                if r.random() < 0.93:
                    ty['default'] = eid
                elif ty['default'] == int(E.target_attack) and role != 'turret_ta':
                    ty['default'] = None
                self.maybe(at, dur, 0.95, F(1000, 2000, 4000, 500, 250, 8000, 3000, 125))
                if role in ('turret_ta', 'projectile', 'chain', 'disintegrator'):
                    if r.random() < 0.8:
                        ty['effects'].append(int(E.turret_fitted))
                    self.maybe(at, A.dmg_mult, 0.8, F(1, 2, '1.5', '0.5', 4))
                    if role == 'turret_ta':
                        for a in DMG:
                            self.maybe(at, a, 0.25, F(1, 4, '2.5'))
                    if role == 'disintegrator':
                        self.maybe(at, A.dmg_mult_bonus_max, 0.6, F('0.5', '1.5', 1))
                if role == 'missile' and r.random() < 0.8:
                    ty['effects'].append(int(E.launcher_fitted))
                if role in ('smartbomb', 'doomsday'):
                    for a in DMG:
                        self.maybe(at, a, 0.6, F(0, 10, 25, '12.5', 100))
                if role in ('armor_rep', 'remote_armor', 'remote_armor_mut', 'remote_armor_npc'):
                    self.maybe(at, A.armor_dmg_amount, 0.9, F(16, 40, '100.5', 256))
                    if role == 'remote_armor_mut':
                        self.maybe(at, A.repair_mult_bonus_max, 0.6, F('0.5', 2, 1))
                if role in ('shield_rep', 'fueled_shield', 'remote_shield', 'remote_shield_anc', 'remote_shield_npc'):
                    self.maybe(at, A.shield_bonus, 0.9, F(24, 60, '87.5', 512))
                self.maybe(at, A.capacity, 0.85, F(1, 2, 5, 10, '0.5', '0.75'))
                self.maybe(at, A.charge_rate, 0.85, F(1, 1, 1, 2, 3) + (F('0.5') if r.random() < 0.1 else []))
                self.maybe(at, A.reload_time, 0.7, F(10000, 5000, 1000, 500, 60000))
                self.maybe(at, A.module_reactivation_delay, 0.25, F(1000, 30000, 500, 250))
            if int(E.online) not in ty['effects'] and r.random() < 0.5:
                ty['effects'].append(int(E.online))
        for t in self.charge_types:
            ty = self.types[t]
            at = ty['attrs']
            self.maybe(at, A.volume, 0.9, F('0.5', 1, '0.25', 2, '0.125', 3))
            for a in DMG:
                self.maybe(at, a, 0.65, F(0, 1, '2.5', 8, 12, '0.125'))
            if r.random() < 0.55:
                ty['effects'].append(int(E.missile_launching))
                if r.random() < 0.9:
                    ty['default'] = int(E.missile_launching)
            if r.random() < 0.45:
                at[int(A.crystals_get_damaged)] = r.choice(F(1, 1, 0))
                self.maybe(at, A.hp, 0.9, F(1, 2, 0, '0.5'))
                self.maybe(at, A.crystal_volatility_chance, 0.9, F('0.5', '0.125', 1, 0))
                self.maybe(at, A.crystal_volatility_dmg, 0.9, F('0.5', '0.25', 1, 0))
        for t in self.drone_types:
            ty = self.types[t]
            at = ty['attrs']
            self.maybe(at, A.volume, 0.85, F(5, 10, 25, '0.5'))
            self.maybe(at, A.drone_bandwidth_used, 0.85, F(5, 10, 25, '12.5'))
            if r.random() < 0.7:
                if int(E.target_attack) not in ty['effects']:
                    ty['effects'].append(int(E.target_attack))
                if r.random() < 0.85:
                    ty['default'] = int(E.target_attack)
                for a in DMG:
                    self.maybe(at, a, 0.6, F(0, 3, 8, '4.5'))
                self.maybe(at, A.dmg_mult, 0.8, F(1, 2, '1.5'))
                self.maybe(at, DUR_WEAPON, 0.95, F(1000, 2000, 4000, 500))
            if r.random() < 0.25:
                # any effect may sit on any type: a drone whose default effect is one of the weapon / repair
                # effects that modules usually carry (charge-driven cycle counts included)
                role = r.choice(['projectile', 'missile', 'fueled_shield', 'remote_shield_anc', 'armor_rep',
                                 'shield_rep', 'smartbomb', 'chain', 'disintegrator', 'remote_armor'])
                eid, _, dur = ROLES[role]
                eid = int(eid)
                if eid not in ty['effects']:
                    ty['effects'].append(eid)
                if int(E.target_attack) in ty['effects']:
                    ty['effects'].remove(int(E.target_attack))
                ty['default'] = eid
                self.maybe(at, dur, 0.95, F(1000, 2000, 4000, 500))
                for a in DMG:
                    self.maybe(at, a, 0.5, F(0, 3, 8, '4.5'))
                self.maybe(at, A.armor_dmg_amount, 0.7, F(10, 25, 100))
                self.maybe(at, A.shield_bonus, 0.7, F(10, 25, 100))
                self.maybe(at, A.charge_rate, 0.4, F(1, 2))
            if r.random() < 0.3:
                ty['skills'][int(TypeId.sentry_drone_interfacing)] = 1
        for t in self.misc_types['rig']:
            ty = self.types[t]
            if r.random() < 0.9:
                ty['effects'].append(int(E.rig_slot))
            self.maybe(ty['attrs'], A.upgrade_cost, 0.85, F(50, 100, '150.5', 0))
        for t in self.misc_types['fighter']:
            at = self.types[t]['attrs']
            a = r.choice([A.fighter_squadron_is_support, A.fighter_squadron_is_light, A.fighter_squadron_is_heavy])
            at[int(a)] = r.choice(F(1, 1, 1, 0))
            if r.random() < 0.2:
                at[int(A.fighter_squadron_is_light)] = Fr(1)

    def lines(self, src):
        out = super().lines(src)
        commit = out.pop()
        for e, a in self.dur.items():
            if e in self.effects:
                out.append('u_dur %d %d %s' % (src, e, o(a)))
        out.append(commit)
        return out


# ----------------------------------------------------------------------
# statistic reads
# ----------------------------------------------------------------------

def prof(vals):
    return ','.join(q(v) for v in vals)


def rnd_dmg_profile(r, valid=True):
    while True:
        v = [r.choice(F(0, 0, 1, 25, '2.5', 100, '0.5')) for _ in range(4)]
        if sum(v) > 0 or not valid:
            return v


def rnd_resists(r):
    return [r.choice(F(0, '0.25', '0.5', '0.75', 1, '0.125', '0.875')) for _ in range(4)]


RES_KINDS = ['cpu', 'powergrid', 'calibration', 'dronebay', 'drone_bandwidth']
SLOT_KINDS = ['turret_slots', 'launcher_slots', 'launched_drones', 'fighter_squads_support',
              'fighter_squads_light', 'fighter_squads_heavy']
CONT_KINDS = ['high_slots', 'mid_slots', 'low_slots', 'rig_slots', 'subsystem_slots', 'fighter_squads']


def fit_reads(r, f, u, laws=True):
    out = []
    for k in RES_KINDS:
        out += ['st used %d %s' % (f, k), 'st output %d %s' % (f, k)]
    for k in SLOT_KINDS:
        out += ['st slot_used %d %s' % (f, k), 'st slot_total %d %s' % (f, k)]
    for k in CONT_KINDS:
        out.append('st slots %d %s' % (f, k))
    p = rnd_dmg_profile(r)
    k = r.choice(F(2, '0.5', 8, '0.25'))
    out += ['st hp %d' % f, 'st resists %d' % f, 'st wcehp %d' % f, 'st ehp %d -' % f,
            'st ehp %d %s' % (f, prof(p)), 'st ehp %d %s' % (f, prof([x * k for x in p]))]
    flt = r.choice(['turret', 'missile', 'drone', 'sentry', 'tid:%d' % r.choice(u.module_types + u.drone_types)])
    res = rnd_resists(r)
    for fl in ('all', flt, '!' + flt):
        out.append('st volley %d %s -' % (f, fl))
        out.append('st dps %d %s 0 -' % (f, fl))
        out.append('st dps %d %s 1 -' % (f, fl))
    out.append('st volley %d all %s' % (f, prof(res)))
    out.append('st dps %d all %d %s' % (f, r.randint(0, 1), prof(res)))
    out.append('st dps %d %s 1 %s' % (f, flt, prof(res)))
    for cmd in ('arps', 'srps'):
        out.append('st %s %d default 0' % (cmd, f))
        out.append('st %s %d none 1' % (cmd, f))
        out.append('st %s %d none 0' % (cmd, f))
        out.append('st %s %d %s %d' % (cmd, f, prof(rnd_dmg_profile(r)), r.randint(0, 1)))
    return out


def item_reads(r, i):
    p = rnd_dmg_profile(r)
    res = rnd_resists(r)
    return ['st ihp %d' % i, 'st iresists %d' % i, 'st iwcehp %d' % i, 'st iehp %d -' % i,
            'st iehp %d %s' % (i, prof(p)), 'st ivolley %d -' % i, 'st ivolley %d %s' % (i, prof(res)),
            'st idps %d 0 -' % i, 'st idps %d 1 -' % i, 'st idps %d %d %s' % (i, r.randint(0, 1), prof(res))]


def gen_history(rng, nops=None):
    """-> (universe lines, script [(line, kind)], meta); kind in setup/op/obs"""
    u1 = StatUniverse(rng)
    ulines = u1.lines(1)
    nsrc = 1
    if rng.random() < 0.6:
        u2 = u1.variant(rng)
        ulines += u2.lines(2)
        nsrc = 2
    nfits = rng.choice([1, 1, 2, 2, 3])
    nss = rng.choice([1, 1, 2])
    w = eng_gen.World(rng, u1, nfits, nss)
    w.op_switch = w.op_state          # side-effect / ability switches are not part of the statistics driver
    w.setup()
    # extra drones / charges so that the registers hold several members
    for _ in range(rng.randint(1, 3)):
        w.new_item('drone', rng.choice(u1.drone_types), rng.choice([1, 2, 3, 3]), 0)
        w.new_item('charge', rng.choice(u1.charge_types), 1, 0)
    for s in w.sss:
        if rng.random() < 0.9:
            w.emit('source %d 1' % s)
    for f in w.fits:
        if rng.random() < 0.9:
            s = rng.choice(w.sss)
            w.emit('ssadd %d %d' % (s, f))
            w.fit_ss[f] = s
    for _ in range(int(0.75 * len(w.items))):
        w.op_place()
    for _ in range(rng.randint(3, 8)):
        w.op_charge()
    for _ in range(rng.randint(0, 4)):
        w.op_target()
    for i, c in list(w.items.items()):
        if c in ('modhigh', 'modmid', 'modlow', 'drone') and rng.random() < 0.5:
            w.emit('state %d %d' % (i, rng.choice([3, 3, 4, 2])))
    setup_len = len(w.lines)
    nops = nops or rng.randint(8, 30)
    discipline = rng.choice(['all', 'some', 'some'])
    script = [(l, 'setup') for l in ulines] + [(l, 'op') for l in w.lines]
    dmg_items = [i for i, c in w.items.items() if c in ('ship', 'modhigh', 'modmid', 'modlow', 'drone', 'charge')]
    for _ in range(nops):
        n0 = len(w.lines)
        k = rng.random()
        if k < 0.06:
            f = rng.choice(w.fits)
            if rng.random() < 0.25:
                w.emit('setdmg %d %s' % (f, rng.choice(['!none', '!tuple', '!resist'])))
            else:
                w.emit('setdmg %d %s' % (f, prof(rnd_dmg_profile(rng, valid=rng.random() < 0.9))))
        elif k < 0.16:
            w.op_charge()
        elif k < 0.30:
            w.op_state()
        elif k < 0.38:
            # a running projector moved straight from one target to another (no detour over "no target")
            last = {}
            for l in w.lines:
                t = l.split()
                if t[0] == 'target':
                    last[int(t[1])] = t[2]
            ships = [j for j, c in w.items.items() if c == 'ship' and w.where.get(j) is not None]
            cand = [(i, j) for i, tj in last.items() if tj != '-' and i in w.items
                    for j in ships if str(j) != tj]
            if cand:
                i, j = rng.choice(cand)
                if rng.random() < 0.6:
                    w.emit('state %d 3' % i)
                w.emit('target %d %d' % (i, j))
            else:
                w.op_target()
        else:
            w.step(nsrc)
        for l in w.lines[n0:]:
            script.append((l, 'op'))
        obs = []
        for f in w.fits:
            obs.append('regdump %d' % f)
            obs += fit_reads(rng, f, u1)
        for i in rng.sample(dmg_items, min(len(dmg_items), 4)):
            cls = w.items[i]
            for x in item_reads(rng, i):
                kind = x.split()[1]
                tank = kind in ('ihp', 'iresists', 'iwcehp', 'iehp')
                fits_cls = (cls in ('ship', 'drone')) if tank else (cls not in ('ship', 'charge'))
                if fits_cls or rng.random() < 0.1:
                    obs.append(x)
        if discipline == 'some':
            keep = [x for x in obs if x.startswith('regdump')]
            rest = [x for x in obs if not x.startswith('regdump')]
            obs = keep + rng.sample(rest, min(len(rest), rng.randint(0, 25)))
        script += [(x, 'obs') for x in obs]
    for f in w.fits:
        script.append(('regdump %d' % f, 'obs'))
    meta = dict(items=sorted(w.items), fits=w.fits, sss=w.sss, setup_len=setup_len, discipline=discipline,
                nsrc=nsrc)
    return ulines, script, meta
