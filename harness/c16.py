"""C16 — a damaged cache file is detected and never half-used."""
import bz2
import copy
import json
import math
import os
import random

import common
import cachelib as cl

PROP_FILE = 'props/C16.v'
TABLES = ['cache', 'srcmgr']


# ---------------------------------------------------------------------------
# files and damage
# ---------------------------------------------------------------------------

def big_objs(rng):
    """a well-formed object set large enough for a file of 1-3 kB"""
    parts = [cl.gen_objs(rng, avoid_custom=True, id_base=100 * k) for k in range(4)]
    return [sum((p[i] for p in parts), []) for i in range(4)]


def write_file(objs, fp, path):
    from eos.cache_handler import JsonCacheHandler
    if os.path.exists(path):
        os.remove(path)
    JsonCacheHandler(path).update_cache(cl.mk_objs(objs), fp)
    return open(path, 'rb').read()


def parse(data):
    """what open + bz2 + decode + json.loads give: a tree, or None when anything raises"""
    try:
        return True, json.loads(bz2.decompress(data).decode('utf-8'))
    except Exception:  # noqa
        return False, None


SAFE_NUMS = [7001, 7002, 7003, -3, 0, 0.5, 2.0, 7004.0, 10 ** 30]
JUNK = [None, False, 7001, 0.5, 'abc', '', '7002', '+5', '-3', 'ab', 'abcdefgh', 'abcdefghijklm',
        [], [7003], {}, {'k': 7004}, [[7001, 7002]], math.inf]


def junk(rng):
    return copy.deepcopy(rng.choice(JUNK))


def mutate_tree(rng, tree):
    """well-formed JSON of the wrong shape, derived from a good cache tree"""
    t = copy.deepcopy(tree)
    k = rng.random()
    if k < 0.08:
        return rng.choice([{}, [], None, 5, 'x', {'types': []}, [[]], {'fingerprint': 'v_e'},
                           dict.fromkeys(('types', 'attrs', 'effects', 'buff_templates'), [])])
    keys = ['types', 'attrs', 'effects', 'buff_templates', 'fingerprint']
    if rng.random() < 0.12:
        # a record nested anywhere below an entity row loses its tail (or gains an element)
        nested = []

        def walk(x, depth):
            if isinstance(x, list):
                if depth >= 3 and x:
                    nested.append(x)
                for y in x:
                    walk(y, depth + 1)
            elif isinstance(x, dict):
                for y in x.values():
                    walk(y, depth + 1)
        for e in ('types', 'attrs', 'effects', 'buff_templates'):
            walk(t.get(e), 1)
        if nested:
            x = rng.choice(nested)
            if rng.random() < 0.85:
                del x[rng.randrange(len(x)):]
            else:
                x.append(junk(rng))
            return t
    if k < 0.18:
        del t[rng.choice(keys)]
        return t
    if k < 0.3:
        t[rng.choice(keys)] = junk(rng)
        return t
    if k < 0.36:
        t['fingerprint'] = rng.choice([None, 7, 1.5, ['a'], {'a': 1}, '', 'x_y'])
        return t
    ents = [e for e in ('types', 'attrs', 'effects', 'buff_templates') if t[e]]
    if not ents:
        t['types'] = [junk(rng)]
        return t
    ent = rng.choice(ents)
    lst = t[ent]
    i = rng.randrange(len(lst))
    if k < 0.46:
        lst[i] = junk(rng)
    elif k < 0.54:
        lst[i] = lst[i][:-1] if rng.random() < 0.6 else lst[i][:rng.randrange(len(lst[i]))]
    elif k < 0.58:
        lst[i] = lst[i] + [junk(rng)]              # longer tuples are tolerated
    elif k < 0.64:
        lst.insert(rng.randrange(len(lst) + 1), copy.deepcopy(lst[i]))   # duplicate id
    elif k < 0.68:
        d = copy.deepcopy(lst[i])
        if isinstance(d[0], int):
            d[0] = float(d[0])                     # 5 and 5.0 are one key
        lst.append(d)
    elif k < 0.74:
        t[ent] = {('k%d' % n): v for n, v in enumerate(lst)}   # dict where a list is expected
    elif ent == 'types' and k < 0.9:
        j = rng.choice([3, 4, 5, 6, 7])
        lst[i][j] = rng.choice({
            3: [[[1, 2, 3]], [5], ['ab', 'cd'], [[[1], 2]], 'abcd', [{'a': 1, 'b': 2}], None, 7],
            4: [[7001], ['7001'], [0.5], [[1]], [None], 'x', 7, None, {'a': 1}, [math.inf], ['']],
            5: [7001, '7001', 0.5, [1], {}, 'x', False, math.inf],
            6: [[[22, [1]]], [[22, 'ab']], [[22, [1, 2, 3]]], [[22, 5]], [[[1], [1, 2]]], [5], None,
                [[22, {'a': 1, 'b': 2}]], [[22, None]]],
            7: [[[1, 2, 3]], [5], ['ab'], None, 7, [[[1], 2]]]}[j])
        if j in (4, 5) and rng.random() < 0.5 and t['effects']:
            eid = t['effects'][0][0]
            lst[i][j] = rng.choice([[eid], [str(eid)], [float(eid)], [eid, eid]]) if j == 4 \
                else rng.choice([eid, str(eid), float(eid)])
    elif ent == 'effects' and k < 0.9:
        lst[i][12] = rng.choice([[[1, 2, 3]], ['abcdefgh'], [None], 'ab', None, 7, [junk(rng)],
                                 [[1, 2, 3, 4, 5, 6, 7, 8, 9]], {'a': 1}])
    else:
        j = rng.randrange(len(lst[i]))
        v = junk(rng)
        lst[i][j] = v
    return t


def flip(rng, data):
    b = bytearray(data)
    for _ in range(rng.choice([1, 1, 1, 2, 5])):
        p = rng.randrange(len(b))
        b[p] ^= rng.choice([1, 2, 4, 8, 16, 32, 64, 128, 255])
    return bytes(b)


def zero_block(rng, data):
    b = bytearray(data)
    n = rng.choice([1, 4, 16, 64, 512])
    p = rng.randrange(len(b))
    b[p:p + n] = bytes(len(b[p:p + n]))
    return bytes(b)


# ---------------------------------------------------------------------------
# implementation
# ---------------------------------------------------------------------------

def construct_impl(data, path, probes):
    from eos.cache_handler import JsonCacheHandler
    with open(path, 'wb') as f:
        f.write(data)
    try:
        h = JsonCacheHandler(path)
    except Exception as e:  # noqa
        return {'raised': type(e).__name__}, None
    return {'raised': None, 'view': cl.handler_view(h, probes)}, h


def is_empty(view):
    return view['fp'] is None and all(not view['keys_' + k] for k in
                                      ('types', 'attrs', 'effects', 'buffs')) and \
        all(v == 'absent' for k in ('types', 'attrs', 'effects', 'buffs') for v in view[k].values())


def py_distinct(xs):
    out = []
    for x in xs:
        try:
            hash(x)
        except TypeError:
            return None
        if not any(x == y for y in out):
            out.append(x)
    return len(out)


def incomplete_record(tree):
    """the fixed-arity records of the cache format: a type row's (attribute, value), (ability, (cooldown,
    charges)) and (skill, level) pairs. A payload in which one of them lost an element is damaged - whatever
    is served for it was not in the file"""
    rows = tree.get('types')
    if not isinstance(rows, list):
        return None
    for row in rows:
        if not isinstance(row, list) or len(row) < 8:
            continue
        for j in (3, 6, 7):
            if not isinstance(row[j], list):
                continue
            for rec in row[j]:
                if isinstance(rec, list) and len(rec) < 2:
                    return 'the record %r of type row %r is incomplete' % (rec, row[0])
                if j == 6 and isinstance(rec, list) and len(rec) >= 2 and isinstance(rec[1], list) \
                        and len(rec[1]) < 2:
                    return 'the ability record %r of type row %r is incomplete' % (rec, row[0])
    return None


def oracle(case, obs, full_view):
    """C16 on the implementation alone: no raise; empty with no fingerprint, or
    complete under the file's fingerprint."""
    if obs['raised']:
        return 'constructing a handler on the damaged file raised %s' % obs['raised']
    v = obs['view']
    if is_empty(v):
        return None
    if case['kind'] == 'writer_fail':
        if v['fp'] is not None:
            return ('update_cache raised %s half-way and left fingerprint %r over partial data '
                    '(storage keys %s)' % (obs.get('update_raised'), v['fp'],
                                           {k: v['keys_' + k] for k in ('types', 'attrs', 'effects')}))
        return None
    if v['fp'] is None and not (isinstance(case.get('tree'), dict) and
                                case['tree'].get('fingerprint', 0) is None):
        return 'no fingerprint, but the handler serves data (storage keys %s)' % \
            {k: v['keys_' + k] for k in ('types', 'attrs', 'effects', 'buffs')}
    if case['kind'] in ('prefix', 'flip', 'zero') and case.get('tree_ok') is False:
        return 'unreadable file, but fingerprint %r' % (v['fp'],)
    if case['kind'] in ('prefix', 'flip', 'zero') and case.get('same_tree'):
        d = cl.view_diff(full_view, v)
        return None if d is None else 'readable file loaded differently from the written one: ' + d
    # a payload (or a damaged file that still parses): complete means every
    # entry of the tree is served under the tree's fingerprint
    tree = case['tree']
    if not isinstance(tree, dict):
        return 'fingerprint %r from a payload that is not a dict' % (v['fp'],)
    if cl.canon(tree.get('fingerprint')) != v['fp']:
        return 'fingerprint %r is not the payload\'s %r' % (v['fp'], tree.get('fingerprint'))
    why = incomplete_record(tree)
    if why:
        return 'fingerprint %r set and data served although %s' % (v['fp'], why)
    for key, kind in (('types', 'types'), ('attrs', 'attrs'), ('effects', 'effects')):
        if key not in tree:
            return 'fingerprint set although %r is missing' % key
        try:
            ids = [e[0] for e in (list(tree[key]) if not isinstance(tree[key], dict)
                                  else list(tree[key]))]
        except Exception:  # noqa
            return 'fingerprint set although %r entries are not indexable' % key
        n = py_distinct(ids)
        if n is None or n != len(v['keys_' + kind]):
            return 'fingerprint set but %d of %s distinct %s entries are served' % (
                len(v['keys_' + kind]), n, key)
    return None


def manager_regenerates(path):
    """an empty handler makes SourceManager.add rebuild: returns why-not or None"""
    from eos.cache_handler import JsonCacheHandler
    from eos.source import SourceManager
    import eos
    cl.reset_source_manager()
    h = JsonCacheHandler(path)
    if h.get_fingerprint() is not None:
        return None
    dh = cl.CountingDataHandler('42', 3)
    try:
        SourceManager.add('c16', dh, h)
    except Exception as e:  # noqa
        cl.reset_source_manager()
        return 'SourceManager.add raised %s' % type(e).__name__
    cl.reset_source_manager()
    want = '42_%s' % eos.__version__
    if dh.calls == 0:
        return 'add did not rebuild from an empty handler'
    if h.get_fingerprint() != want or cl.served_value(h) != 300.0:
        return 'after add: fingerprint %r value %r' % (h.get_fingerprint(), cl.served_value(h))
    r = JsonCacheHandler(path)
    if r.get_fingerprint() != want or cl.served_value(r) != 300.0:
        return 'regenerated file reloads as fingerprint %r value %r' % (
            r.get_fingerprint(), cl.served_value(r))
    return None


# ---------------------------------------------------------------------------

def inconsistent_objs(rng):
    """an object set update_cache cannot load back: a type names an effect that
    is not in the set (the memory update raises after the effects are stored)"""
    o = cl.gen_objs(rng, avoid_custom=True, id_base=500)
    ghost = cl.gen_effect(rng, 1599, [], True)
    o[0].append([599, None, None, [], [[1599, ghost]], None, [], []])
    rng.shuffle(o[0])
    return o


def writer_fail_impl(case, path, probes):
    from eos.cache_handler import JsonCacheHandler
    if os.path.exists(path):
        os.remove(path)
    h = JsonCacheHandler(path)
    h.update_cache(cl.mk_objs(case['first']), case['fp1'])
    obs = {'raised': None, 'update_raised': None}
    try:
        h.update_cache(cl.mk_objs(case['second']), case['fp2'])
    except Exception as e:  # noqa
        obs['update_raised'] = type(e).__name__
    obs['view'] = cl.handler_view(h, probes)
    return obs


def gen_cases(rng, tier):
    """-> (files, cases); a case = {kind, file, data(bytes) | tree}"""
    nfiles = 1 if tier == 'quick' else 20
    ncorr = 500 if tier == 'quick' else 10000
    files = []
    cases = []
    wd = os.path.join(common.WORK, 'C16')
    for f in range(nfiles):
        objs = big_objs(rng)
        fp = '%d_0.0.0.dev10' % rng.randint(1, 99)
        data = write_file(objs, fp, os.path.join(wd, 'src.json.bz2'))
        tree = json.loads(bz2.decompress(data).decode('utf-8'))
        files.append({'objs': objs, 'fp': fp, 'data': data, 'tree': tree,
                      'probes': cl.probes_of([objs], extra=(7001, 7002, 7003, 7004, 7777))})
        for L in range(len(data) + 1):
            cases.append({'kind': 'prefix', 'file': f, 'len': L, 'data': data[:L]})
    for _ in range(ncorr):
        f = rng.randrange(nfiles)
        k = rng.random()
        if k < 0.3:
            cases.append({'kind': 'flip', 'file': f, 'data': flip(rng, files[f]['data'])})
        elif k < 0.5:
            cases.append({'kind': 'zero', 'file': f, 'data': zero_block(rng, files[f]['data'])})
        else:
            t = mutate_tree(rng, files[f]['tree'])
            cases.append({'kind': 'payload', 'file': f, 'tree': t,
                          'data': bz2.compress(json.dumps(t).encode('utf-8'))})
    for _ in range(20 if tier == 'quick' else 400):
        cases.append({'kind': 'writer_fail', 'file': 0, 'first': cl.gen_objs(rng, True, 500),
                      'fp1': 'w1_0', 'second': inconsistent_objs(rng), 'fp2': 'w2_0',
                      'data': b'writer%d' % len(cases)})
    return files, cases


def has_nan(x):
    if isinstance(x, float):
        return x != x
    if isinstance(x, (list, tuple)):
        return any(has_nan(e) for e in x)
    if isinstance(x, dict):
        return any(has_nan(e) for e in x.values())
    return False


def run(rep):
    rng = random.Random(rep.seed)
    proved = common.prove(rep, PROP_FILE, TABLES, ['extract/X_cache.vo'])
    if proved and rep.tier == 'thorough':
        common.coqchk(rep, PROP_FILE)
    wd = cl.workdir('C16')
    path = os.path.join(wd, 'cache.json.bz2')
    files, cases = gen_cases(rng, rep.tier)
    for c in common.load_corpus('C16'):
        c = dict(c, file=0)
        if 'tree' in c:
            c['data'] = bz2.compress(json.dumps(c['tree']).encode('utf-8'))
        cases.insert(0, c)
    full_views = []
    for f in files:
        obs, _ = construct_impl(f['data'], path, f['probes'])
        full_views.append(obs.get('view'))
    obs_all = []
    hist = {}
    outcome_hist = {'empty': 0, 'complete': 0, 'raised': 0}
    mgr_checked = 0
    mgr_fail = None
    for n, c in enumerate(cases):
        f = files[c['file']]
        if c['kind'] == 'writer_fail':
            c['tree_ok'] = None
            c['probes'] = cl.probes_of([c['first'], c['second']])
            obs_all.append(writer_fail_impl(c, path, c['probes']))
            hist[c['kind']] = hist.get(c['kind'], 0) + 1
            continue
        if 'tree' not in c:
            ok, tree = parse(c['data'])
            c['tree_ok'] = ok
            c['tree'] = tree
            c['same_tree'] = ok and tree == f['tree']
        else:
            c['tree_ok'] = True
        obs, h = construct_impl(c['data'], path, f['probes'])
        obs_all.append(obs)
        hist[c['kind']] = hist.get(c['kind'], 0) + 1
        if obs['raised']:
            outcome_hist['raised'] += 1
        elif is_empty(obs['view']):
            outcome_hist['empty'] += 1
            if mgr_fail is None and (n % 97 == 0 or c['kind'] == 'payload' and n % 11 == 0):
                mgr_checked += 1
                why = manager_regenerates(path)
                if why:
                    mgr_fail = (n, why)
        else:
            outcome_hist['complete'] += 1
    rep.cov['evaluations'] = len(cases)
    rep.cov['exhaustive'] = True
    rep.cov['exhaustive_part'] = ('every prefix length 0..len of %d written file(s) (%s bytes): '
                                  '%d constructions' % (len(files), [len(f['data']) for f in files],
                                                        hist.get('prefix', 0)))
    rep.cov['rule'] = (
        'crash points: EVERY prefix length of a cache file written by the real handler '
        '(exhaustive); sampled byte flips (1-5 bytes) and zeroed blocks (1-512 bytes) of the '
        'file; well-formed JSON of the wrong shape derived from the written tree (missing keys, '
        'wrong top-level types, entries of wrong arity/type, strings and dicts where tuples are '
        'expected, types naming absent effects, ids as strings/floats/unhashable, duplicate ids, '
        'non-string fingerprints), bz2-compressed by the harness; for each: constructor outcome, '
        'getters on all ids of the file, private storage key sets; every case whose file parses is '
        'also run through the extracted model construct; sampled empty outcomes are followed by '
        'SourceManager.add with a counting data handler; non-trivial = the damaged file differs '
        'from the written one; distinct by bytes')
    rep.cov['distinct_nontrivial'] = len({c['data'] for c in cases
                                          if c['data'] != files[c['file']]['data']})
    rep.cov['kind_histogram'] = hist
    rep.cov['outcome_histogram'] = outcome_hist
    rep.cov['manager_regeneration_checked'] = mgr_checked
    rep.cov['samples'] = [{'kind': c['kind'], 'len': c.get('len'),
                           'tree': c['tree'] if c['kind'] == 'payload' else None,
                           'impl': {'raised': o['raised'],
                                    'fp': o.get('view', {}).get('fp')}}
                          for c, o in list(zip(cases, obs_all))[-2:]]
    disagreements = []
    try:
        exe = common.build_driver('cache')
        idx = [n for n, c in enumerate(cases) if c['tree_ok'] is True and not has_nan(c['tree'])]
        lines = ['C none'] + ['C ' + cl.j_line(cases[n]['tree']) for n in idx]
        out = common.run_driver(exe, lines)
        tag, st = cl.parse_state_line(out[0])
        if tag != 'ok' or any(st[k] for k in ('types', 'attrs', 'effects', 'buffs')) or st['fp'] is not None:
            disagreements.append((0, 'model: construct None is not empty'))
        for n, o in zip(idx, out[1:]):
            tag, st = cl.parse_state_line(o)
            ob = obs_all[n]
            if tag != 'ok':
                disagreements.append((n, 'model raises %s' % tag))
                continue
            if ob['raised']:
                disagreements.append((n, 'model ok, impl raised %s' % ob['raised']))
                continue
            d = cl.view_diff(cl.model_view(st, files[cases[n]['file']]['probes']), ob['view'])
            if d:
                disagreements.append((n, 'model vs impl: ' + d))
        # writer-side failures: model update_cache (raises, partial state, no fingerprint)
        widx = [n for n, c in enumerate(cases) if c['kind'] == 'writer_fail']
        outs = cl.run_model_cases(exe, [[
            'N', 'U %s %s' % (cl.j_line(cases[n]['first']), cl.j_line(cases[n]['fp1'])),
            'U %s %s' % (cl.j_line(cases[n]['second']), cl.j_line(cases[n]['fp2']))] for n in widx])
        for n, o in zip(widx, outs):
            tag, st = cl.parse_state_line(o[2])
            ob = obs_all[n]
            if (tag == 'ok') != (ob['update_raised'] is None):
                disagreements.append((n, 'writer: model %s, impl raised %s' % (tag, ob['update_raised'])))
                continue
            d = cl.view_diff(cl.model_view(st, cases[n]['probes']), ob['view'])
            if d:
                disagreements.append((n, 'writer after failed update, model vs impl: ' + d))
        # unreadable files: the model's construct None is empty
        for n, c in enumerate(cases):
            if c['tree_ok'] is False:
                ob = obs_all[n]
                if ob['raised'] or not is_empty(ob['view']):
                    disagreements.append((n, 'unreadable file: impl not empty'))
        rep.cov['traces_validated_against_impl'] = len(cases)
        rep.cov['model_construct_on_parsed_trees'] = len(idx)
    except common.TieBroken as e:
        rep.broken.append('%s: %s' % (e.what, e.detail))
    if mgr_fail:
        disagreements.insert(0, (mgr_fail[0], 'manager: ' + mgr_fail[1]))
    cl.cleanup('C16')
    finish(rep, files, cases, obs_all, full_views, disagreements, mgr_fail)


def replay_obj(case, why, rep, dis):
    r = {'kind': 'input', 'fails': why, 'broken': rep.broken, 'disagreement': dis,
         'case': {'kind': case['kind']}}
    if case['kind'] == 'payload':
        r['case']['tree'] = case['tree']
    elif case['kind'] == 'writer_fail':
        r['case'].update({k: case[k] for k in ('first', 'fp1', 'second', 'fp2')})
    else:
        r['case']['data_hex'] = case['data'].hex()
        if 'len' in case:
            r['case']['len'] = case['len']
    return r


def finish(rep, files, cases, obs_all, full_views, disagreements, mgr_fail):
    if not rep.broken and not disagreements:
        return
    if mgr_fail:
        n, why = mgr_fail
        rep.violation(replay_obj(cases[n], why, rep, None))
        return
    order = [k for k, _ in disagreements] + list(range(len(cases)))
    seen = set()
    best = None
    for k in order:
        if k in seen:
            continue
        seen.add(k)
        why = oracle(cases[k], obs_all[k], full_views[cases[k]['file']])
        if why:
            # prefer the smallest failing payload as the replay
            size = len(json.dumps(cases[k]['tree'])) if cases[k]['kind'] == 'payload' else (len(json.dumps(cases[k]['second'])) if cases[k]['kind'] == 'writer_fail' else 10 ** 9)
            if best is None or size < best[0]:
                best = (size, k, why)
    if best:
        _, k, why = best
        rep.violation(replay_obj(cases[k], why, rep,
                                 next((d for kk, d in disagreements if kk == k), None)))
        return
    rep.violation({'kind': 'obligation', 'broken': rep.broken,
                   'disagreements': [{'case': {'kind': cases[k]['kind'],
                                               'tree': cases[k].get('tree')}, 'what': d}
                                     for k, d in disagreements[:3]]}, found_input=False)


def replay(path):
    r = json.load(open(path))
    if 'case' not in r:
        print(json.dumps(r, indent=1)[:3000])
        return 1
    c = r['case']
    wd = cl.workdir('C16')
    p = os.path.join(wd, 'replay.json.bz2')
    if c['kind'] == 'writer_fail':
        obs = writer_fail_impl(c, p, cl.probes_of([c['first'], c['second']]))
        why = oracle(c, obs, None)
        cl.cleanup('C16')
        print('second update_cache raised %s; fingerprint afterwards %r' % (
            obs['update_raised'], obs['view']['fp']))
        print('oracle:', why or 'property holds on this input')
        return 1 if why else 0
    if 'tree' in c:
        data = bz2.compress(json.dumps(c['tree']).encode('utf-8'))
        case = {'kind': 'payload', 'tree': c['tree'], 'tree_ok': True}
    else:
        data = bytes.fromhex(c['data_hex'])
        ok, tree = parse(data)
        case = {'kind': c['kind'], 'tree': tree, 'tree_ok': ok, 'same_tree': False}
    probes = {k: [1, 2, 3, 7001, 7777] for k in ('types', 'attrs', 'effects', 'buffs')}
    obs, _ = construct_impl(data, p, probes)
    why = oracle(case, obs, None)
    if not why and not obs['raised'] and is_empty(obs['view']):
        why = manager_regenerates(p)
    cl.cleanup('C16')
    print('constructor:', 'raised ' + obs['raised'] if obs['raised'] else
          'fingerprint %r, storage keys %s' % (obs['view']['fp'], {
              k: obs['view']['keys_' + k] for k in ('types', 'attrs', 'effects', 'buffs')}))
    print('oracle:', why or 'property holds on this input')
    return 1 if why else 0
