"""C12 — Reactive armor hardener simulation obeys its adaptation law.

Proof side: coq/props/C12.v (model coq/model/Rah.v, proofs coq/proofs/Rah_p.v,
tables coq/gen/T_rah.v regenerated from the source on every run).
Correspondence: generated set-ups and input-change histories run on the real
eos through the public API (rah.attrs[...], fit.ship.attrs[...]) and on the
extracted model (bin/rah); every read is compared with the model applied to the
CURRENT inputs.

Numbers (DESIGN section 3):
  exact mode  dyadic inputs, eos.calculator.map.PENALTY_BASE = 0.5; a hardener
              resonance must equal the correctly rounded double of the model's
              exact rational; ship values (several float operations on those
              non-dyadic averages) within 1e-12.  Where the model's trace shows
              that the float computation cannot have been exact (more
              significant bits than a double holds) the case is compared like a
              real-constant case and counted separately.
  real mode   genuine constants, decimal inputs, relative tolerance 1e-9; a
              disagreement is counted as numerically ambiguous only when the
              model's exact trace exhibits a discontinuous decision within the
              margin (see `ambiguity`).
"""
import json
import logging
import math
import os
import random
from fractions import Fraction as F

import common
from eosenv import mksource, qstr, parse_q

PROP_FILE = 'props/C12.v'
TABLES = ['rah']
REL_REAL = 1e-9
REL_SHIP_EXACT = 1e-12
MARGIN = 1e-6

# case lists are in DmgProfile order (em, thermal, kinetic, explosive); the
# model's order is res_attr_ids (em, explosive, kinetic, thermal)
NAMES = ['em', 'therm', 'kin', 'expl']
PERM = [0, 3, 2, 1]
STATES = ['offline', 'online', 'active', 'overload']
CYCLE, HEAT, TUNE = 90001, 90002, 90003
HEAT_EFFECT = 90100


def fr(s):
    return F(s)


def fl(s):
    return float(F(s))


def running(r):
    return r['state'] in ('active', 'overload')


# ---------------------------------------------------------------------------
# effective (current) inputs of the simulator, computed exactly from a case
# ---------------------------------------------------------------------------

def tuner_product(case, kind, attr=None, target=None):
    p = F(1)
    for t in case['tuners']:
        if t['kind'] == kind and t.get('attr') == attr and t.get('target') == target:
            p *= fr(t['value'])
        elif t['kind'] in ('shifthp', 'split') and kind == 'shift' and t.get('target') == target:
            # one effect, two modifiers: the shift amount of this hardener and an attribute the simulator does
            # not care about (the ship's armor hit points / another hardener's cpu need)
            p *= fr(t['value'])
        elif t['kind'] == 'combo' and t.get('target') == target and (
                (kind == 'rahres' and t.get('attr') == attr) or kind == 'cycle'):
            # one effect with two modifiers on the same hardener: a resonance and the cycle time
            p *= fr(t['value'])
    return p


def effective(case):
    ship = case['ship']
    loaded = ship is not None and ship['loaded']
    base = [None] * 4
    if loaded:
        for a in range(4):
            if ship['res'][a] is not None:
                base[a] = fr(ship['res'][a]) * tuner_product(case, 'ship', a)
    rahs = []
    for i, r in enumerate(case['rahs']):
        res = [fr(r['res'][a]) * tuner_product(case, 'rahres', a, i) for a in range(4)]
        shift = None if r['shift'] is None else fr(r['shift']) * tuner_product(case, 'shift', None, i)
        dur = None
        if r['cycle'] is not None:
            c = fr(r['cycle']) * tuner_product(case, 'cycle', None, i)
            if r['state'] == 'overload':
                c *= 1 + fr(r['heat']) / 100
            dur = c / 1000
        rahs.append({'res': res, 'shift': shift, 'dur': dur, 'running': running(r)})
    prof = [fr(x) for x in (case['prah'] if case['prah'] is not None else case['pdef'])]
    return {'loaded': loaded, 'base': base, 'prof': prof, 'rahs': rahs,
            'order': list(case['order'])}


def initial_order(case):
    return [i for i, r in enumerate(case['rahs']) if running(r)]


def apply_case(case, op):
    """the case (inputs) after an operation; pure"""
    c = json.loads(json.dumps(case))
    k = op[0]
    if k == 'pdef':
        c['pdef'] = op[1]
    elif k == 'prah':
        c['prah'] = op[1]
    elif k == 'tuner+':
        c['tuners'].append(op[1])
    elif k == 'tuner-':
        del c['tuners'][op[1]]
    elif k == 'state':
        was = running(c['rahs'][op[1]])
        c['rahs'][op[1]]['state'] = op[2]
        now = running(c['rahs'][op[1]])
        if was and not now:
            c['order'].remove(op[1])
        elif now and not was:
            c['order'].append(op[1])
    elif k == 'ship':
        c['ship'] = op[1]
    elif k == 'read':
        pass
    else:
        raise ValueError(op)
    return c


# ---------------------------------------------------------------------------
# implementation side (public API only)
# ---------------------------------------------------------------------------

class LogCount(logging.Handler):
    def __init__(self):
        logging.Handler.__init__(self)
        self.n = 0

    def emit(self, record):
        self.n += 1


_ORIG_PB = None


def set_mode(mode):
    """exact mode: PENALTY_BASE = 0.5 (read by __penalize_values at call time);
    returns the eleven penalty factors the running module uses, exactly"""
    global _ORIG_PB
    import eos.calculator.map as cmap
    if _ORIG_PB is None:
        _ORIG_PB = cmap.PENALTY_BASE
    cmap.PENALTY_BASE = 0.5 if mode == 'exact' else _ORIG_PB
    return [F(cmap.PENALTY_BASE ** (pos ** 2)) for pos in range(11)]


class World:
    def __init__(self, case):
        from eos import Fit, SolarSystem
        from eos.const.eve import AttrId, EffectId, EffectCategoryId
        from eos.const.eos import ModAffecteeFilter, ModAggregateMode, ModDomain, ModOperator
        from eos.eve_obj.modifier import DogmaModifier
        self.A = [AttrId.armor_em_dmg_resonance, AttrId.armor_therm_dmg_resonance,
                  AttrId.armor_kin_dmg_resonance, AttrId.armor_expl_dmg_resonance]
        self.SHIFT = AttrId.resist_shift_amount
        src, ch = mksource()
        self.ch = ch
        for a in self.A:
            ch.mkattr(a, high_is_good=False, stackable=False)
        ch.mkattr(CYCLE, high_is_good=False, stackable=True)
        ch.mkattr(HEAT, high_is_good=False, stackable=True)
        ch.mkattr(TUNE, high_is_good=False, stackable=True)
        ch.mkattr(self.SHIFT, high_is_good=True, stackable=True)
        from eos.const.eve import AttrId as _A
        # two attributes the simulator does not care about (see the 'shifthp' / 'split' tuners)
        ch.mkattr(_A.armor_hp, default_value=1000, high_is_good=True, stackable=True)
        ch.mkattr(_A.cpu, default_value=10, high_is_good=False, stackable=True)
        self.rah_effect = ch.mkeffect(
            EffectId.adaptive_armor_hardener, category_id=EffectCategoryId.active,
            duration_attr_id=CYCLE)
        heat_mod = DogmaModifier(
            affectee_filter=ModAffecteeFilter.item, affectee_domain=ModDomain.self,
            affectee_attr_id=CYCLE, operator=ModOperator.post_percent,
            aggregate_mode=ModAggregateMode.stack, affector_attr_id=HEAT)
        self.heat_effect = ch.mkeffect(
            HEAT_EFFECT, category_id=EffectCategoryId.overload, modifiers=[heat_mod])
        self.next_id = 1000
        self.next_effect = 91000
        self.fit = Fit(solar_system=SolarSystem(source=src))
        self.log = LogCount()
        self.logger = logging.getLogger('eos.sim.reactive_armor_hardener')
        self.logger.addHandler(self.log)
        self.rahs = []
        self.tuners = []
        self.set_profiles(case)
        self.set_ship(case['ship'])
        for i, r in enumerate(case['rahs']):
            self.add_rah(i, r)
        for t in case['tuners']:
            self.add_tuner(t)

    def close(self):
        self.logger.removeHandler(self.log)

    def fresh_id(self):
        self.next_id += 1
        return self.next_id

    def set_profiles(self, case):
        from eos import DmgProfile
        self.fit.default_incoming_dmg = DmgProfile(*[fl(x) for x in case['pdef']])
        self.fit.rah_incoming_dmg = (
            None if case['prah'] is None else DmgProfile(*[fl(x) for x in case['prah']]))

    def set_ship(self, ship):
        from eos import Ship
        from eos.const.eve import TypeCategoryId
        if ship is None:
            self.fit.ship = None
            return
        tid = self.fresh_id()
        if ship['loaded']:
            attrs = {self.A[a]: fl(ship['res'][a]) for a in range(4)
                     if ship['res'][a] is not None}
            self.ch.mktype(tid, category_id=TypeCategoryId.ship, attrs=attrs)
        self.fit.ship = Ship(tid)

    def add_rah(self, i, r):
        from eos import ModuleLow, State
        from eos.const.eve import TypeCategoryId
        tid = self.fresh_id()
        attrs = {self.A[a]: fl(r['res'][a]) for a in range(4)}
        if r['shift'] is not None:
            attrs[self.SHIFT] = fl(r['shift'])
        if r['cycle'] is not None:
            attrs[CYCLE] = fl(r['cycle'])
        attrs[HEAT] = fl(r['heat'])
        self.ch.mktype(tid, category_id=TypeCategoryId.module, group_id=500 + i,
                       attrs=attrs, effects=(self.rah_effect, self.heat_effect),
                       default_effect=self.rah_effect)
        m = ModuleLow(tid, state=getattr(State, r['state']))
        self.fit.modules.low.append(m)
        self.rahs.append(m)

    def add_tuner(self, t):
        from eos import Implant
        from eos.const.eve import EffectCategoryId, TypeCategoryId
        from eos.const.eos import ModAffecteeFilter, ModAggregateMode, ModDomain, ModOperator
        from eos.eve_obj.modifier import DogmaModifier
        if t['kind'] == 'ship':
            mod = DogmaModifier(
                affectee_filter=ModAffecteeFilter.item, affectee_domain=ModDomain.ship,
                affectee_attr_id=self.A[t['attr']], operator=ModOperator.post_mul,
                aggregate_mode=ModAggregateMode.stack, affector_attr_id=TUNE)
        else:
            attr = {'rahres': None, 'combo': None, 'shift': self.SHIFT, 'cycle': CYCLE,
                    'shifthp': self.SHIFT, 'split': self.SHIFT}[t['kind']]
            if attr is None:
                attr = self.A[t['attr']]
            mod = DogmaModifier(
                affectee_filter=ModAffecteeFilter.domain_group,
                affectee_filter_extra_arg=500 + t['target'],
                affectee_domain=ModDomain.ship, affectee_attr_id=attr,
                operator=ModOperator.post_mul,
                aggregate_mode=ModAggregateMode.stack, affector_attr_id=TUNE)
        self.next_effect += 1
        mods = [mod]
        if t['kind'] == 'combo':
            mods.append(DogmaModifier(
                affectee_filter=ModAffecteeFilter.domain_group,
                affectee_filter_extra_arg=500 + t['target'],
                affectee_domain=ModDomain.ship, affectee_attr_id=CYCLE,
                operator=ModOperator.post_mul,
                aggregate_mode=ModAggregateMode.stack, affector_attr_id=TUNE))
        if t['kind'] == 'shifthp':
            # ... and a ship attribute that is no resonance, already calculated (so that it is reported in
            # the same message as the hardener's change)
            from eos.const.eve import AttrId
            mods.append(DogmaModifier(
                affectee_filter=ModAffecteeFilter.item, affectee_domain=ModDomain.ship,
                affectee_attr_id=AttrId.armor_hp, operator=ModOperator.post_mul,
                aggregate_mode=ModAggregateMode.stack, affector_attr_id=TUNE))
            try:
                self.fit.ship.attrs.get(AttrId.armor_hp)
            except Exception:  # noqa: no ship / unloaded ship
                pass
        if t['kind'] == 'split' and len(self.rahs) > 1:
            # ... and an attribute of ANOTHER hardener that the simulator does not care about, already calculated
            from eos.const.eve import AttrId
            other = (t['target'] + 1) % len(self.rahs)
            mods.insert(0, DogmaModifier(
                affectee_filter=ModAffecteeFilter.domain_group,
                affectee_filter_extra_arg=500 + other,
                affectee_domain=ModDomain.ship, affectee_attr_id=AttrId.cpu,
                operator=ModOperator.post_mul,
                aggregate_mode=ModAggregateMode.stack, affector_attr_id=TUNE))
            for m in self.rahs:
                try:
                    m.attrs.get(AttrId.cpu)
                    m.attrs.get(self.SHIFT)
                except Exception:  # noqa
                    pass
        eff = self.ch.mkeffect(self.next_effect, category_id=EffectCategoryId.passive,
                               modifiers=mods)
        tid = self.fresh_id()
        self.ch.mktype(tid, category_id=TypeCategoryId.implant,
                       attrs={TUNE: fl(t['value'])}, effects=[eff])
        imp = Implant(tid)
        self.fit.implants.add(imp)
        self.tuners.append(imp)

    def apply(self, op, case_after):
        from eos import State
        k = op[0]
        if k in ('pdef', 'prah'):
            self.set_profiles(case_after)
        elif k == 'tuner+':
            self.add_tuner(op[1])
        elif k == 'tuner-':
            imp = self.tuners.pop(op[1])
            self.fit.implants.remove(imp)
        elif k == 'state':
            self.rahs[op[1]].state = getattr(State, op[2])
        elif k == 'ship':
            self.set_ship(op[1])
        else:
            raise ValueError(op)

    def read(self, reads):
        """reads: [[target, attr]], target 'ship' or hardener index"""
        out = []
        n0 = self.log.n
        for tgt, a in reads:
            try:
                item = self.fit.ship if tgt == 'ship' else self.rahs[tgt]
                v = item.attrs[self.A[a]]
                if isinstance(v, bool) or not isinstance(v, (int, float)):
                    out.append(['bad', repr(v)])
                else:
                    out.append(['ok', v])
            except Exception as e:  # noqa
                out.append(['raise', type(e).__name__])
        return out, self.log.n - n0


def all_reads(case):
    r = [[i, a] for i in range(len(case['rahs'])) for a in range(4)]
    if case['ship'] is not None and case['ship']['loaded']:
        r += [['ship', a] for a in range(4)]
    return r


def run_setup_impl(case):
    set_mode(case['mode'])
    w = World(case)
    try:
        obs, logs = w.read(case['reads'])
    finally:
        w.close()
    return {'obs': obs, 'logs': logs}


def run_history_impl(hist):
    """returns per read operation: (case at that point, reads, observations)"""
    set_mode(hist['init']['mode'])
    case = hist['init']
    w = World(case)
    out = []
    try:
        for op in hist['ops']:
            if op[0] == 'read':
                obs, logs = w.read(op[1])
                out.append({'case': case, 'reads': op[1], 'obs': obs, 'logs': logs})
            else:
                case = apply_case(case, op)
                w.apply(op, case)
    finally:
        w.close()
    return out


# ---------------------------------------------------------------------------
# model side
# ---------------------------------------------------------------------------

def qs(x):
    return '-' if x is None else qstr(x)


def model_line(case, pens, trace=False):
    e = effective(case)
    toks = ['trace' if trace else 'sim', '1' if e['loaded'] else '0', str(len(pens))]
    toks += [qstr(p) for p in pens]
    toks += [qs(e['base'][PERM[k]]) for k in range(4)]
    toks += [qstr(x) for x in e['prof']]      # em thermal kinetic explosive
    idx = e['order'] + [i for i in range(len(e['rahs'])) if i not in e['order']]
    toks.append(str(len(idx)))
    for i in idx:
        r = e['rahs'][i]
        toks.append('1' if r['running'] else '0')
        toks += [qstr(r['res'][PERM[k]]) for k in range(4)]
        toks += [qs(r['shift']), qs(r['dur'])]
    return ' '.join(toks), idx


def pq(t):
    return None if t == '-' else parse_q(t)


def parse_model(line, idx):
    t = line.split()
    if t[0] == 'error':
        raise common.TieBroken('model driver rah', line)
    status, how, logged, nh = t[0], t[1], t[2] == '1', int(t[3])
    p = 4
    rah = {}
    for k in range(nh):
        m = [pq(x) for x in t[p:p + 4]]
        rah[idx[k]] = [m[PERM[a]] for a in range(4)]
        p += 4
    assert t[p] == 'ship'
    m = [pq(x) for x in t[p + 1:p + 5]]
    ship = [m[PERM[a]] for a in range(4)]
    p += 5
    ticks = []
    nrun = None
    while p < len(t):
        assert t[p] == 'T'
        p += 1
        tick = []
        while p < len(t) and t[p] != 'T':
            cyc = pq(t[p])
            cycled = t[p + 1] == '1'
            res = [pq(x) for x in t[p + 2:p + 6]]     # model order
            dmg = [pq(x) for x in t[p + 6:p + 10]]
            tick.append({'cyc': cyc, 'cycled': cycled, 'res': res, 'dmg': dmg})
            p += 10
        ticks.append(tick)
    return {'status': status, 'how': how, 'logged': logged, 'rah': rah, 'ship': ship,
            'ticks': ticks}


# ---------------------------------------------------------------------------
# comparison
# ---------------------------------------------------------------------------

def close(x, y, rel):
    return abs(x - y) <= rel * max(abs(x), abs(y))


def compare_reads(mode, reads, obs, m, strict_exact=True):
    """None when every read agrees with the model, else a description"""
    for (tgt, a), o in zip(reads, obs):
        want = m['ship'][a] if tgt == 'ship' else m['rah'][tgt][a]
        what = '%s.%s' % ('ship' if tgt == 'ship' else 'rah%d' % tgt, NAMES[a])
        if want is None:
            if o != ['raise', 'KeyError']:
                return '%s: model has no value (KeyError), impl %s' % (what, o)
            continue
        if o[0] != 'ok':
            return '%s: model %r, impl %s' % (what, float(want), o)
        v = o[1]
        if v != v or v in (float('inf'), float('-inf')):
            return '%s: impl returned %r' % (what, v)
        if mode == 'exact' and strict_exact:
            if tgt == 'ship':
                ok = close(F(v), want, REL_SHIP_EXACT)
            else:
                ok = (v == float(want))
        else:
            ok = close(F(v), want, REL_REAL)
        if not ok:
            return '%s: model %r (%s), impl %r' % (what, float(want), want, v)
    return None


def frac_bits(x):
    """number of fractional bits of a dyadic rational, None if not dyadic"""
    d = x.denominator
    if d & (d - 1):
        return None
    return d.bit_length() - 1


def exactness_lost(case, mt):
    """From the model's exact trace: can the binary64 computation of this
    exact-mode case have been inexact?  Returns a reason or None.  Sufficient
    condition for exactness: every hardener resonance of the trace is dyadic
    and the widest product the simulator forms (damage * ship resonance *
    time, accumulated over a cycle) fits in 52 bits."""
    e = effective(case)
    nrun = len(e['order'])
    br = 0
    for tick in mt['ticks']:
        for h in tick:
            for x in h['res']:
                b = frac_bits(x)
                if b is None:
                    return 'non-dyadic resonance in the trace'
                br = max(br, b)
    fb = max([frac_bits(x) or 0 for x in e['base'] if x is not None] + [0])
    fd = max(frac_bits(x) or 0 for x in e['prof'])
    md = max(int(x).bit_length() for x in e['prof'])
    durs = [e['rahs'][i]['dur'] for i in e['order'] if e['rahs'][i]['dur'] is not None]
    ft = max([frac_bits(x) or 0 for x in durs] + [0])
    mtm = max([int(x).bit_length() for x in durs] + [0])
    pos_bits = sum(k * k for k in range(nrun))
    ship_bits = fb + nrun * br + pos_bits
    total = md + mtm + 1 + fd + ship_bits + ft
    if total > 52 or br + 10 > 52:
        return 'needs %d bits (resonances %d fractional bits, %d hardeners)' % (total, br, nrun)
    return None


ROUND_MARGIN = 1e-3   # in units of the last digit sig_round keeps (1e-13 relative)


def rounding_margin(x, digits):
    """distance of x from the nearest round-half boundary of sig_round, in units
    of the last kept digit (0 = exactly on a boundary, 0.5 = farthest)"""
    if x == 0:
        return F(1, 2)
    ax = abs(x)
    e = 0
    while ax >= 10:
        ax /= 10
        e += 1
    while ax < 1:
        ax *= 10
        e -= 1
    scaled = ax * 10 ** (digits - 1)
    frac = scaled - math.floor(scaled)
    return abs(frac - F(1, 2))


def near_rounding_boundary(x, digits):
    if rounding_margin(x, digits) <= ROUND_MARGIN:
        return True
    # next to a power of ten the float may count one digit more or less
    ax = abs(x)
    if ax != 0:
        lg = math.floor(math.log10(ax))
        if any(abs(ax - F(10) ** k) <= MARGIN * ax for k in (lg, lg + 1)):
            return any(rounding_margin(x, dd) <= ROUND_MARGIN for dd in (digits - 1, digits + 1))
    return False


def identical_so_far(e, ticks, ti, k, i, j):
    """model order attributes i, j: same profile component, same ship base, and
    in every recorded state up to tick ti every running hardener has the same
    resonance for both -> binary64 performs the same operations on the same
    numbers for both, so an exact tie is a tie in binary64 too"""
    p = [e['prof'][x] for x in (0, 3, 2, 1)]          # model order
    b = [e['base'][PERM[x]] for x in range(4)]
    if p[i] != p[j] or b[i] != b[j]:
        return False
    for r in e['rahs']:
        if r['running'] and r['res'][PERM[i]] != r['res'][PERM[j]]:
            return False
    for tick in ticks[:ti]:
        for h in tick:
            if h['res'][i] != h['res'][j]:
                return False
    return True


def ambiguity(case, mt, digits):
    """Reasons, read off the model's exact trace, why binary64 may legitimately
    take a different discontinuous decision than exact arithmetic (DESIGN
    section 3, margin rule).  A comparison of two quantities is within the
    margin when they differ by at most MARGIN (1e-6) relative; a sig_round
    decision when the exact value is within ROUND_MARGIN units of the last kept
    digit of a rounding boundary (the unit is 1e-10 relative, float error
    accumulated over hundreds of ticks reaches 1e-13)."""
    why = []
    e = effective(case)
    order = e['order']
    ticks = mt['ticks']
    for ti, tick in enumerate(ticks):
        for k, h in enumerate(tick):
            for x in h['res']:
                if near_rounding_boundary(x, digits):
                    why.append('tick %d: resonance %r within %g digit units of a rounding '
                               'boundary of sig_round' % (ti, float(x), ROUND_MARGIN))
            if h['cycled']:
                d = h['dmg']
                for i in range(4):
                    for j in range(i + 1, 4):
                        a, b = d[i], d[j]
                        if a == 0 and b == 0:
                            continue
                        if abs(a - b) <= MARGIN * max(abs(a), abs(b)) and \
                                not (a == b and identical_so_far(e, ticks, ti, k, i, j)):
                            why.append('tick %d: received damages %r and %r are within the '
                                       'margin (donor sort order)' % (ti, float(a), float(b)))
    durs = [e['rahs'][i]['dur'] for i in order]
    if len(order) > 1:
        # the finished-cycle test rounds cycling + time passed and the duration
        for ti, tick in enumerate(ticks):
            for k, h in enumerate(tick):
                if durs[k] is None or h['cyc'] == 0:
                    continue
                if abs(durs[k] - h['cyc']) <= MARGIN * durs[k]:
                    why.append('tick %d: cycling time within the margin of the duration' % ti)
        # RahState.__eq__ compares accumulated cycling times unrounded
        if mt['how'].startswith('loop:'):
            i0 = int(mt['how'].split(':')[1])
            if i0 < len(ticks) and any(h['cyc'] != 0 and frac_bits(h['cyc']) is None
                                       for h in ticks[i0]):
                why.append('loop detection rests on exact equality of accumulated non-dyadic '
                           'cycling times (state %d)' % i0)
    if mt['how'].startswith('history'):
        keys = []
        for k, i in enumerate(order):
            r = e['rahs'][i]
            if r['shift'] in (None, 0) or r['dur'] is None:
                continue
            qs_ = [(1 - r['res'][a]) / (r['shift'] / 100) for a in range(4)]
            for q in qs_:
                if abs(q - round(q)) <= MARGIN * max(1, abs(q)):
                    why.append('history average: exhaustion cycle count %r next to an integer '
                               '(ceil)' % float(q))
            keys.append(max(math.ceil(q) for q in qs_) * r['dur'])
        for x in range(len(keys)):
            for y in range(x + 1, len(keys)):
                if keys[x] != keys[y] and abs(keys[x] - keys[y]) <= MARGIN * max(keys[x], keys[y]):
                    why.append('history average: slowest-hardener keys within the margin')
    return why


# ---------------------------------------------------------------------------
# generators
# ---------------------------------------------------------------------------

def dy(n, d):
    """decimal string of the dyadic n/d (exact)"""
    x = F(n, d)
    s = '%.12f' % float(x)
    assert F(s) == x, (n, d)
    return s.rstrip('0').rstrip('.') if '.' in s else s


def gen_profile(rng, mode):
    k = rng.random()
    if mode == 'exact':
        val = lambda: dy(rng.choice([1, 2, 3, 4, 5, 6, 8, 12, 1, 1]), rng.choice([1, 1, 1, 2, 4]))  # noqa
    else:
        val = lambda: rng.choice([str(rng.randint(1, 100)), '%.1f' % rng.uniform(0.1, 60),  # noqa
                                  '%.3f' % rng.uniform(0.001, 5)])
    if k < 0.2:      # single type
        p = ['0'] * 4
        p[rng.randrange(4)] = val()
    elif k < 0.4:    # some zero components
        p = [val() if rng.random() < 0.5 else '0' for _ in range(4)]
        if all(x == '0' for x in p):
            p[rng.randrange(4)] = val()
    elif k < 0.6:    # uniform (ties decided by the attribute order)
        p = [val()] * 4
    elif k < 0.7:    # pairwise equal
        a, b = val(), val()
        p = rng.choice([[a, a, b, b], [a, b, a, b], [a, b, b, a]])
    else:
        p = [val() for _ in range(4)]
    return p


def gen_ship(rng, mode, allow_odd=True):
    k = rng.random()
    if allow_odd and k < 0.04:
        return None
    if allow_odd and k < 0.07:
        return {'res': ['0.5'] * 4, 'loaded': False}
    if mode == 'exact':
        val = lambda: dy(rng.randint(1, 16), 16)  # noqa
    else:
        val = lambda: rng.choice(['%.2f' % rng.uniform(0.05, 1), '%.3f' % rng.uniform(0.05, 1),  # noqa
                                  '1', '0.5', '0.9'])
    j = rng.random()
    if j < 0.25:
        res = [val()] * 4
    elif j < 0.35:
        a, b = val(), val()
        res = rng.choice([[a, a, b, b], [a, b, a, b], [a, b, b, a]])
    else:
        res = [val() for _ in range(4)]
    if allow_odd and rng.random() < 0.03:
        res[rng.randrange(4)] = None       # ship without that attribute: KeyError inside the sim
    return {'res': res, 'loaded': True}


def gen_rah(rng, mode, odd=True):
    while True:
        if mode == 'exact':
            j = rng.random()
            if j < 0.3:
                res = [dy(rng.choice([27, 28, 26, 30]), 32)] * 4
            else:
                res = [dy(rng.randint(20, 32), 32) for _ in range(4)]
        else:
            j = rng.random()
            if j < 0.3:
                res = [rng.choice(['0.85', '0.8', '0.9', '0.775'])] * 4
            else:
                res = [rng.choice(['%.2f' % rng.uniform(0.6, 1), '%.3f' % rng.uniform(0.6, 1), '1'])
                       for _ in range(4)]
        if sum(fr(x) for x in res) > 3 and all(0 < fr(x) <= 1 for x in res):
            break
    if mode == 'exact':
        shift = dy(rng.choice([1, 2, 3, 4, 6, 8, 12, 16]) * 100, 64)
        cycle, heat = rng.choice([('5000', '-15'), ('10000', '-15'), ('2500', '-15'),
                                  ('5000', '-12.5'), ('1000', '-25'), ('4250', '-50'),
                                  ('8500', '-12.5'), ('2125', '-25'), ('1000', '-12.5')])
    else:
        shift = rng.choice([str(rng.randint(1, 30)), '%.1f' % rng.uniform(1, 30),
                            '%.2f' % rng.uniform(1, 30), '6'])
        cycle = rng.choice(['5000', '10000', '1000', str(rng.randint(10, 200) * 100),
                            str(rng.randint(1000, 20000))])
        heat = rng.choice(['-15', '-15', '-15', '-10', '-%d' % rng.randint(1, 40)])
    state = rng.choice(['active', 'active', 'active', 'overload', 'overload', 'online', 'offline']) \
        if odd else rng.choice(['active', 'overload'])
    r = {'res': res, 'shift': shift, 'cycle': cycle, 'heat': heat, 'state': state}
    if odd and rng.random() < 0.02:
        r['shift'] = None      # no shift attribute: KeyError inside the sim
    if odd and rng.random() < 0.02:
        r['cycle'] = None      # no cycle time: TypeError inside the sim
    return r


def gen_tuner(rng, mode, nrah, kind=None):
    kind = kind or rng.choice(['ship', 'rahres', 'shift', 'cycle', 'combo', 'shifthp', 'split'])
    if mode == 'exact':
        value = rng.choice(['0.5', '0.75', '0.875', '0.5', '0.25'])
        if kind == 'cycle':
            value = rng.choice(['0.5', '2', '0.25', '4'])
        if kind in ('rahres', 'combo'):
            value = '1'    # keeps hardener sums above 3 (use 'ship'/'shift'/'cycle' to vary)
    else:
        value = rng.choice(['0.9', '0.75', '0.5', '%.2f' % rng.uniform(0.3, 1)])
        if kind == 'cycle':
            value = rng.choice(['0.5', '2', '0.9', '1.1', '%.2f' % rng.uniform(0.5, 2)])
        if kind in ('rahres', 'combo'):
            value = rng.choice(['1.02', '1.05', '0.99', '0.97'])
    t = {'kind': kind, 'attr': None, 'target': None, 'value': value}
    if kind in ('ship', 'rahres', 'combo'):
        t['attr'] = rng.randrange(4)
    if kind != 'ship':
        t['target'] = rng.randrange(nrah)
    return t


def in_range(case):
    """quantifier of the property: resonances in (0,1], hardener sums > 3"""
    e = effective(case)
    for r in e['rahs']:
        if not all(0 < x <= 1 for x in r['res']) or sum(r['res']) <= 3:
            return False
        if r['shift'] is not None and not (0 < r['shift'] <= 100):
            return False
        if r['dur'] is not None and r['dur'] <= 0:
            return False
    return all(b is None or 0 < b <= 1 for b in e['base'])


def float_exact(case):
    """exact mode: the effective inputs must be what the implementation's float
    arithmetic produces (few-bit dyadics)"""
    e = effective(case)
    vals = [b for b in e['base'] if b is not None] + e['prof']
    for r in e['rahs']:
        vals += r['res'] + [x for x in (r['shift'], r['dur']) if x is not None]
        if r['shift'] is not None:
            vals.append(r['shift'] / 100)
    return all(frac_bits(v) is not None and frac_bits(v) <= 12 for v in vals)


def share_types(rng, case, mode):
    """several hardeners: mostly the same module type (same cycle time, some of
    them overheated: the 17/20 ratio) or at least the same cycle time; unrelated
    cycle times (no loop within the tick limit: seconds of exact arithmetic per
    case in real-constant mode) are kept to a small share"""
    if len(case['rahs']) < 2:
        return
    k = rng.random()
    if k < 0.5:
        for r in case['rahs'][1:]:
            for f in ('res', 'shift', 'cycle', 'heat'):
                r[f] = case['rahs'][0][f]
    elif k < (0.9 if mode == 'real' else 0.7):
        for r in case['rahs'][1:]:
            for f in ('cycle', 'heat'):
                r[f] = case['rahs'][0][f]


def hetero(rng, case, mode):
    """hardeners that all run, with pairwise different cycle times of long common period and shift amounts
    that grow with the cycle time: the simulation then seldom repeats a state within its tick budget, and the
    hardener that needs most cycles to exhaust is not the one that needs most time (no-loop fallback)"""
    if mode == 'exact':
        pool = [('1000', '-25'), ('2125', '-25'), ('4250', '-50'), ('5000', '-15'), ('8500', '-12.5'),
                ('10000', '-15')]
        shifts = [dy(k * 100, 64) for k in (1, 2, 3, 4, 6, 8, 12, 16)]
    else:
        pool = [(str(c), '-15') for c in (1001, 2303, 3701, 4999, 7901, 12101, 17003, 24989)]
        shifts = [str(k) for k in (1, 2, 3, 5, 8, 12, 20, 30)]
    picks = sorted(rng.sample(pool, len(case['rahs'])), key=lambda x: int(x[0]))
    sh = sorted(rng.sample(shifts, len(case['rahs'])), key=fr)
    if mode != 'exact' and len(case['rahs']) == 2 and rng.random() < 0.7:
        # the extreme pair: a fast hardener with a small shift and a slow one with a large shift
        picks = [pool[0], pool[-1]]
        sh = [rng.choice(shifts[:3]), rng.choice(shifts[4:])]
    for r, (cyc, heat), x in zip(case['rahs'], picks, sh):
        r['cycle'], r['heat'], r['shift'] = cyc, heat, x
        r['state'] = rng.choice(['active', 'active', 'overload'])


def gen_setup(rng, mode):
    while True:
        n = rng.choice([1, 1, 1, 2, 2, 3])
        het = rng.random() < float(os.environ.get("C12_HET", "0.2"))
        if het:
            n = rng.choice([2, 2, 3]) if mode == 'exact' else rng.choice([2, 2, 2, 3])
        case = {'mode': mode, 'ship': gen_ship(rng, mode),
                'pdef': gen_profile(rng, mode),
                'prah': gen_profile(rng, mode) if rng.random() < 0.3 else None,
                'rahs': [gen_rah(rng, mode) for _ in range(n)], 'tuners': []}
        share_types(rng, case, mode)
        if het:
            hetero(rng, case, mode)
        for _ in range(rng.choice([0, 0, 0, 1, 2])):
            case['tuners'].append(gen_tuner(rng, mode, n))
        case['order'] = initial_order(case)
        if not in_range(case) or (mode == 'exact' and not float_exact(case)):
            continue
        reads = all_reads(case)
        rng.shuffle(reads)
        case['reads'] = reads
        return case


OPKINDS = ['pdef', 'prah', 'pone', 'pone', 'ship_attr', 'rah_attr', 'rah_combo', 'shift', 'shift_hp', 'shift_split', 'cycle', 'state', 'ship_replace',
           'ship_remove_add', 'tuner-']


def gen_history(rng, mode):
    """an initial set-up (1-3 hardeners, loaded ship) and 3-8 input changes, each
    followed by a read of a random non-empty subset of the observable values"""
    while True:
        n = rng.choice([1, 1, 2, 2, 3])
        case = {'mode': mode, 'ship': gen_ship(rng, mode, allow_odd=False),
                'pdef': gen_profile(rng, mode), 'prah': None,
                'rahs': [gen_rah(rng, mode, odd=False) for _ in range(n)], 'tuners': []}
        share_types(rng, case, mode)
        case['order'] = initial_order(case)
        if in_range(case) and (mode != 'exact' or float_exact(case)):
            break
    init = case
    ops = []

    def read():
        r = all_reads(case)
        rng.shuffle(r)
        k = rng.random()
        if k < 0.5:
            r = r[:rng.randint(1, len(r))]
        ops.append(['read', r])
    if rng.random() < 0.85:
        read()
    kinds = [rng.choice(OPKINDS) for _ in range(rng.randint(3, 8))]
    for kind in kinds:
        for _ in range(20):     # retry until the changed inputs stay in range
            if kind == 'pdef':
                op = [['pdef', gen_profile(rng, mode)]]
            elif kind == 'pone':
                # the effective profile changes in ONE damage type only (the others stay what they were)
                which = 'prah' if case['prah'] is not None else 'pdef'
                cur = list(case[which])
                j = rng.randrange(4)
                newv = gen_profile(rng, mode)[j]
                if newv == cur[j]:
                    newv = gen_profile(rng, mode)[(j + 1) % 4]
                cur[j] = newv
                if all(x in ('0', 0) for x in cur):
                    cur[j] = '1'
                op = [[which, cur]]
            elif kind == 'prah':
                op = [['prah', None if (case['prah'] is not None and rng.random() < 0.4)
                       else gen_profile(rng, mode)]]
            elif kind == 'ship_attr':
                op = [['tuner+', gen_tuner(rng, mode, n, 'ship')]]
            elif kind == 'rah_attr':
                op = [['tuner+', gen_tuner(rng, mode, n, 'rahres')]]
            elif kind == 'rah_combo':
                op = [['tuner+', gen_tuner(rng, mode, n, 'combo')]]
            elif kind == 'shift':
                op = [['tuner+', gen_tuner(rng, mode, n, 'shift')]]
            elif kind == 'shift_hp':
                op = [['tuner+', gen_tuner(rng, mode, n, 'shifthp')]]
            elif kind == 'shift_split':
                op = [['tuner+', gen_tuner(rng, mode, n, 'split')]]
            elif kind == 'cycle':
                op = [['tuner+', gen_tuner(rng, mode, n, 'cycle')]]
            elif kind == 'state':
                i = rng.randrange(n)
                new = rng.choice([s for s in STATES if s != case['rahs'][i]['state']])
                op = [['state', i, new]]
            elif kind == 'ship_replace':
                op = [['ship', gen_ship(rng, mode, allow_odd=False)]]
            elif kind == 'ship_remove_add':
                op = [['ship', None], ['ship', gen_ship(rng, mode, allow_odd=False)]]
                if case['ship'] is None:
                    op = op[1:]
            else:
                if not case['tuners']:
                    op = [['pdef', gen_profile(rng, mode)]]
                else:
                    op = [['tuner-', rng.randrange(len(case['tuners']))]]
            c = case
            ok = True
            for o in op:
                c = apply_case(c, o)
            if in_range(c) and (mode != 'exact' or float_exact(c)):
                break
        else:
            continue
        for k, o in enumerate(op):
            case = apply_case(case, o)
            ops.append(o)
            if k < len(op) - 1 and rng.random() < 0.7:
                read()
        read()
    return {'init': init, 'ops': ops, 'kinds': kinds}


# ---------------------------------------------------------------------------
# running the model on read points; judging
# ---------------------------------------------------------------------------

class Model:
    def __init__(self):
        self.exe = common.build_driver('rah')
        self.cache = {}
        self.analysed = 0
        self.digits = read_gen_constants()['SIG_DIGITS']

    def run(self, jobs):
        """jobs: list of (case, pens); fills the cache for all of them"""
        todo = {}
        for case, pens in jobs:
            line, idx = model_line(case, pens)
            if line not in self.cache:
                todo[line] = None
        lines = sorted(todo)
        random.Random(1).shuffle(lines)       # spread the expensive cases over the shards
        out = common.run_driver(self.exe, lines, shards=min(16, max(1, len(lines) // 4)))
        for l, o in zip(lines, out):
            self.cache[l] = o

    def get(self, case, pens):
        line, idx = model_line(case, pens)
        if line not in self.cache:
            self.run([(case, pens)])
        return parse_model(self.cache[line], idx)

    def trace(self, case, pens):
        line, idx = model_line(case, pens, trace=True)
        return parse_model(common.run_driver(self.exe, [line])[0], idx)


def read_gen_constants():
    import re
    txt = open(os.path.join(common.COQ, 'gen', 'T_rah.v')).read()
    return {'MAX_TICKS': int(re.search(r'gen_MAX_SIMULATION_TICKS : nat := (\d+)', txt).group(1)),
            'SIG_DIGITS': int(re.search(r'gen_SIG_DIGITS : Z := \((-?\d+)\)', txt).group(1))}


def judge(model, case, pens, reads, obs, logs=None):
    """-> (verdict, detail, parsed model); verdict in agree / inexact_ok /
    ambiguous / disagree"""
    mode = case['mode']
    m = model.get(case, pens)
    d = compare_reads(mode, reads, obs, m)
    if d is None and logs is not None:
        # the warning of the fallback path (only checked on first reads)
        if m['logged'] != (logs > 0):
            return 'disagree', 'fallback log record: model %s, implementation logged %d' % (
                m['logged'], logs), m
    if d is None:
        return 'agree', None, m
    if model.analysed >= 40:
        # a run that is failing wholesale: 40 confirmed disagreements were
        # analysed against the model's trace, the rest are reported as they are
        return 'disagree', d, m
    mt = model.trace(case, pens)
    if mode == 'exact':
        lost = exactness_lost(case, mt)
        if lost is None:
            model.analysed += 1
            return 'disagree', d, m
        d2 = compare_reads(mode, reads, obs, m, strict_exact=False)
        if d2 is None:
            return 'inexact_ok', lost, m
        d = d2
    amb = ambiguity(case, mt, model.digits)
    if amb:
        return 'ambiguous', amb[:3], m
    model.analysed += 1
    return 'disagree', d, m


# ---------------------------------------------------------------------------
# direct oracle: the property stated on the implementation's own outputs
# (conservation, bounds, saturation, plain values, fresh-build comparison);
# shares nothing with the Coq model; used only when something broke
# ---------------------------------------------------------------------------

def oracle_reads(case, reads, obs, max_ticks, fresh=True):
    e = effective(case)
    got = {}
    for (tgt, a), o in zip(reads, obs):
        key = (tgt, a)
        if tgt == 'ship' and e['base'][a] is None:
            if o != ['raise', 'KeyError']:
                return 'ship.%s has no base value but reading it gave %s' % (NAMES[a], o)
            continue
        if o[0] != 'ok':
            return 'reading %s.%s raised/returned %s' % (tgt, NAMES[a], o[1])
        if key in got and not close(F(got[key]), F(o[1]), 1e-12):
            return 'two reads of %s.%s without an input change differ: %r, %r' % (
                tgt, NAMES[a], got[key], o[1])
        got[key] = o[1]
    simulated = e['loaded'] and all(b is not None for b in e['base'])
    prof = e['prof']
    for i, r in enumerate(e['rahs']):
        vals = [got.get((i, a)) for a in range(4)]
        if not r['running'] or not e['loaded']:
            for a in range(4):
                if vals[a] is not None and not close(F(vals[a]), r['res'][a], 1e-9):
                    return ('hardener %d is not simulated (%s) but exposes %s=%r instead of '
                            'its plain value %r' % (
                                i, 'not running' if not r['running'] else 'no loaded ship',
                                NAMES[a], vals[a], float(r['res'][a])))
            continue
        for a in range(4):
            if vals[a] is not None and not (0 < vals[a] <= 1 + 1e-12):
                return 'hardener %d: %s resonance %r outside (0, 1]' % (i, NAMES[a], vals[a])
        if all(v is not None for v in vals):
            s, want = sum(F(v) for v in vals), sum(r['res'])
            if not close(s, want, 1e-9):
                return 'hardener %d: resonances sum to %r, unsimulated sum is %r' % (
                    i, float(s), float(want))
        nz = [a for a in range(4) if prof[a] != 0]
        # saturation is claimed for ONE running hardener that reaches it within the
        # tick limit by steps that are not lost in the 10-digit rounding
        if simulated and len(nz) == 1 and r['shift'] and r['dur'] and len(e['order']) == 1:
            k = nz[0]
            sh = r['shift'] / 100
            steps = [(1 - r['res'][a]) / sh for a in range(4) if a != k]
            clean = all(q == math.floor(q) or (q - math.floor(q)) * sh >= F(1, 10 ** 6)
                        for q in steps)
            if clean and sh >= F(1, 1000) and max(math.ceil(q) for q in steps) + 3 < max_ticks:
                for a in range(4):
                    want = sum(r['res']) - 3 if a == k else F(1)
                    if vals[a] is not None and not close(F(vals[a]), want, 1e-9):
                        return ('single-type profile (%s): hardener %d exposes %s=%r, saturation '
                                'gives %r' % (NAMES[k], i, NAMES[a], vals[a], float(want)))
    if fresh:
        # results depend on current inputs only: a fit built from scratch with
        # the current inputs reads the same values
        c2 = json.loads(json.dumps(case))
        c2['order'] = initial_order(c2) if 'order' not in c2 else c2['order']
        c2['reads'] = [list(x) for x in reads]
        set_mode(case['mode'])
        w = World(reorder_for_fresh(c2))
        try:
            obs2, _ = w.read([[remap_fresh(c2, t), a] for t, a in reads])
        finally:
            w.close()
        for (tgt, a), o, o2 in zip(reads, obs, obs2):
            if o[0] != o2[0] or (o[0] == 'ok' and not close(F(o[1]), F(o2[1]), 1e-9)) or \
                    (o[0] != 'ok' and o != o2):
                return ('%s.%s reads %s after this history but %s on a fit built from '
                        'scratch with the current inputs' % (tgt, NAMES[a], o[1], o2[1]))
    return None


def reorder_for_fresh(case):
    """a from-scratch fit starts the hardeners' effects in module order; build
    the modules in the history's activation order so the simulator sees the
    same hardener order (it matters only for ties of the slowest hardener)"""
    c = json.loads(json.dumps(case))
    idx = c['order'] + [i for i in range(len(c['rahs'])) if i not in c['order']]
    c['_fresh_idx'] = idx
    c['rahs'] = [c['rahs'][i] for i in idx]
    for t in c['tuners']:
        if t.get('target') is not None:
            t['target'] = idx.index(t['target'])
    c['order'] = initial_order(c)
    return c


def remap_fresh(case, tgt):
    if tgt == 'ship':
        return tgt
    idx = case['order'] + [i for i in range(len(case['rahs'])) if i not in case['order']]
    return idx.index(tgt)


def oracle_setup(case, res, max_ticks):
    return oracle_reads(case, case['reads'], res['obs'], max_ticks, fresh=False)


def oracle_history(hist, recs, max_ticks):
    """first read point of the history at which the property fails"""
    for k, r in enumerate(recs):
        why = oracle_reads(r['case'], r['reads'], r['obs'], max_ticks, fresh=True)
        if why:
            return k, why
    return None


def valid_history(hist):
    """every op applicable (implant removals refer to existing implants) and all
    inputs within the quantifier's ranges"""
    case = hist['init']
    try:
        for op in hist['ops']:
            if op[0] == 'tuner-' and not (0 <= op[1] < len(case['tuners'])):
                return False
            if op[0] == 'read':
                n = len(case['rahs'])
                for tgt, a in op[1]:
                    if tgt == 'ship':
                        if case['ship'] is None or not case['ship']['loaded']:
                            return False
                    elif not (0 <= tgt < n):
                        return False
            case = apply_case(case, op)
            if not in_range(case):
                return False
    except Exception:  # noqa
        return False
    return True


def shrink_history(hist, max_ticks, budget=60):
    """greedy one-at-a-time removal of operations (the final read stays) while
    the direct oracle still fails at the final read"""
    def fails(h):
        if not valid_history(h):
            return False
        try:
            recs = run_history_impl(h)
        except Exception:  # noqa
            return False
        if not recs:
            return False
        r = recs[-1]
        return oracle_reads(r['case'], r['reads'], r['obs'], max_ticks, fresh=True) is not None
    cur = {'init': hist['init'], 'ops': list(hist['ops'])}
    if not fails(cur):
        return hist
    changed = True
    while changed and budget > 0:
        changed = False
        for k in range(len(cur['ops']) - 2, -1, -1):
            if budget <= 0:
                break
            cand = {'init': cur['init'], 'ops': cur['ops'][:k] + cur['ops'][k + 1:]}
            budget -= 1
            if fails(cand):
                cur = cand
                changed = True
    # fewer hardeners / reads are not attempted: the operation list is what
    # explains the failure
    return cur


def history_prefix(hist, nreads):
    """the history cut after its nreads-th read"""
    ops = []
    n = 0
    for op in hist['ops']:
        ops.append(op)
        if op[0] == 'read':
            n += 1
            if n == nreads:
                break
    return {'init': hist['init'], 'ops': ops}


# ---------------------------------------------------------------------------

def pmap(fn, items):
    """run the implementation on many cases: forked workers (they inherit
    sys.path with the repository under test), results in order"""
    if len(items) < 64:
        return [fn(x) for x in items]
    import multiprocessing
    ctx = multiprocessing.get_context('fork')
    with ctx.Pool(min(16, os.cpu_count() or 4)) as pool:
        return pool.map(fn, items, chunksize=max(1, len(items) // 256))


def fleet_worlds(rng, steps):
    """two or three fits of one fleet in one solar system, each with a loaded ship and a running reactive
    armor hardener; fit 0 also carries command bursts whose buffs change one armor resonance of every fleet
    ship. [steps]: list of (kind, arg). Returns the observed (ship, hardener) armor resonances of every fit
    after each step. The simulator of a fit must follow changes made on behalf of another fit."""
    from eos import Fit, Fleet, SolarSystem, Ship, ModuleLow, ModuleHigh, State, DmgProfile
    from eos.const.eve import AttrId, EffectId, EffectCategoryId, TypeCategoryId
    from eos.const.eos import ModAffecteeFilter, ModAggregateMode, ModOperator
    from eos.eve_obj.buff_template import WarfareBuffTemplate
    set_mode('exact')
    A = [AttrId.armor_em_dmg_resonance, AttrId.armor_therm_dmg_resonance,
         AttrId.armor_kin_dmg_resonance, AttrId.armor_expl_dmg_resonance]
    src, ch = mksource()
    for a in A:
        ch.mkattr(a, high_is_good=False, stackable=False)
    ch.mkattr(CYCLE, high_is_good=False, stackable=True)
    ch.mkattr(AttrId.resist_shift_amount, high_is_good=True, stackable=True)
    for a in (AttrId.warfare_buff_1_id, AttrId.warfare_buff_1_value, AttrId.warfare_buff_2_id,
              AttrId.warfare_buff_2_value, AttrId.warfare_buff_3_id, AttrId.warfare_buff_3_value,
              AttrId.warfare_buff_4_id, AttrId.warfare_buff_4_value):
        ch.mkattr(a)
    rah_effect = ch.mkeffect(EffectId.adaptive_armor_hardener, category_id=EffectCategoryId.active,
                             duration_attr_id=CYCLE)
    burst_effects = [ch.mkeffect(e, category_id=EffectCategoryId.active)
                     for e in (EffectId.module_bonus_warfare_link_armor, EffectId.module_bonus_warfare_link_shield)]
    for b, attr in ((10, A[2]), (11, A[1])):
        ch.buffs[b] = [WarfareBuffTemplate(buff_id=b, affectee_filter=ModAffecteeFilter.item,
                                           affectee_filter_extra_arg=None, affectee_attr_id=attr,
                                           operator=ModOperator.post_percent,
                                           aggregate_mode=ModAggregateMode.minimum)]
    ch.mktype(1, category_id=TypeCategoryId.ship, attrs={A[0]: 0.5, A[1]: 0.5, A[2]: 0.5, A[3]: 0.5})
    ch.mktype(2, category_id=TypeCategoryId.module, attrs={A[0]: 0.875, A[1]: 0.875, A[2]: 0.875, A[3]: 0.875,
                                                           AttrId.resist_shift_amount: 6.0, CYCLE: 5000.0},
              effects=[rah_effect], default_effect=rah_effect)
    ch.mktype(3, category_id=TypeCategoryId.module,
              attrs={AttrId.warfare_buff_1_id: 10, AttrId.warfare_buff_1_value: -25.0},
              effects=[burst_effects[0]], default_effect=burst_effects[0])
    ch.mktype(4, category_id=TypeCategoryId.module,
              attrs={AttrId.warfare_buff_1_id: 11, AttrId.warfare_buff_1_value: -50.0},
              effects=[burst_effects[1]], default_effect=burst_effects[1])
    solsys = SolarSystem(source=src)
    fleet = Fleet()
    nfits = 3
    fits, rahs, bursts = [], [], []
    profile = DmgProfile(4, 3, 4, 1)

    def observe():
        out = []
        for fit, rah in zip(fits, rahs):
            row = []
            for item in (fit.ship, rah):
                for a in A:
                    try:
                        row.append(round(item.attrs[a], 12))
                    except Exception as e:  # noqa
                        row.append('!' + type(e).__name__)
            out.append(row)
        return out
    for k in range(nfits):
        fit = Fit(solar_system=solsys)
        fit.default_incoming_dmg = profile
        fit.ship = Ship(1)
        rah = ModuleLow(2, state=State.active)
        fit.modules.low.append(rah)
        fits.append(fit)
        rahs.append(rah)
    for t in (3, 4):
        m = ModuleHigh(t, state=State.online)
        fits[0].modules.high.append(m)
        bursts.append(m)
    obs = []
    for kind, arg in steps:
        if kind == 'join':
            fleet.fits.add(fits[arg])
        elif kind == 'leave':
            fleet.fits.remove(fits[arg])
        elif kind == 'burst':
            bursts[arg[0]].state = State.active if arg[1] else State.online
        elif kind == 'read':
            pass
        obs.append(observe() if kind == 'read' else None)
    return obs, observe()


def fleet_history(rng):
    joined = set()
    on = [False, False]
    steps = []
    for _ in range(rng.randint(4, 9)):
        k = rng.random()
        if k < 0.35:
            f = rng.randrange(3)
            if f in joined:
                joined.discard(f)
                steps.append(('leave', f))
            else:
                joined.add(f)
                steps.append(('join', f))
        else:
            b = rng.randrange(2)
            on[b] = not on[b]
            steps.append(('burst', (b, on[b])))
        if rng.random() < 0.6:
            steps.append(('read', None))
    # the same final configuration, reached directly (fleet first, bursts last, nothing read in between)
    direct = [('join', f) for f in sorted(joined)] + [('burst', (b, True)) for b in (0, 1) if on[b]]
    return steps, direct


def oracle_fleet(rng, n):
    """reactive armor hardeners of fits that share a fleet: after any history of joins, leaves and burst
    switches (with reads in between) every ship and hardener resonance equals the one of the same fleet
    assembled directly. -> None or a failing history"""
    for _ in range(n):
        steps, direct = fleet_history(rng)
        _, got = fleet_worlds(rng, steps)
        _, want = fleet_worlds(rng, direct)
        if got != want:
            return {'steps': steps, 'direct': direct, 'history_built': got, 'assembled_directly': want}
    return None


def nontrivial_setup(case, m):
    return m['status'] == 'ok' and m['how'].split(':')[0] in ('loop', 'history')


def run(rep):
    os.environ.setdefault('OCAMLRUNPARAM', 's=8M')
    rng = random.Random(rep.seed)
    n_set, n_hist = (300, 100) if rep.tier == 'quick' else (10000, 3000)
    proved = common.prove(rep, PROP_FILE, TABLES, ['extract/X_rah.vo'])
    if proved and rep.tier == 'thorough':
        common.coqchk(rep, PROP_FILE)
    corpus = common.load_corpus('C12')
    setups = [c for c in corpus if 'init' not in c]
    hists = [c for c in corpus if 'init' in c]
    n_corpus = (len(setups), len(hists))
    for k in range(n_set):
        setups.append(gen_setup(rng, 'exact' if k % 2 == 0 else 'real'))
    for k in range(n_hist):
        hists.append(gen_history(rng, 'exact' if k % 2 == 0 else 'real'))
    rep.cov['rule'] = (
        'set-ups: damage profiles (single-type, zero components, uniform, pairwise equal, '
        'arbitrary; default and hardener-specific), ship resonances in (0,1] (uniform, pairwise '
        'equal, arbitrary; no ship, unloaded ship, ship without one attribute), 1-3 hardeners '
        '(resonances in (0,1] summing to more than 3, shift 1-30 %, cycle times incl. 5000/4250 '
        '(17/20), states offline/online/active/overload, missing shift or cycle attribute), 0-2 '
        'modifying implants; half in exact mode (dyadic values, PENALTY_BASE 0.5), half in '
        'real-constant mode; all observable values read in random order. Histories: 3-8 input '
        'changes (default profile, hardener profile, ship resonance via an implant, hardener '
        'resonance via an implant, shift, cycle time of one hardener, state change, ship '
        'replaced, ship removed and added, implant removed), random partial reads after each, '
        'every read compared with the model applied to the current inputs. Non-trivial = a '
        'simulation actually ran (loaded ship, running hardener, no fallback); distinct by content')
    pens = {'exact': set_mode('exact'), 'real': set_mode('real')}
    rep.cov['penalty_factors_checked'] = all(
        0 < p <= 1 for p in pens['real']) and pens['real'][0] == 1 and \
        all(pens['real'][k + 1] < pens['real'][k] for k in range(10))
    # implementation
    sres = pmap(run_setup_impl, setups)
    hres = pmap(run_history_impl, hists)
    counts = {'agree': 0, 'inexact_ok': 0, 'ambiguous': 0, 'disagree': 0}
    by_mode = {'exact': dict(counts), 'real': dict(counts)}
    hows = {}
    dis_set, dis_hist = [], []
    nontriv = set()
    nvalues = 0
    max_ticks = 500
    try:
        model = Model()
        max_ticks = read_gen_constants()['MAX_TICKS']
        jobs = [(c, pens[c['mode']]) for c in setups]
        for recs in hres:
            jobs += [(r['case'], pens[r['case']['mode']]) for r in recs]
        model.run(jobs)
        for k, (c, r) in enumerate(zip(setups, sres)):
            v, d, m = judge(model, c, pens[c['mode']], c['reads'], r['obs'], r['logs'])
            if v in ('ambiguous', 'inexact_ok'):
                # a numerical excuse is accepted only if the implementation's own
                # outputs obey the laws
                why = oracle_setup(c, r, max_ticks)
                if why:
                    v, d = 'disagree', why
            by_mode[c['mode']][v] += 1
            nvalues += len(c['reads'])
            h = m['status'] if m['status'] != 'ok' else m['how'].split(':')[0]
            hows[h] = hows.get(h, 0) + 1
            if nontrivial_setup(c, m):
                nontriv.add(json.dumps({x: c[x] for x in c if x != 'reads'}, sort_keys=True))
            if v == 'disagree':
                dis_set.append((k, d))
        for k, (h, recs) in enumerate(zip(hists, hres)):
            first = None
            for j, r in enumerate(recs):
                c = r['case']
                v, d, m = judge(model, c, pens[c['mode']], r['reads'], r['obs'])
                if v in ('ambiguous', 'inexact_ok'):
                    # ... and only if a fit built from scratch with the current
                    # inputs reads the same values (binary64 noise is reproducible,
                    # dependence on the history is not noise)
                    why = oracle_reads(c, r['reads'], r['obs'], max_ticks, fresh=True)
                    if why:
                        v, d = 'disagree', why
                by_mode[c['mode']][v] += 1
                nvalues += len(r['reads'])
                if v == 'disagree' and first is None:
                    first = (j, d)
            if first:
                dis_hist.append((k, first[0], first[1]))
        rep.cov['traces_validated_against_impl'] = len(setups) + sum(len(r) for r in hres)
    except common.TieBroken as e:
        rep.broken.append('%s: %s' % (e.what, e.detail))
    rep.cov['evaluations'] = nvalues
    rep.cov['distinct_nontrivial'] = len(nontriv)
    rep.cov['setups'] = len(setups)
    rep.cov['histories'] = len(hists)
    rep.cov['history_read_points'] = sum(len(r) for r in hres)
    rep.cov['corpus'] = {'setups': n_corpus[0], 'histories': n_corpus[1]}
    rep.cov['verdicts_by_mode'] = by_mode
    rep.cov['numerically_ambiguous'] = by_mode['real']['ambiguous'] + by_mode['exact']['ambiguous']
    rep.cov['exact_mode_not_certified_exact'] = by_mode['exact']['inexact_ok']
    rep.cov['simulation_outcomes'] = hows
    kinds = {}
    for h in hists:
        for o in h['ops']:
            kk = o[0] if o[0] != 'tuner+' else 'tuner+' + o[1]['kind']
            kinds[kk] = kinds.get(kk, 0) + 1
    rep.cov['history_operation_kinds'] = kinds
    nh = {}
    for c in setups:
        nh[len(c['order'])] = nh.get(len(c['order']), 0) + 1
    rep.cov['running_hardeners_histogram'] = nh
    rep.cov['samples'] = [{'case': setups[k], 'impl': sres[k]} for k in range(min(2, len(setups)))]
    if hists:
        rep.cov['samples'].append({'history': hists[-1], 'impl_reads': [
            {'reads': r['reads'], 'obs': r['obs']} for r in hres[-1]]})
    fixed = []
    for f in common.known_findings('C12'):
        if f.get('status') == 'fixed' and f.get('witness', '').startswith('corpus/C12/'):
            w = json.load(open(os.path.join(common.VERIF, f['witness'])))['case']
            idx = [k for k, h in enumerate(hists) if h == w]
            ok = bool(idx) and all(k not in [x[0] for x in dis_hist] for k in idx) and \
                oracle_history(w, hres[idx[0]], max_ticks) is None if idx else False
            fixed.append({'id': f['id'], 'witness': f['witness'], 'fix_commit': f.get('fix_commit'),
                          'passes': bool(ok)})
            if idx and not ok and not [x for x in dis_hist if x[0] in idx]:
                dis_hist.insert(0, (idx[0], 0, 'witness of fixed finding %s fails again' % f['id']))
    rep.cov['fixed_findings_replayed'] = fixed
    finish(rep, setups, sres, hists, hres, dis_set, dis_hist, max_ticks)
    if rep.violations:
        return
    # fits that share a fleet: each has its own simulator, a command burst changes ship resonances of all
    nfl = 40 if rep.tier == 'quick' else 1500
    why = oracle_fleet(random.Random(rep.seed + 5), nfl)
    rep.cov['fleet_histories_compared_with_direct_assembly'] = nfl
    if why:
        rep.violation({'kind': 'fleet_history', 'fails': 'hardeners of fleet members: the world built by %r differs '
                       'from the same fleet assembled directly' % (why['steps'],), 'detail': why})


def finish(rep, setups, sres, hists, hres, dis_set, dis_hist, max_ticks):
    if not rep.broken and not dis_set and not dis_hist:
        return
    # search with the direct oracle: disagreeing inputs first, then everything
    for k, j, d in dis_hist:
        hit = oracle_history(hists[k], hres[k], max_ticks)
        if hit:
            small = shrink_history(history_prefix(hists[k], hit[0] + 1), max_ticks)
            rep.violation({'kind': 'input', 'history': small,
                           'fails': hit[1], 'disagreement': d, 'broken': rep.broken})
            return
    for k, d in dis_set:
        why = oracle_setup(setups[k], sres[k], max_ticks)
        if why:
            rep.violation({'kind': 'input', 'case': setups[k], 'impl': sres[k], 'fails': why,
                           'disagreement': d, 'broken': rep.broken})
            return
    for k in range(len(setups)):
        why = oracle_setup(setups[k], sres[k], max_ticks)
        if why:
            rep.violation({'kind': 'input', 'case': setups[k], 'impl': sres[k], 'fails': why,
                           'broken': rep.broken})
            return
    for k in range(len(hists)):
        hit = oracle_history(hists[k], hres[k], max_ticks)
        if hit:
            small = shrink_history(history_prefix(hists[k], hit[0] + 1), max_ticks)
            rep.violation({'kind': 'input', 'history': small,
                           'fails': hit[1], 'broken': rep.broken})
            return
    # no input on which the implementation's own outputs break the law: the
    # disagreement with the model is the evidence ("equal to the documented
    # process"); the disagreeing input is the replay
    if dis_set:
        k, d = dis_set[0]
        rep.violation({'kind': 'input', 'case': setups[k], 'impl': sres[k],
                       'fails': 'differs from the adaptation law (model): ' + str(d),
                       'model_disagreement': True, 'broken': rep.broken,
                       'more': len(dis_set) + len(dis_hist) - 1})
        return
    if dis_hist:
        k, j, d = dis_hist[0]
        # the values at a read depend on the current inputs only: try to show
        # the same difference on a fit built from scratch with those inputs
        try:
            rec = hres[k][j]
            c2 = reorder_for_fresh(rec['case'])
            c2['reads'] = [[remap_fresh(rec['case'], t), a] for t, a in rec['reads']]
            c2.pop('_fresh_idx', None)
            res2 = run_setup_impl(c2)
            v, d2, _ = judge(Model(), c2, set_mode(c2['mode']), c2['reads'], res2['obs'])
            if v == 'disagree':
                rep.violation({'kind': 'input', 'case': c2, 'impl': res2,
                               'fails': 'differs from the adaptation law (model): ' + str(d2),
                               'model_disagreement': True, 'broken': rep.broken,
                               'more': len(dis_hist) - 1})
                return
        except Exception:  # noqa
            pass
        rep.violation({'kind': 'input', 'history': history_prefix(hists[k], j + 1),
                       'fails': 'differs from the adaptation law (model): ' + str(d),
                       'model_disagreement': True, 'broken': rep.broken,
                       'more': len(dis_hist) - 1})
        return
    rep.violation({'kind': 'obligation', 'broken': rep.broken}, found_input=False)


def replay(path):
    r = json.load(open(path))
    if r.get('kind') == 'fleet_history':
        d = r['detail']
        steps = [(k, tuple(a) if isinstance(a, list) else a) for k, a in d['steps']]
        direct = [(k, tuple(a) if isinstance(a, list) else a) for k, a in d['direct']]
        got = fleet_worlds(None, steps)[1]
        want = fleet_worlds(None, direct)[1]
        print('history-built     :', got)
        print('assembled directly:', want)
        print('oracle:', 'property holds on this input' if got == want else 'the two worlds differ')
        return 0 if got == want else 1
    os.environ.setdefault('OCAMLRUNPARAM', 's=8M')
    max_ticks = 500
    try:
        max_ticks = read_gen_constants()['MAX_TICKS']
    except Exception:  # noqa
        pass
    model = None
    try:
        model = Model()
    except Exception:  # noqa
        print('(model driver not available; implementation-only replay)')
    rc = 0
    if 'case' in r and 'init' not in r['case']:
        case = r['case']
        res = run_setup_impl(case)
        print('impl:', res)
        why = oracle_setup(case, res, max_ticks)
        print('oracle:', why or 'laws hold on this input')
        if why:
            rc = 1
        if model:
            v, d, m = judge(model, case, set_mode(case['mode']), case['reads'], res['obs'],
                            res['logs'])
            print('model: %s %s -> %s %s' % (m['status'], m['how'], v, d or ''))
            if v == 'disagree':
                rc = 1
    else:
        hist = r.get('history') or r.get('case')
        if hist is None:
            print(json.dumps(r, indent=1)[:3000])
            return 1
        recs = run_history_impl(hist)
        for j, rec in enumerate(recs):
            print('read %d:' % j, list(zip([tuple(x) for x in rec['reads']], rec['obs'])))
        hit = oracle_history(hist, recs, max_ticks)
        print('oracle:', ('read %d: %s' % hit) if hit else 'laws hold on this history')
        if hit:
            rc = 1
        if model:
            for j, rec in enumerate(recs):
                c = rec['case']
                v, d, m = judge(model, c, set_mode(c['mode']), rec['reads'], rec['obs'])
                print('model at read %d: %s %s -> %s %s' % (j, m['status'], m['how'], v, d or ''))
                if v == 'disagree':
                    rc = 1
    return rc
