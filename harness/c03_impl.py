"""C03: eng_impl.Impl extended with `validate <fit> <skip>`; prints
ValidationError.data in the canonical line format of ocaml/restr_driver.ml."""
import eng_impl
from eng_impl import Impl, CLASSES, qout
from eos import ValidationError
from eos.item.charge import Autocharge

CLS_NAME = {v: k for k, v in CLASSES.items()}


def qs(l):
    return ';'.join(qout(x) for x in l)


def oz(x):
    return '-' if x is None else str(int(x))


def err_s(e):
    n = type(e).__name__
    if n == 'ResourceErrorData':
        return 'res,%s,%s,%s' % (qout(e.total_use), qout(e.output), qout(e.item_use))
    if n == 'SlotQuantityErrorData':
        return 'slot,%d,%d' % (e.used, e.total)
    if n == 'CapitalItemErrorData':
        return 'cap,%s,%s' % (qout(e.item_volume), qout(e.max_subcap_volume))
    if n == 'ChargeGroupErrorData':
        return 'chg,%s,%s' % (oz(e.group_id), qs(e.allowed_group_ids))
    if n == 'ChargeSizeErrorData':
        return 'chs,%s,%s' % ('-' if e.size is None else qout(e.size), qout(e.allowed_size))
    if n == 'ChargeVolumeErrorData':
        return 'chv,%s,%s' % (qout(e.volume), qout(e.max_allowed_volume))
    if n == 'DroneGroupErrorData':
        return 'drg,%s,%s' % (oz(e.group_id), qs(e.allowed_group_ids))
    if n == 'ItemClassErrorData':
        return 'cls,%s,%s' % (CLS_NAME.get(e.item_class, '?'),
                              ';'.join(CLS_NAME.get(c, '?') for c in e.allowed_classes))
    if n == 'LoadedItemErrorData':
        return 'ld'
    if n == 'MaxGroupErrorData':
        return 'mg,%s,%d,%s' % (oz(e.group_id), e.quantity, qout(e.max_allowed_quantity))
    if n == 'RigSizeErrorData':
        return 'rig,%s,%s' % (qout(e.size), qout(e.allowed_size))
    if n == 'ShipTypeGroupErrorData':
        return 'stg,%s,%s,%s,%s' % (oz(e.ship_type_id), oz(e.ship_group_id), qs(e.allowed_type_ids),
                                    qs(e.allowed_group_ids))
    if n == 'SlotIndexErrorData':
        return 'idx,' + qout(e.slot_index)
    if n == 'StateErrorData':
        return 'st,%d,%s' % (int(e.state), ';'.join(str(int(s)) for s in e.allowed_states))
    if isinstance(e, tuple) and all(type(x).__name__ == 'SkillRequirementErrorData' for x in e):
        return 'skl,' + ';'.join('%d/%s/%d' % (x.skill_type_id, oz(x.level), x.required_level) for x in e)
    return 'unknown(%s)' % n


class RImpl(Impl):
    def key(self, obj):
        if obj is None:
            return '-'
        if isinstance(obj, Autocharge):
            parent = obj._container
            for eid, a in getattr(parent, 'autocharges', {}).items():
                if a is obj:
                    return 'a%s.%d' % (self.key(parent), eid)
            return 'a?'
        return self.iid(obj)

    def handle(self, t):
        if t[0] == 'validate':
            fit = self.fits[int(t[1])]
            skip = [] if t[2] == '-' else [int(x) for x in t[2].split(',')]
            try:
                fit.validate(skip)
            except ValidationError as e:
                data = e.args[0]
                out = []
                for item, errs in data.items():
                    for rt, err in errs.items():
                        out.append('%s:%d:%s' % (self.key(item), int(rt), err_s(err)))
                return 'vdata ' + ' '.join(out)
            return 'vok'
        if t[0] == 'rregs':
            return 'rregs'
        return super().handle(t)

    def fit_item_keys(self, f):
        """keys of every item currently on fit f (public containers, charges, autocharges)"""
        fit = self.fits[f]
        out = set()
        tops = [fit.character, fit.ship, fit.stance, fit.effect_beacon]
        for c in (fit.skills, fit.implants, fit.boosters, fit.subsystems, fit.rigs, fit.drones, fit.fighters,
                  fit.modules.high, fit.modules.mid, fit.modules.low):
            tops += list(c)
        for it in tops:
            if it is None:
                continue
            out.add(self.key(it))
            ch = getattr(it, 'charge', None)
            subs = ([ch] if ch is not None else []) + list(it.autocharges.values())
            for s in subs:
                out.add(self.key(s))
                for s2 in s.autocharges.values():
                    out.add(self.key(s2))
        return out
