"""C15 — cache persistence is lossless and leaves no leftovers."""
import json
import math
import os
import random

import common
import cachelib as cl

PROP_FILE = 'props/C15.v'
TABLES = ['cache']


# ---------------------------------------------------------------------------
# cases: sequences of update_cache calls on one handler
# ---------------------------------------------------------------------------

def fit_ready_objs(rng, base=0):
    """A small universe on which attribute calculation does real work: a ship
    and a module type, a passive effect with item/ship modifiers."""
    from eos.const.eos import ModAffecteeFilter, ModDomain, ModOperator, ModAggregateMode, \
        EffectBuildStatus
    from eos.const.eve import EffectCategoryId
    a = [base + 1, base + 2, base + 3, base + 4]
    attrs = [[a[0], None, rng.choice([None, 10.0]), True, rng.random() < 0.5],
             [a[1], None, 0.0, rng.random() < 0.5, True],
             [a[2], rng.choice([None, a[3]]), None, True, False],
             [a[3], None, 5.5, True, True]]
    ops = [int(ModOperator.post_percent), int(ModOperator.post_mul), int(ModOperator.mod_add),
           int(ModOperator.pre_mul), int(ModOperator.post_assign)]
    mods = []
    for tgt in (a[0], a[2]):
        for _ in range(rng.randint(1, 3)):
            mods.append([int(ModAffecteeFilter.item), int(rng.choice([ModDomain.ship, ModDomain.self])),
                         None, tgt, rng.choice(ops), int(ModAggregateMode.stack), None, a[1]])
    eff = [base + 1001, int(EffectCategoryId.passive), False, False, None, None, None, None, None,
           None, None, int(EffectBuildStatus.success), mods]
    ship = [base + 1, 25, 6, [[a[0], rng.choice([100, 250.5])], [a[2], rng.choice([7, 1.25])],
                              [a[3], rng.choice([4, 6.0])]], [], None, [], []]
    mod = [base + 2, 60, 7, [[a[1], rng.choice([10, 12.5, -20])], [a[0], 3]],
           [[eff[0], eff]], rng.choice([None, eff]), [], [[3300, 1]]]
    return [[ship, mod], attrs, [eff], []]


def gen_cases(rng, n_sets):
    cases = []
    total = 0
    while total < n_sets:
        k = rng.choice([1, 1, 2, 2, 3, 4])
        kind = rng.random()
        ups = []
        for u in range(k):
            base = 0 if rng.random() < 0.6 else 100 * rng.randint(1, 3)
            if kind < 0.25:
                objs = fit_ready_objs(rng, base)
            else:
                objs = cl.gen_objs(rng, avoid_custom=True, id_base=base)
            ups.append({'objs': objs, 'fp': '%s_0.0.0.dev10' % rng.choice(['7', '8', 'None', 'abc'])})
        cases.append({'updates': ups, 'custom': False})
        total += k
    # a customised stream (online category fix, propulsion modifiers, character
    # missile effect): compared writer vs reader only (the model is instantiated
    # with the identity customisation)
    for _ in range(max(3, n_sets // 50)):
        ups = [{'objs': cl.gen_objs(rng, avoid_custom=False), 'fp': 'c_0'}
               for _ in range(rng.randint(1, 2))]
        cases.append({'updates': ups, 'custom': True})
    return cases


def nontrivial(case):
    return any(o['objs'][0] and o['objs'][2] for o in case['updates'])


# ---------------------------------------------------------------------------
# implementation
# ---------------------------------------------------------------------------

def fit_obs(handler, objs):
    """Attribute values of a ship with one module of every other type."""
    from eos import Fit, SolarSystem, Ship, ModuleHigh, State
    from eos.source import Source
    types = objs[0]
    if not types:
        return []
    attr_ids = sorted({a[0] for a in objs[1]} | {p[0] for t in types for p in t[3]})[:12]
    out = []
    try:
        solsys = SolarSystem(source=Source('s', handler))
        fit = Fit(solar_system=solsys)
        items = []
        ship = Ship(types[0][0])
        fit.ship = ship
        items.append(ship)
        # a second fit whose ship is targeted after the modules are fitted and running
        fit2 = Fit(solar_system=solsys)
        ship2 = Ship(types[0][0])
        fit2.ship = ship2
        items.append(ship2)
        mods = []
        for k, t in enumerate(types[1:4]):
            m = ModuleHigh(t[0], state=State.offline if k == 0 else State.active)
            fit.modules.high.append(m)
            items.append(m)
            mods.append(m)
        for k, m in enumerate(mods):
            if k % 2 == 0:
                m.target = ship2
        for m in mods[:1]:
            m.state = State.active
        for it in items:
            for a in attr_ids:
                try:
                    out.append(['ok', cl.canon(it.attrs[a])])
                except Exception as e:  # noqa
                    out.append(['raise', type(e).__name__])
            try:
                out.append(['effects', sorted((int(e), bool(d.status)) for e, d in it.effects.items())])
            except Exception as e:  # noqa
                out.append(['raise', type(e).__name__])
    except Exception as e:  # noqa
        out.append(['setup-raise', type(e).__name__])
    return out


def run_impl(case, path):
    from eos.cache_handler import JsonCacheHandler
    if os.path.exists(path):
        os.remove(path)
    w = JsonCacheHandler(path)
    res = []
    seen = []
    for up in case['updates']:
        seen.append(up['objs'])
        probes = cl.probes_of(seen)
        r = {'raised': None}
        try:
            w.update_cache(cl.mk_objs(up['objs']), up['fp'])
        except Exception as e:  # noqa
            r['raised'] = type(e).__name__
        r['writer'] = cl.handler_view(w, probes)
        try:
            rd = JsonCacheHandler(path)
            r['reader'] = cl.handler_view(rd, probes)
            r['fit_writer'] = fit_obs(w, up['objs'])
            r['fit_reader'] = fit_obs(rd, up['objs'])
        except Exception as e:  # noqa
            r['reader_raised'] = type(e).__name__
        res.append(r)
    return res


def originals_view(objs, probes):
    """What the property says must be served: the originals themselves."""
    real = cl.mk_objs(objs)
    v = {'fp': None, 'types': {}, 'attrs': {}, 'effects': {}, 'buffs': {}}
    for kind, lst, norm in (('types', real[0], cl.n_type), ('attrs', real[1], cl.n_attr),
                            ('effects', real[2], cl.n_effect)):
        d = {o.id: cl.canon(norm(o)) for o in lst}
        for i in probes[kind]:
            v[kind][i] = d.get(i, 'absent')
    for i in probes['buffs']:
        l = sorted((cl.canon(cl.n_buff(b)) for b in real[3] if b.buff_id == i), key=repr)
        v['buffs'][i] = l if l else 'absent'
    for kind in ('types', 'attrs', 'effects', 'buffs'):
        v['keys_' + kind] = None
    return v


# ---------------------------------------------------------------------------
# model
# ---------------------------------------------------------------------------

def model_lines(case):
    lines = ['N']
    for up in case['updates']:
        lines.append('U %s %s' % (cl.j_line(up['objs']), cl.j_line(up['fp'])))
        lines.append('R')
    return lines


def compare(case, impl, out):
    """None when model and implementation agree on every view."""
    seen = []
    for k, up in enumerate(case['updates']):
        seen.append(up['objs'])
        probes = cl.probes_of(seen)
        r = impl[k]
        wtag, wst = cl.parse_state_line(out[1 + 2 * k])
        rtag, rst = cl.parse_state_line(out[2 + 2 * k])
        if (wtag != 'ok') != (r['raised'] is not None):
            return 'update %d: model %s, impl raised %s' % (k, wtag, r['raised'])
        if 'reader_raised' in r:
            return 'update %d: constructing the reader raised %s' % (k, r['reader_raised'])
        if rtag != 'ok':
            return 'update %d: model reader %s' % (k, rtag)
        d = cl.view_diff(cl.model_view(wst, probes), r['writer'])
        if d:
            return 'update %d writer (model vs impl): %s' % (k, d)
        d = cl.view_diff(cl.model_view(rst, probes), r['reader'])
        if d:
            return 'update %d reader (model vs impl): %s' % (k, d)
    return None


def writer_vs_reader(case, impl):
    for k, r in enumerate(impl):
        if r['raised']:
            return 'update %d raised %s' % (k, r['raised'])
        if 'reader_raised' in r:
            return 'update %d: constructing the reader raised %s' % (k, r['reader_raised'])
        d = cl.view_diff(r['writer'], r['reader'])
        if d:
            return 'update %d: writer and fresh reader differ: %s' % (k, d)
        bw, br = r['writer'].get('behaviour', {}), r['reader'].get('behaviour', {})
        for i in bw:
            if bw[i] != br.get(i):
                return ('update %d: effect %s behaves differently on writer and fresh reader '
                        '(is_projectable, state, #local, #projected): %r vs %r' % (k, i, bw[i], br.get(i)))
        if r['fit_writer'] != r['fit_reader']:
            return 'update %d: fit on writer-backed and reader-backed source differ' % k
    return None


# ---------------------------------------------------------------------------
# direct oracle (implementation only): the property text itself
# ---------------------------------------------------------------------------

def oracle(case, impl):
    why = writer_vs_reader(case, impl)
    if why:
        return why
    seen = []
    for k, up in enumerate(case['updates']):
        seen.append(up['objs'])
        probes = cl.probes_of(seen)
        r = impl[k]
        if r['reader']['fp'] != cl.canon(up['fp']):
            return 'update %d: fingerprint %r, written %r' % (k, r['reader']['fp'], up['fp'])
        if case.get('custom'):
            continue
        want = originals_view(up['objs'], probes)
        want['fp'] = cl.canon(up['fp'])
        for who in ('reader', 'writer'):
            d = cl.view_diff(want, r[who], ignore_keys=True)
            if d:
                return ('update %d: %s serves something else than the objects of this update '
                        '(originals vs served): %s' % (k, who, d))
    return None


# ---------------------------------------------------------------------------

def run(rep):
    rng = random.Random(rep.seed)
    n = 300 if rep.tier == 'quick' else 20000
    proved = common.prove(rep, PROP_FILE, TABLES, ['extract/X_cache.vo'])
    if proved and rep.tier == 'thorough':
        common.coqchk(rep, PROP_FILE)
    wd = cl.workdir('C15')
    corpus = common.load_corpus('C15')
    cases = corpus + gen_cases(rng, n)
    path = os.path.join(wd, 'cache.json.bz2')
    impl = [run_impl(c, path) for c in cases]
    nsets = sum(len(c['updates']) for c in cases)
    rep.cov['evaluations'] = nsets
    rep.cov['rule'] = (
        'sequences of 1-4 update_cache calls on one JsonCacheHandler (real json + bz2, file under '
        '.work/C15); object sets with unique ids, every field of types/attributes/effects/dogma '
        'modifiers/buff templates populated and unpopulated (None, ints incl. > 2^64, floats, inf '
        'charge counts and attribute values, IntEnum members for enum-valued fields, default '
        'effect in/outside the type\'s effects, required skills, duplicate buff ids); ids of '
        'successive updates overlap or are disjoint; after every update the getters of the '
        'writer and of a fresh reader are probed on every id seen so far in the sequence (+ the '
        'private storages\' key sets) and compared with the extracted model; a fit (ship + up to '
        '3 modules) is computed on writer-backed and reader-backed sources; non-trivial = a '
        'sequence in which some update has at least one type and one effect; distinct by content')
    rep.cov['distinct_nontrivial'] = len({json.dumps(c['updates'], sort_keys=True)
                                          for c in cases if nontrivial(c)})
    rep.cov['samples'] = [{'case': cases[k], 'impl_fp': [r['writer']['fp'] for r in impl[k]]}
                          for k in range(min(2, len(cases)))]
    rep.cov['sequence_length_histogram'] = {}
    for c in cases:
        h = rep.cov['sequence_length_histogram']
        h[len(c['updates'])] = h.get(len(c['updates']), 0) + 1
    rep.cov['fit_observations'] = sum(len(r.get('fit_writer', [])) for i in impl for r in i)
    rep.cov['fit_values_ok'] = sum(1 for i in impl for r in i for o in r.get('fit_writer', [])
                                   if o[0] == 'ok')
    rep.cov['customised_stream_cases'] = sum(1 for c in cases if c.get('custom'))
    disagreements = []
    try:
        exe = common.build_driver('cache')
        idx = [k for k, c in enumerate(cases) if not c.get('custom')]
        outs = cl.run_model_cases(exe, [model_lines(cases[k]) for k in idx])
        for k, out in zip(idx, outs):
            d = compare(cases[k], impl[k], out)
            if d:
                disagreements.append((k, d))
        rep.cov['traces_validated_against_impl'] = len(idx)
    except common.TieBroken as e:
        rep.broken.append('%s: %s' % (e.what, e.detail))
    for k, c in enumerate(cases):
        d = writer_vs_reader(c, impl[k])
        if d and not any(kk == k for kk, _ in disagreements):
            disagreements.append((k, d))
    cl.cleanup('C15')
    finish(rep, cases, impl, disagreements)


def finish(rep, cases, impl, disagreements):
    if not rep.broken and not disagreements:
        return
    order = [k for k, _ in disagreements] + list(range(len(cases)))
    seen = set()
    for k in order:
        if k in seen:
            continue
        seen.add(k)
        why = oracle(cases[k], impl[k])
        if why:
            small = shrink(cases[k])
            why = fails(small) or why
            cl.cleanup('C15')
            rep.violation({'kind': 'input', 'case': small, 'fails': why,
                           'broken': rep.broken,
                           'disagreement': next((d for kk, d in disagreements if kk == k), None)})
            return
    rep.violation({'kind': 'obligation', 'broken': rep.broken,
                   'disagreements': [{'case': cases[k], 'what': d} for k, d in disagreements[:3]]},
                  found_input=False)


def fails(case):
    wd = os.path.join(common.WORK, 'C15')
    os.makedirs(wd, exist_ok=True)
    try:
        return oracle(case, run_impl(case, os.path.join(wd, 'shrink.json.bz2')))
    except Exception as e:  # noqa
        return 'harness error %s' % e


def shrink(case):
    """Greedy reduction of a failing case (drop updates, then objects)."""
    best = case
    if not fails(best):
        return case
    changed = True
    while changed:
        changed = False
        ups = best['updates']
        for i in range(len(ups)):
            if len(ups) > 1:
                c = dict(best, updates=ups[:i] + ups[i + 1:])
                if fails(c):
                    best, changed = c, True
                    break
            hit = False
            for part in range(4):
                lst = ups[i]['objs'][part]
                for j in range(len(lst)):
                    o = list(ups[i]['objs'])
                    o[part] = lst[:j] + lst[j + 1:]
                    # keep well-formedness: an effect may only go if no type uses it
                    if part == 2 and any(e[0] == lst[j][0] for t in o[0] for _, e in t[4]) or \
                            part == 2 and any(t[5] is not None and t[5][0] == lst[j][0] for t in o[0]):
                        continue
                    c = dict(best, updates=ups[:i] + [dict(ups[i], objs=o)] + ups[i + 1:])
                    if fails(c):
                        best, changed, hit = c, True, True
                        break
                if hit:
                    break
            if hit:
                break
    cl.cleanup('C15')
    return best


def replay(path):
    r = json.load(open(path))
    if 'case' not in r:
        print(json.dumps(r, indent=1)[:3000])
        return 1
    wd = cl.workdir('C15')
    impl = run_impl(r['case'], os.path.join(wd, 'replay.json.bz2'))
    why = oracle(r['case'], impl)
    cl.cleanup('C15')
    for k, x in enumerate(impl):
        print('update %d: raised=%s writer fp=%r reader fp=%r' % (
            k, x['raised'], x['writer']['fp'], x.get('reader', {}).get('fp')))
        print('  writer buff ids:', {i: (v if v == 'absent' else len(v)) for i, v in x['writer']['buffs'].items()})
        if 'reader' in x:
            print('  reader buff ids:', {i: (v if v == 'absent' else len(v)) for i, v in x['reader']['buffs'].items()})
    print('oracle:', why or 'property holds on this input')
    return 1 if why else 0
