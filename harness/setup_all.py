"""setup_cmd: regenerate all tables, full Coq build, all model drivers.
Files of properties that are not (yet) claimed in MANIFEST.json may fail to
build without failing the set-up; everything a claimed check needs must build."""
import glob
import json
import os
import sys

sys.path.insert(0, os.path.dirname(os.path.abspath(__file__)))
import common  # noqa

m = json.load(open(os.path.join(common.VERIF, 'MANIFEST.json')))
claimed = [c['property_id'] for c in m['checks']]
with common.Lock():
    for t in common.all_table_names():
        try:
            common.gen_tables([t])
        except common.TieBroken as e:
            print('translator failed:', e.what, e.detail)
    common.ensure_makefile()
    targets = [f[:-2] + '.vo' for f in common.coq_files()]
    os.makedirs(os.path.join(common.COQ, 'extract', 'out'), exist_ok=True)
    rc, out = common.sh(['timeout', '7000', 'make', '-k', '-j' + common.NPROC] + targets, cwd=common.COQ, timeout=7100)
    print(out[-4000:])
    missing = [p for p in claimed if not os.path.exists(os.path.join(common.COQ, 'props', p + '.vo'))]
    if missing:
        print('claimed property files did not build:', missing)
        sys.exit(1)
    ok = True
    for d in sorted(glob.glob(os.path.join(common.VERIF, 'ocaml', '*_driver.ml'))):
        name = os.path.basename(d)[:-len('_driver.ml')]
        try:
            print('driver', common.build_driver(name))
        except common.TieBroken as e:
            print('driver %s not built: %s' % (name, e.what))
