"""setup_cmd: regenerate all tables, full Coq build, all model drivers."""
import glob
import os
import sys

sys.path.insert(0, os.path.dirname(os.path.abspath(__file__)))
import common  # noqa

with common.Lock():
    try:
        common.gen_tables(common.all_table_names())
    except common.TieBroken as e:
        print('translator failed:', e.what, e.detail)
        sys.exit(1)
    common.ensure_makefile()
    targets = [f[:-2] + '.vo' for f in common.coq_files()]
    rc, out = common.coq_make(targets, timeout=7000)
    print(out[-6000:])
    if rc != 0:
        sys.exit(rc)
    for d in sorted(glob.glob(os.path.join(common.VERIF, 'ocaml', '*_driver.ml'))):
        name = os.path.basename(d)[:-len('_driver.ml')]
        print('driver', common.build_driver(name))
