"""run a saved {ulines, ops} script on both sides and print all non-universe lines"""
import os, sys, json
sys.path.insert(0, os.path.dirname(os.path.abspath(__file__)))
import common
sys.path.insert(0, common.REPO)
import eng_impl, eng_run
d = json.load(open(sys.argv[1]))
exe = common.build_driver('engine')
eng_impl.set_penalty_base(0.5)
pens = eng_impl.penalties()
script = d['ulines'] + d['ops']
impl = eng_impl.Impl()
mo = common.run_driver(exe, [eng_run.pen_line(pens)] + script, shards=1)[1:]
for l, m in zip(script, mo):
    i = impl.run(l) if not l.startswith('trace') else ''
    if l.startswith(('u_', 'new ')):
        continue
    flag = '' if eng_run.same(l, m, i) or l == 'trace' else '   <<<<<<'
    print('%-28s | %s | %s%s' % (l, m[:900], i[:900], flag))
