"""C03 generators: eng_gen universes extended with the attributes and effects
the restrictions and their stat registers read, and histories with enough
items of every container to exceed slot limits and collide on slot indices."""
from fractions import Fraction

import eng_gen
from eng_gen import Universe, World
from eos.const.eos import ModOperator as OP, Restriction
from eos.const.eve import (AttrId as A, EffectCategoryId as EC, EffectId as E, TypeCategoryId as TC,
                           TypeGroupId as TG, TypeId)

SLOT_EFFECTS = [E.hi_power, E.med_power, E.lo_power, E.rig_slot, E.subsystem, E.turret_fitted, E.launcher_fitted]
# attributes read through item.attrs[...] (need metadata); the rest are read from the type only
CALC_ATTRS = [A.cpu_output, A.power_output, A.upgrade_cost, A.upgrade_capacity, A.volume, A.drone_capacity,
              A.drone_bandwidth, A.drone_bandwidth_used, A.hi_slots, A.med_slots, A.low_slots, A.rig_slots,
              A.max_subsystems, A.fighter_tubes, A.turret_slots_left, A.launcher_slots_left,
              A.max_active_drones, A.fighter_support_slots, A.fighter_light_slots, A.fighter_heavy_slots,
              A.max_group_fitted, A.max_group_online, A.max_group_active]
EXACT_OPS = [OP.pre_assign, OP.pre_mul, OP.mod_add, OP.mod_sub, OP.post_mul, OP.post_mul_immune, OP.post_assign]
RESTRICTION_TYPES = sorted(int(r) for r in Restriction)


def F(n, d=1):
    return Fraction(n, d)


class RUniverse(Universe):
    def gen(self):
        self._restr_targets = [int(a) for a in CALC_ATTRS]
        super().gen()
        r = self.rng
        for a in CALC_ATTRS:
            self.attrs[int(a)] = dict(default=r.choice([None, None, F(0), F(1)]), hig=r.random() < 0.5,
                                      stackable=r.random() < 0.7, max=None)
        for e in SLOT_EFFECTS:
            self.effects[int(e)] = dict(cat=int(EC.passive), chance=None, resist=None, mods=[])
        ch = self.types[int(TypeId.character_static)]
        if r.random() < 0.8:
            ch['attrs'][int(A.max_active_drones)] = F(r.choice([0, 1, 2, 5]))
        if r.random() < 0.6:
            ch['group'] = int(TG.character)
        groups = self.groups
        for t in self.ship_types:
            ty = self.types[t]
            at = ty['attrs']
            for a, vals in ((A.hi_slots, (0, 1, 2, 3)), (A.med_slots, (0, 1, 2)), (A.low_slots, (0, 1, 2)),
                            (A.rig_slots, (0, 1, 2)), (A.max_subsystems, (0, 1, 2)), (A.fighter_tubes, (0, 1, 2)),
                            (A.turret_slots_left, (0, 1, 2)), (A.launcher_slots_left, (0, 1, 2)),
                            (A.fighter_support_slots, (0, 1)), (A.fighter_light_slots, (0, 1)),
                            (A.fighter_heavy_slots, (0, 1)),
                            (A.cpu_output, (0, 10, F(81, 8), 50, 400)), (A.power_output, (0, 5, F(25, 2), 100)),
                            (A.upgrade_capacity, (0, 100, 400)), (A.drone_capacity, (0, 5, 25, 100)),
                            (A.drone_bandwidth, (0, 10, 25)), (A.is_capital_size, (0, 1)),
                            (A.rig_size, (1, 2, 3))):
                if r.random() < 0.65:
                    at[int(a)] = F(r.choice(vals))
            for a in (A.allowed_drone_group_1, A.allowed_drone_group_2):
                if r.random() < 0.4:
                    at[int(a)] = F(r.choice(groups))
        stid = self.ship_types
        for t in self.module_types:
            ty = self.types[t]
            at = ty['attrs']
            ef = ty['effects']
            for e in (E.hi_power, E.med_power, E.lo_power):
                if r.random() < 0.5:
                    ef.append(int(e))
            for e in (E.turret_fitted, E.launcher_fitted):
                if r.random() < 0.35:
                    ef.append(int(e))
            r.shuffle(ef)
            if r.random() < 0.7:
                at[int(A.volume)] = F(r.choice([5, 3500, 4000, 8000]))
            if r.random() < 0.6:
                at[int(A.capacity)] = F(r.choice([F(1, 2), 1, 10]))
            for a in r.sample([A.charge_group_1, A.charge_group_2, A.charge_group_3, A.charge_group_4,
                               A.charge_group_5], r.choice([0, 0, 1, 2, 3])):
                at[int(a)] = F(r.choice(groups))
            if r.random() < 0.45:
                at[int(A.charge_size)] = F(r.choice([1, 2]))
            for a in (A.max_group_fitted, A.max_group_online, A.max_group_active):
                if r.random() < 0.45:
                    at[int(a)] = F(r.choice([0, 1, 1, 2]))
            type_attrs = [A.can_fit_ship_type_1, A.can_fit_ship_type_2, A.can_fit_ship_type_5,
                          A.can_fit_ship_type_10, A.fits_to_shiptype]
            group_attrs = [A.can_fit_ship_group_1, A.can_fit_ship_group_2, A.can_fit_ship_group_9,
                           A.can_fit_ship_group_20]
            if r.random() < 0.4:
                for a in r.sample(type_attrs, r.choice([1, 2])):
                    at[int(a)] = F(r.choice(stid + [9999]))
            if r.random() < 0.4:
                for a in r.sample(group_attrs, r.choice([1, 2])):
                    at[int(a)] = F(r.choice(groups))
        for t in self.charge_types:
            at = self.types[t]['attrs']
            if r.random() < 0.7:
                at[int(A.volume)] = F(r.choice([F(1, 4), 1, 5, 20]))
            if r.random() < 0.6:
                at[int(A.charge_size)] = F(r.choice([1, 2]))
        for t in self.drone_types:
            at = self.types[t]['attrs']
            if r.random() < 0.8:
                at[int(A.volume)] = F(r.choice([5, 10, 25]))
            if r.random() < 0.8:
                at[int(A.drone_bandwidth_used)] = F(r.choice([0, 5, 10, 25]))
        for t in self.implant_types:
            at = self.types[t]['attrs']
            if r.random() < 0.85:
                at[int(A.implantness)] = F(r.choice([1, 1, 2, 0, 0]))
        t = self.misc_types['rig'][0]
        ty = self.types[t]
        if r.random() < 0.85:
            ty['effects'].append(int(E.rig_slot))
        if r.random() < 0.7:
            ty['category'] = int(TC.module)
        if r.random() < 0.8:
            ty['attrs'][int(A.rig_size)] = F(r.choice([1, 2, 3]))
        if r.random() < 0.8:
            ty['attrs'][int(A.upgrade_cost)] = F(r.choice([0, 50, 150, 300]))
        ty = self.types[self.misc_types['subsystem'][0]]
        if r.random() < 0.8:
            ty['effects'].append(int(E.subsystem))
        if r.random() < 0.85:
            ty['attrs'][int(A.subsystem_slot)] = F(r.choice([125, 126]))
        ty = self.types[self.misc_types['booster'][0]]
        if r.random() < 0.85:
            ty["attrs"][int(A.boosterness)] = F(r.choice([1, 2, 0]))
        if r.random() < 0.7:
            ty['category'] = int(TC.implant)
        ty = self.types[self.misc_types['stance'][0]]
        if r.random() < 0.6:
            ty['group'] = int(TG.ship_modifier)
        ty = self.types[self.misc_types['beacon'][0]]
        if r.random() < 0.6:
            ty['group'] = int(TG.effect_beacon)
        ty = self.types[self.misc_types['fighter'][0]]
        for a in (A.fighter_squadron_is_support, A.fighter_squadron_is_light, A.fighter_squadron_is_heavy):
            if r.random() < 0.5:
                ty['attrs'][int(a)] = F(r.choice([0, 1, 1]))

    def gen_mod(self, cat):
        m = super().gen_mod(cat)
        r = self.rng
        if r.random() < 0.22 and m['op'] in [int(o) for o in OP]:
            # modified values of restriction attributes; kept exact in binary64
            m['tgt'] = r.choice(self._restr_targets)
            m['src'] = r.choice(self.base_attrs)
            m['op'] = int(r.choice(EXACT_OPS))
        return m


class RWorld(World):
    def setup(self):
        super().setup()
        r = self.rng
        u = self.u
        extra = []
        for cls in ('rig', 'subsystem', 'booster', 'fighter'):
            for _ in range(r.choice([0, 1, 2, 3])):
                extra.append((cls, u.misc_types[cls][0]))
        for _ in range(r.randint(0, 3)):
            extra.append(('drone', r.choice(u.drone_types)))
        for _ in range(r.randint(0, 2)):
            extra.append(('implant', r.choice(u.implant_types)))
        for _ in range(r.randint(0, 3)):
            extra.append((r.choice(['modhigh', 'modmid', 'modlow']), r.choice(u.module_types)))
        for cls, tid in extra:
            st = r.choice([1, 2, 3, 3, 4]) if cls in ('modhigh', 'modmid', 'modlow', 'drone', 'fighter') else 1
            self.new_item(cls, tid, st, r.randint(0, 5))


def gen_history(rng, nops=None, nfits=None):
    """(universe lines, op lines, meta) — as eng_gen.gen_history, with the
    restriction universe and the larger item pool"""
    u1 = RUniverse(rng)
    ulines = u1.lines(1)
    u2 = u1.variant(rng)
    ulines += u2.lines(2)
    nsrc = 2
    nfits = nfits or rng.choice([1, 1, 2, 2, 3])
    nss = rng.choice([1, 1, 2])
    w = RWorld(rng, u1, nfits, nss)
    w.setup()
    for s in w.sss:
        if rng.random() < 0.85:
            w.emit('source %d 1' % s)
    for f in w.fits:
        if rng.random() < 0.85:
            s = rng.choice(w.sss)
            w.emit('ssadd %d %d' % (s, f))
            w.fit_ss[f] = s
    for _ in range(int(0.75 * len(w.items))):
        w.op_place()
    for _ in range(rng.randint(0, 3)):
        w.op_target()
    setup_len = len(w.lines)
    nops = nops or rng.randint(10, 40)
    for _ in range(nops):
        w.step(nsrc)
    meta = dict(items=sorted(w.items), fits=w.fits, sss=w.sss, attrs=u1.all_attr_ids(), setup_len=setup_len)
    return ulines, w.lines, meta


def skip_sets(rng, k_random=3):
    """skip_checks arguments tried at an observation point: nothing, every
    singleton, a few random subsets, everything"""
    out = [[]] + [[t] for t in RESTRICTION_TYPES]
    for _ in range(k_random):
        out.append(sorted(rng.sample(RESTRICTION_TYPES, rng.randint(2, len(RESTRICTION_TYPES) - 1))))
    out.append(list(RESTRICTION_TYPES))
    return out
