"""Generators for data universes and operation histories of the engine model
(script lines in the format of ocaml/engine_driver.ml)."""
from fractions import Fraction

from eosenv import bits

# enum codes are read from the running eos so the generator follows the source
from eos.const.eos import (EffectMode, ModAffecteeFilter as F, ModAggregateMode as AG,
                           ModDomain as D, ModOperator as OP, State)
from eos.const.eve import AttrId, EffectCategoryId as EC, EffectId, TypeCategoryId as TC, TypeId, FighterAbilityId, fighter_ability_map

BUFF_EFFECTS = [EffectId.module_bonus_warfare_link_armor, EffectId.module_bonus_warfare_link_shield,
                EffectId.module_bonus_warfare_link_info]
BUFF_ATTRS = [(AttrId.warfare_buff_1_id, AttrId.warfare_buff_1_value),
              (AttrId.warfare_buff_2_id, AttrId.warfare_buff_2_value)]
AUTOCHARGE_EFFECT = {int(EffectId.target_attack): int(AttrId.ammo_loaded),
                     int(EffectId.fighter_ability_launch_bomb): int(AttrId.fighter_ability_launch_bomb_type)}


def q(x):
    f = Fraction(x)
    return bits(f.numerator) + '/' + bits(f.denominator)


def o(x):
    return '-' if x is None else str(int(x))


DYADIC = [Fraction(n, 8) for n in (-16, -8, -4, -2, -1, 1, 2, 3, 4, 6, 8, 10, 12, 16, 20, 24, 40, 80, 100 * 8)]
MULTS = [Fraction(n, 8) for n in (4, 6, 7, 9, 10, 12, 16)]         # 0.5 .. 2
PERCENTS = [Fraction(n, 2) for n in (-50, -25, 25, 50, 75, 100)]   # multiples of 12.5
DIVS = [Fraction(1, 2), Fraction(2), Fraction(4), Fraction(1, 4)]


class Universe:
    """A generated data universe; `lines(src)` renders it for source id src."""
    ALLOW_CUSTOM = True      # effects eos customises itself (propulsion modules, ancillary armor repairers)

    def __init__(self, rng, malformed=False):
        self.rng = rng
        self.attrs = {}
        self.effects = {}
        self.types = {}
        self.buffs = {}
        self.malformed = malformed
        self.gen()

    # ------------------------------------------------------------------
    def gen(self):
        r = self.rng
        na = r.randint(8, 14)
        self.base_attrs = list(range(1000, 1004))           # never targeted
        self.gen_attrs = list(range(1004, 1004 + na))       # src index < tgt index
        lp = [int(AttrId.cpu), int(AttrId.power)]           # limited precision (rounded) targets
        for a in self.base_attrs + self.gen_attrs:
            self.attrs[a] = dict(default=r.choice([None, None, r.choice(DYADIC)]),
                                 hig=r.random() < 0.6, stackable=r.random() < 0.5, max=None)
        for a in self.gen_attrs[2:]:
            if r.random() < 0.35:
                self.attrs[a]['max'] = r.choice([x for x in self.base_attrs + self.gen_attrs if x < a])
        for a in lp:
            self.attrs[a] = dict(default=r.choice([None, Fraction(0), Fraction(5)]), hig=False, stackable=True, max=None)
        for ida, va in BUFF_ATTRS:
            self.attrs[int(ida)] = dict(default=None, hig=True, stackable=True, max=None)
            self.attrs[int(va)] = dict(default=None, hig=True, stackable=True, max=None)
        self.attrs[int(AttrId.skill_level)] = dict(default=Fraction(0), hig=True, stackable=True, max=None)
        self.attrs[int(AttrId.ammo_loaded)] = dict(default=None, hig=True, stackable=True, max=None)
        self.targets = self.gen_attrs + lp
        # type ids
        self.skill_types = [3000 + i for i in range(r.randint(2, 4))]
        self.groups = [50, 51, 52, 53]
        self.ship_types = [3100, 3101]
        self.module_types = [3200 + i for i in range(r.randint(3, 6))]
        self.charge_types = [3300 + i for i in range(r.randint(1, 3))]
        self.drone_types = [3400, 3401]
        self.implant_types = [3500, 3501]
        self.misc_types = {'rig': [3600], 'subsystem': [3610], 'booster': [3620], 'stance': [3630],
                           'beacon': [3640], 'fighter': [3650]}
        # buff templates
        self.buff_ids = [10, 11, 12]
        for b in self.buff_ids:
            self.buffs[b] = [self.gen_buff(b) for _ in range(r.randint(1, 2))]
        if r.random() < 0.3:
            self.buffs[13] = []
        # effects
        self.effect_ids = []
        ne = r.randint(6, 12)
        for k in range(ne):
            eid = 2000 + k
            self.effects[eid] = self.gen_effect(eid)
            self.effect_ids.append(eid)
        self.effects[int(EffectId.online)] = dict(cat=int(EC.online),  # eos customisation forces this category
                                                 
                                                  chance=None, resist=None, mods=self.gen_mods(int(EC.online), 1))
        if r.random() < 0.4:
            # the fitting effect itself adjusts a fitting resource of its own item: the resource attribute
            # is recalculated on the very message that starts the resource use
            self_tgt = r.choice(lp)
            if self.attrs[self_tgt]['default'] is None:
                self.attrs[self_tgt]['default'] = r.choice([Fraction(0), Fraction(5)])
            self.effects[int(EffectId.online)]['mods'] = [
                dict(filter=int(F.item), extra=None, domain=int(D.self), tgt=self_tgt,
                     op=int(r.choice([OP.mod_add, OP.mod_add, OP.post_mul, OP.pre_assign])), agg=int(AG.stack),
                     key=None, src=r.choice(self.base_attrs))]
        for be in BUFF_EFFECTS:
            self.effects[int(be)] = dict(cat=int(EC.active), chance=None, resist=None,
                                         mods=self.gen_mods(int(EC.active), r.randint(0, 1)))
        self.effects[int(EffectId.target_attack)] = dict(cat=int(EC.target), chance=None, resist=None, mods=[])
        # fighter abilities: ability id -> effect id from the source's map
        self.ability_ids = [int(FighterAbilityId.afterburner), int(FighterAbilityId.ecm), int(FighterAbilityId.artillery)]
        for aid in self.ability_ids:
            eid = int(fighter_ability_map[aid])
            if eid not in self.effects:
                self.effects[eid] = dict(cat=int(r.choice([EC.active, EC.active, EC.target, EC.passive])),
                                         chance=None, resist=None, mods=self.gen_mods(int(EC.active), r.randint(0, 2)))
        # booster side effects: offline-category effects with a chance attribute
        self.side_effect_ids = [2100, 2101]
        for eid in self.side_effect_ids:
            self.effects[eid] = dict(cat=int(EC.passive), chance=r.choice(self.base_attrs), resist=None,
                                     mods=self.gen_mods(int(EC.passive), r.randint(0, 2)))
        # effects that eos customises itself (eve_obj/custom): propulsion modules and ancillary armor repairers
        self.custom = self.ALLOW_CUSTOM and r.random() < 0.6
        self.prop_types, self.aar_types = [], []
        if self.custom:
            for a in (AttrId.mass, AttrId.max_velocity, AttrId.signature_radius):
                self.attrs[int(a)] = dict(default=None, hig=a != AttrId.signature_radius, stackable=r.random() < 0.5, max=None)
            for a in (AttrId.speed_factor, AttrId.speed_boost_factor, AttrId.mass_addition,
                      AttrId.signature_radius_bonus, AttrId.armor_dmg_amount, AttrId.charged_armor_dmg_mult):
                self.attrs[int(a)] = dict(default=None, hig=True, stackable=True, max=None)
            for e in (EffectId.module_bonus_afterburner, EffectId.module_bonus_microwarpdrive,
                      EffectId.fueled_armor_repair):
                self.effects[int(e)] = dict(cat=int(EC.active), chance=None, resist=None, mods=[])
        # types
        self.types[int(TypeId.character_static)] = self.gen_type(None, None, allow_effects=('passive',))
        for t in self.skill_types:
            self.types[t] = self.gen_type(r.choice(self.groups), int(TC.skill), allow_effects=('passive',))
        for t in self.ship_types:
            self.types[t] = self.gen_type(r.choice(self.groups), int(TC.ship), allow_effects=('passive',))
        for t in self.module_types:
            # now and then a module type of a penalty-immune category (stacking penalty immunity is by category)
            mcat = int(TC.module) if r.random() < 0.85 else int(r.choice([TC.implant, TC.charge, TC.subsystem, TC.ship]))
            self.types[t] = self.gen_type(r.choice(self.groups), mcat,
                                          allow_effects=('passive', 'online', 'active', 'target', 'overload', 'buff',
                                                         'turret'))
        for t in self.charge_types:
            self.types[t] = self.gen_type(r.choice(self.groups), int(TC.charge), allow_effects=('passive', 'active'))
        for t in self.drone_types:
            self.types[t] = self.gen_type(r.choice(self.groups), int(TC.drone),
                                          allow_effects=('passive', 'active', 'target'))
        for t in self.implant_types:
            self.types[t] = self.gen_type(r.choice(self.groups), int(TC.implant), allow_effects=('passive',))
        for cls, ts in self.misc_types.items():
            for t in ts:
                cat = {'subsystem': int(TC.subsystem), 'fighter': int(TC.fighter)}.get(cls, r.choice([None, 99]))
                self.types[t] = self.gen_type(r.choice(self.groups), cat, allow_effects=('passive', 'active'))
        # an exact tie between a penalised (module) and a penalty-immune (implant) modification under
        # one max/min aggregate key, plus another penalised bonus on the same non-stackable attribute
        if r.random() < 0.35:
            tgt = r.choice(self.gen_attrs[2:])
            self.attrs[tgt]['stackable'] = False
            srca = self.base_attrs[0]
            agg = int(r.choice([AG.maximum, AG.minimum]))
            val = r.choice(PERCENTS)
            mt, it2, mt2 = self.module_types[0], self.implant_types[0], self.module_types[-1]
            for k, t in enumerate((mt, it2)):
                eid = 2200 + k
                self.effects[eid] = dict(cat=int(EC.passive), chance=None, resist=None,
                                         mods=[dict(filter=int(F.item), extra=None, domain=int(D.ship), tgt=tgt,
                                                    op=int(OP.post_percent), agg=agg, key=7, src=srca)])
                self.types[t]['effects'].append(eid)
                self.types[t]['attrs'][srca] = val
            self.effects[2202] = dict(cat=int(EC.passive), chance=None, resist=None,
                                      mods=[dict(filter=int(F.item), extra=None, domain=int(D.ship), tgt=tgt,
                                                 op=int(OP.post_percent), agg=int(AG.stack), key=None, src=self.base_attrs[1])])
            self.types[mt2]['effects'].append(2202)
            self.types[mt2]['attrs'][self.base_attrs[1]] = r.choice(PERCENTS)
            for st in self.ship_types:
                self.types[st]['attrs'].setdefault(tgt, r.choice(DYADIC))
        if self.custom:
            for t in self.ship_types:
                at = self.types[t]['attrs']
                if r.random() < 0.85:
                    at[int(AttrId.mass)] = r.choice([Fraction(1000), Fraction(2048), Fraction(0), Fraction(512)])
                if r.random() < 0.85:
                    at[int(AttrId.max_velocity)] = r.choice([Fraction(100), Fraction(256)])
                if r.random() < 0.7:
                    at[int(AttrId.signature_radius)] = r.choice([Fraction(64), Fraction(100)])
            # propulsion modules
            for t, e in ((3250, EffectId.module_bonus_afterburner), (3251, EffectId.module_bonus_microwarpdrive)):
                attrs = {}
                for a, vals in ((AttrId.speed_factor, [Fraction(100), Fraction(128), Fraction(500)]),
                                (AttrId.speed_boost_factor, [Fraction(1024), Fraction(4096), Fraction(500)]),
                                (AttrId.mass_addition, [Fraction(512), Fraction(1000)]),
                                (AttrId.signature_radius_bonus, [Fraction(100), Fraction(400)])):
                    if r.random() < 0.9:
                        attrs[int(a)] = r.choice(vals)
                effects = [int(e)] + ([int(EffectId.online)] if r.random() < 0.5 else [])
                self.types[t] = dict(group=r.choice(self.groups), category=int(TC.module), default=int(e), attrs=attrs,
                                     effects=effects, skills={}, abilities=[])
                self.prop_types.append(t)
            # ancillary armor repairer; its charge of nanite repair paste
            attrs = {int(AttrId.armor_dmg_amount): r.choice([Fraction(100), Fraction(64)])}
            if r.random() < 0.9:
                attrs[int(AttrId.charged_armor_dmg_mult)] = r.choice([Fraction(3), Fraction(2), Fraction(3, 2)])
            self.types[3260] = dict(group=r.choice(self.groups), category=int(TC.module),
                                    default=int(EffectId.fueled_armor_repair), attrs=attrs,
                                    effects=[int(EffectId.fueled_armor_repair)], skills={}, abilities=[])
            self.aar_types.append(3260)
            self.types[int(TypeId.nanite_repair_paste)] = self.gen_type(r.choice(self.groups), int(TC.charge),
                                                                         allow_effects=('passive',))
            self.module_types = self.module_types + self.prop_types + self.aar_types
            self.charge_types = self.charge_types + [int(TypeId.nanite_repair_paste)]
            # something that changes the inputs of the python modifiers: ship mass / module strength
            some = [e for e in self.effect_ids if self.effects[e]['cat'] in (int(EC.passive), int(EC.online))]
            for e in some[:2]:
                self.effects[e]['mods'].append(dict(
                    filter=int(F.item), extra=None, domain=int(r.choice([D.ship, D.self])),
                    tgt=int(r.choice([AttrId.mass, AttrId.speed_factor, AttrId.charged_armor_dmg_mult,
                                      AttrId.speed_boost_factor])),
                    op=int(r.choice([OP.post_mul, OP.mod_add])), agg=int(AG.stack), key=None,
                    src=r.choice(self.base_attrs)))
        bt = self.types[self.misc_types['booster'][0]]
        for eid in self.side_effect_ids:
            if r.random() < 0.8 and eid not in bt['effects']:
                bt['effects'].append(eid)
        for a in self.base_attrs:
            bt['attrs'].setdefault(a, r.choice([Fraction(1, 4), Fraction(1, 2), Fraction(3, 4)]))
        # a chance of exactly zero is still a chance: the effect stays a side effect that can be switched
        for eid in self.side_effect_ids:
            if r.random() < 0.3:
                bt['attrs'][self.effects[eid]['chance']] = Fraction(0)
        # ... and an effect whose chance attribute has no value on the booster (nothing on the type, no default) is
        # no side effect at all: not listed, not switchable, skipped by the random roll
        if r.random() < 0.25:
            ca = self.effects[self.side_effect_ids[-1]]['chance']
            if self.attrs[ca]['default'] is None:
                bt['attrs'].pop(ca, None)
        ft = self.types[self.misc_types['fighter'][0]]
        for aid in self.ability_ids:
            if r.random() < 0.8:
                ft['abilities'].append(aid)
                eid = int(fighter_ability_map[aid])
                if r.random() < 0.85 and eid not in ft['effects']:
                    ft['effects'].append(eid)
        fa = [int(fighter_ability_map[a]) for a in ft['abilities'] if int(fighter_ability_map[a]) in ft['effects']]
        if fa and r.random() < 0.6:
            ft['default'] = r.choice(fa)

    def gen_buff(self, bid):
        r = self.rng
        flt = r.choice([F.item, F.item, F.domain, F.domain_group, F.domain_skillrq])
        extra = None
        if flt == F.domain_group:
            extra = r.choice(self.groups)
        elif flt == F.domain_skillrq:
            extra = r.choice(self.skill_types)
        return dict(filter=int(flt), extra=extra, tgt=r.choice(self.gen_attrs),
                    op=int(r.choice([OP.post_percent, OP.post_mul, OP.mod_add])),
                    agg=int(r.choice([AG.maximum, AG.minimum, AG.stack])))

    def gen_mods(self, cat, n):
        return [self.gen_mod(cat) for _ in range(n)]

    def gen_mod(self, cat):
        r = self.rng
        tgt = r.choice(self.targets)
        lower = [a for a in self.base_attrs + self.gen_attrs if a < tgt] or self.base_attrs
        src = r.choice(lower + [int(AttrId.skill_level)] * (1 if r.random() < 0.15 else 0))
        flt = r.choice([F.item, F.item, F.domain, F.domain_group, F.domain_skillrq, F.owner_skillrq])
        projected = cat == int(EC.target) and r.random() < 0.8
        if flt == F.item:
            dom = D.target if projected else r.choice([D.self, D.character, D.ship, D.other])
        elif flt == F.owner_skillrq:
            dom = D.character
        else:
            dom = D.target if projected else r.choice([D.self, D.character, D.ship])
        extra = None
        if flt == F.domain_group:
            extra = r.choice(self.groups)
        elif flt in (F.domain_skillrq, F.owner_skillrq):
            extra = r.choice(self.skill_types + [-1])
        op = r.choice(list(OP))
        if tgt in (int(AttrId.cpu), int(AttrId.power)):
            # two-digit rounding is discontinuous: keep the arithmetic on these
            # attributes exact in binary64 (dyadic sources, no division/percent)
            src = r.choice(self.base_attrs)
            op = r.choice([OP.pre_assign, OP.pre_mul, OP.mod_add, OP.mod_sub, OP.post_mul,
                           OP.post_mul_immune, OP.post_assign])
        agg = r.choice([AG.stack] * 4 + [AG.minimum, AG.maximum])
        key = None if agg == AG.stack else r.choice([1, 2])
        if self.malformed and r.random() < 0.3:
            k = r.random()
            if k < 0.3:
                op = 77
            elif k < 0.6:
                flt = 9
            else:
                dom = r.choice([D.other, D.target, 8])
        return dict(filter=int(flt), extra=extra, domain=int(dom), tgt=tgt, op=int(op), agg=int(agg),
                    key=key, src=src)

    def gen_effect(self, eid):
        r = self.rng
        cat = int(r.choice([EC.passive, EC.passive, EC.active, EC.active, EC.target, EC.target, EC.target,
                            EC.online, EC.overload, EC.system]))
        if self.malformed and r.random() < 0.15:
            cat = int(r.choice([EC.area, EC.dungeon]))
        mods = self.gen_mods(cat, r.randint(1, 3) if cat == int(EC.target) else r.randint(0, 3))
        resist = None
        if cat == int(EC.target) and mods and all(m['domain'] == int(D.target) for m in mods) and r.random() < 0.5:
            # a resistance attribute may itself be modified (its changes must be followed)
            # (only one below every attribute the effect modifies: a value resisted by itself, directly or
            # through a chain, is a cyclic universe - not well-formed data)
            low = min(m['tgt'] for m in mods)
            resist = r.choice(self.base_attrs + [a for a in self.gen_attrs[:4] if a < low])
        chance = r.choice(self.base_attrs) if (cat == int(EC.passive) and r.random() < 0.2) else None
        return dict(cat=cat, chance=chance, resist=resist, mods=mods)

    def value_for(self, a):
        """a base value suited to how attribute a is used as a modifier source"""
        r = self.rng
        return r.choice(DYADIC + MULTS + PERCENTS + DIVS)

    def gen_type(self, group, category, allow_effects):
        r = self.rng
        attrs = {}
        for a in self.base_attrs + self.gen_attrs:
            if r.random() < 0.55:
                attrs[a] = self.value_for(a)
        for a in (int(AttrId.cpu), int(AttrId.power)):
            if r.random() < 0.3:
                attrs[a] = r.choice([Fraction(n, 8) for n in (8, 20, 81, 100, 333)])
        effects = []
        kinds = {int(EC.passive): 'passive', int(EC.system): 'passive', int(EC.active): 'active',
                 int(EC.target): 'target', int(EC.online): 'online', int(EC.overload): 'overload'}
        for eid in self.effect_ids:
            k = kinds.get(self.effects[eid]['cat'], 'passive')
            if k in allow_effects and r.random() < 0.35:
                effects.append(eid)
        if 'online' in allow_effects and r.random() < 0.6:
            effects.append(int(EffectId.online))
        if 'buff' in allow_effects and r.random() < 0.35:
            effects.append(int(r.choice(BUFF_EFFECTS)))
            for ida, va in BUFF_ATTRS:
                if r.random() < 0.7:
                    attrs[int(ida)] = Fraction(r.choice(self.buff_ids + [13, 99]))
                    attrs[int(va)] = r.choice(PERCENTS + MULTS)
        if 'turret' in allow_effects and r.random() < 0.25:
            effects.append(int(EffectId.target_attack))
            if r.random() < 0.8:
                attrs[int(AttrId.ammo_loaded)] = Fraction(r.choice(self.charge_types + [9999]))
        if 'target' in allow_effects and r.random() < 0.7:
            tg = [e for e in self.effect_ids if self.effects[e]['cat'] == int(EC.target)]
            if tg:
                e = r.choice(tg)
                if e not in effects:
                    effects.append(e)
        r.shuffle(effects)
        actives = [e for e in effects if self.effects[e]['cat'] in (int(EC.active), int(EC.target))]
        buffs_here = [e for e in effects if e in [int(b) for b in BUFF_EFFECTS]]
        tgs = [e for e in actives if self.effects[e]['cat'] == int(EC.target)]
        if buffs_here and r.random() < 0.7:
            default = buffs_here[0]
        elif tgs and r.random() < 0.6:
            default = r.choice(tgs)
        else:
            default = r.choice(actives) if actives and r.random() < 0.85 else None
        skills = {}
        for s in self.skill_types:
            if r.random() < 0.3:
                skills[s] = r.randint(1, 5)
        return dict(group=group, category=category, default=default, attrs=attrs, effects=effects, skills=skills,
                    abilities=[])

    def variant(self, rng):
        """a second universe sharing ids with this one, with dropped and changed entries"""
        import copy
        u = copy.copy(self)
        u.attrs = copy.deepcopy(self.attrs)
        u.effects = copy.deepcopy(self.effects)
        u.types = copy.deepcopy(self.types)
        u.buffs = copy.deepcopy(self.buffs)
        for t in list(u.types):
            k = rng.random()
            if k < 0.2 and t != int(TypeId.character_static):
                del u.types[t]
            elif k < 0.6:
                ty = u.types[t]
                for a in list(ty['attrs']):
                    if rng.random() < 0.3:
                        ty['attrs'][a] = rng.choice(DYADIC + MULTS)
                    elif rng.random() < 0.1:
                        del ty['attrs'][a]
                if ty['effects'] and rng.random() < 0.4:
                    ty['effects'] = ty['effects'][1:]
                    if ty['default'] not in ty['effects']:
                        ty['default'] = None
        for a in list(u.attrs):
            if a in self.gen_attrs and rng.random() < 0.1:
                del u.attrs[a]
        return u

    # ------------------------------------------------------------------
    def lines(self, src):
        out = []
        for a, m in self.attrs.items():
            out.append('u_attr %d %d %s %d %d %s' % (src, a, '-' if m['default'] is None else q(m['default']),
                                                     m['hig'], m['stackable'], o(m['max'])))
        for e, ef in self.effects.items():
            out.append('u_effect %d %d %d %s %s %d %s' % (
                src, e, ef['cat'], o(ef['chance']), o(ef['resist']),
                1 if e in [int(b) for b in (EffectId.module_bonus_warfare_link_armor,
                                            EffectId.module_bonus_warfare_link_info,
                                            EffectId.module_bonus_warfare_link_mining,
                                            EffectId.module_bonus_warfare_link_shield,
                                            EffectId.module_bonus_warfare_link_skirmish)] else 0,
                o(AUTOCHARGE_EFFECT.get(e))))
            for m in ef['mods']:
                out.append('u_mod %d %d %d %s %d %d %d %d %s %d' % (
                    src, e, m['filter'], o(m['extra']), m['domain'], m['tgt'], m['op'], m['agg'],
                    o(m['key']), m['src']))
        for t, ty in self.types.items():
            out.append('u_type %d %d %s %s %s' % (src, t, o(ty['group']), o(ty['category']), o(ty['default'])))
            for a, v in ty['attrs'].items():
                out.append('u_tattr %d %d %d %s' % (src, t, a, q(v)))
            for e in ty['effects']:
                out.append('u_teffect %d %d %d' % (src, t, e))
            for s, l in ty['skills'].items():
                out.append('u_tskill %d %d %d %d' % (src, t, s, l))
            for aid in ty.get('abilities', []):
                out.append('u_tability %d %d %d' % (src, t, aid))
        if getattr(self, 'custom', False):
            # what eos's customisations add to these effects / types (the model is told; eos does it itself)
            ab, mwd, aar = (int(EffectId.module_bonus_afterburner), int(EffectId.module_bonus_microwarpdrive),
                            int(EffectId.fueled_armor_repair))
            for e in (ab, mwd):
                if e in self.effects:
                    out.append('m_pymod %d %d 1 %d %d %d' % (src, e, int(F.item), int(D.ship), int(AttrId.max_velocity)))
                    out.append('m_mod %d %d %d - %d %d %d %d - %d' % (
                        src, e, int(F.item), int(D.ship), int(AttrId.mass), int(OP.mod_add), int(AG.stack),
                        int(AttrId.mass_addition)))
            if mwd in self.effects:
                out.append('m_mod %d %d %d - %d %d %d %d - %d' % (
                    src, mwd, int(F.item), int(D.ship), int(AttrId.signature_radius), int(OP.post_percent),
                    int(AG.stack), int(AttrId.signature_radius_bonus)))
            if any(aar in ty['effects'] for ty in self.types.values()):
                out.append('m_effect %d -2 %d' % (src, int(EC.passive)))
                out.append('m_pymod %d -2 2 %d %d %d' % (src, int(F.item), int(D.self), int(AttrId.armor_dmg_amount)))
                for t, ty in self.types.items():
                    if aar in ty['effects']:
                        out.append('m_teffect %d %d -2' % (src, t))
        for b, tpls in self.buffs.items():
            for tp in tpls:
                out.append('u_buff %d %d %d %s %d %d %d' % (src, b, tp['filter'], o(tp['extra']), tp['tgt'],
                                                             tp['op'], tp['agg']))
        out.append('commit %d' % src)
        return out

    def all_attr_ids(self):
        return sorted(self.attrs)


# ----------------------------------------------------------------------
# histories
# ----------------------------------------------------------------------

CLS_CONTAINER = {
    'ship': ('slot', 'ship'), 'stance': ('slot', 'stance'), 'beacon': ('slot', 'beacon'),
    'skill': ('set', 'skills'), 'implant': ('set', 'implants'), 'booster': ('set', 'boosters'),
    'subsystem': ('set', 'subsystems'), 'rig': ('set', 'rigs'), 'drone': ('set', 'drones'),
    'fighter': ('set', 'fighters'), 'modhigh': ('rack', 'high'), 'modmid': ('rack', 'mid'),
    'modlow': ('rack', 'low'),
}
STATES = [int(s) for s in State]
MODES = [int(m) for m in EffectMode]


class World:
    """Light tracking of what the history did so far, only to bias generation
    towards valid operations. It is not an oracle."""

    def __init__(self, rng, u, nfits, nss):
        self.rng = rng
        self.u = u
        self.lines = []
        self.items = {}     # id -> class
        self.where = {}     # id -> None | (kind, fit, name)
        self.types_of = {}
        self.fits = list(range(1, nfits + 1))
        self.sss = list(range(1, nss + 1))
        self.fit_ss = {f: None for f in self.fits}
        self.fit_fleet = {f: None for f in self.fits}
        self.racklen = {}
        self.charge_of = {}
        self.next = 10

    def emit(self, s):
        self.lines.append(s)

    def new_item(self, cls, tid, state=1, level=0):
        i = self.next
        self.next += 1
        self.items[i] = cls
        self.where[i] = None
        self.types_of[i] = tid
        self.emit('new %d %s %d %d %d' % (i, cls, tid, state, level))
        return i

    def setup(self):
        r = self.rng
        u = self.u
        for s in self.sss:
            self.emit('solsys %d' % s)
        for f in self.fits:
            self.emit('fit %d %d' % (f, f))     # character item id = fit id
            self.items[f] = 'character'
            self.where[f] = ('slot', f, 'character')
        pool = []
        for _ in range(len(self.fits) + 1):
            pool.append(('ship', r.choice(u.ship_types)))
        for _ in range(2 + 3 * len(self.fits)):
            pool.append((r.choice(['modhigh', 'modmid', 'modlow']), r.choice(u.module_types)))
        for _ in range(1 + len(self.fits)):
            pool.append(('charge', r.choice(u.charge_types)))
            pool.append(('drone', r.choice(u.drone_types)))
            pool.append(('skill', r.choice(u.skill_types)))
            pool.append(('implant', r.choice(u.implant_types)))
        for cls in ('rig', 'subsystem', 'booster', 'stance', 'beacon', 'fighter'):
            if r.random() < 0.6:
                pool.append((cls, u.misc_types[cls][0]))
        pool.append(('skill', r.choice(u.skill_types)))
        for cls, tid in pool:
            st = r.choice([1, 2, 3, 3, 3, 4]) if cls in ('modhigh', 'modmid', 'modlow', 'drone', 'fighter') else 1
            self.new_item(cls, tid, st, r.randint(0, 5))

    # -- op generators ---------------------------------------------------
    def free_items(self, cls=None):
        return [i for i, w in self.where.items() if w is None and (cls is None or self.items[i] == cls)]

    def placed(self, cls=None):
        return [i for i, w in self.where.items() if w is not None and w[0] != 'slot:character'
                and (cls is None or self.items[i] == cls) and self.items[i] != 'character']

    def op_place(self):
        r = self.rng
        free = [i for i in self.free_items() if self.items[i] in CLS_CONTAINER]
        if not free:
            return self.op_remove()
        i = r.choice(free)
        cls = self.items[i]
        kind, name = CLS_CONTAINER[cls]
        f = r.choice(self.fits)
        if kind == 'slot':
            self.emit('slot %d %s %d' % (f, name, i))
            for j, w in list(self.where.items()):
                if w == ('slot', f, name):
                    self.where[j] = None
            self.where[i] = ('slot', f, name)
        elif kind == 'set':
            self.emit('sadd %d %s %d' % (f, name, i))
            self.where[i] = ('set', f, name)     # may fail for duplicate skill types; tracking is approximate
        else:
            n = self.racklen.get((f, name), 0)
            k = r.random()
            if k < 0.4:
                self.emit('rappend %d %s %d' % (f, name, i))
            elif k < 0.6:
                self.emit('requip %d %s %d' % (f, name, i))
            elif k < 0.8:
                self.emit('rplace %d %s %d %d' % (f, name, r.randint(0, n + 2), i))
            else:
                self.emit('rinsert %d %s %d %d' % (f, name, r.randint(-1, n + 1), i))
            self.racklen[(f, name)] = n + 1
            self.where[i] = ('rack', f, name)

    def op_remove(self):
        r = self.rng
        cand = [i for i in self.placed() if self.where[i][0] in ('slot', 'set', 'rack')]
        if not cand:
            return self.op_place()
        i = r.choice(cand)
        kind, f, name = self.where[i]
        if kind == 'slot':
            self.emit('slot %d %s -' % (f, name))
        elif kind == 'set':
            if name == 'skills' and r.random() < 0.3:
                self.emit('skilldel %d %d' % (f, self.types_of[i]))
            else:
                self.emit('srm %d %s %d' % (f, name, i))
        else:
            k = r.random()
            if k < 0.6:
                self.emit('rremove %d %s item %d' % (f, name, i))
            elif k < 0.9:
                self.emit('rfree %d %s item %d' % (f, name, i))
            else:
                self.emit('rremove %d %s idx %d' % (f, name, r.randint(-1, 2)))
                return          # unknown which item left; tracking stays approximate
        self.where[i] = None

    def op_clear(self):
        r = self.rng
        f = r.choice(self.fits)
        if r.random() < 0.5:
            name = r.choice(['high', 'mid', 'low'])
            self.emit('rclear %d %s' % (f, name))
            for j, w in list(self.where.items()):
                if w == ('rack', f, name):
                    self.where[j] = None
            self.racklen[(f, name)] = 0
        else:
            name = r.choice(['skills', 'implants', 'drones', 'rigs', 'boosters', 'subsystems', 'fighters'])
            self.emit('sclear %d %s' % (f, name))
            for j, w in list(self.where.items()):
                if w == ('set', f, name):
                    self.where[j] = None

    def modules(self):
        return [i for i, c in self.items.items() if c in ('modhigh', 'modmid', 'modlow')]

    def op_state(self):
        r = self.rng
        cand = [i for i, c in self.items.items() if c in ('modhigh', 'modmid', 'modlow', 'drone', 'fighter')]
        if cand:
            self.emit('state %d %d' % (r.choice(cand), r.choice([1, 2, 3, 3, 4])))

    def op_charge(self):
        r = self.rng
        mods = self.modules()
        if not mods:
            return
        m = r.choice(mods)
        charges = [i for i, c in self.items.items() if c == 'charge']
        if r.random() < 0.3 or not charges:
            self.emit('charge %d -' % m)
        else:
            c = r.choice(charges)
            self.emit('charge %d %d' % (m, c))

    def op_target(self):
        r = self.rng
        cand = [i for i, c in self.items.items() if c in ('modhigh', 'modmid', 'modlow', 'drone')]
        if not cand:
            return
        i = r.choice(cand)
        tg = [j for j, c in self.items.items() if c in ('ship', 'drone')]
        placed_ships = [j for j in tg if self.items[j] == 'ship' and self.where[j] is not None]
        if placed_ships and r.random() < 0.7:
            tg = placed_ships
        if r.random() < 0.2 or not tg:
            self.emit('target %d -' % i)
        else:
            self.emit('target %d %d' % (i, r.choice(tg)))

    def op_mode(self):
        r = self.rng
        i = r.choice(list(self.items))
        tid = self.types_of.get(i)
        effs = self.u.types.get(tid, {}).get('effects') or list(self.u.effects)
        self.emit('mode %d %d %d' % (i, r.choice(effs), r.choice(MODES)))

    def op_level(self):
        r = self.rng
        sk = [i for i, c in self.items.items() if c == 'skill']
        if sk:
            self.emit('level %d %d' % (r.choice(sk), r.randint(0, 5)))

    def op_fleet(self):
        r = self.rng
        f = r.choice(self.fits)
        fl = r.choice([1, 2])
        k = r.random()
        if self.fit_fleet[f] is None and k < 0.7:
            self.emit('fladd %d %d' % (fl, f))
            self.fit_fleet[f] = fl
        elif self.fit_fleet[f] is not None and k < 0.15:
            # removal from a fleet the fit is not in (it is in the other one): KeyError, nothing changes
            self.emit('flrm %d %d' % (3 - self.fit_fleet[f], f))
        elif self.fit_fleet[f] is not None and k < 0.8:
            self.emit('flrm %d %d' % (self.fit_fleet[f], f))
            self.fit_fleet[f] = None
        else:
            self.emit('flclear %d' % fl)
            for g in self.fits:
                if self.fit_fleet[g] == fl:
                    self.fit_fleet[g] = None

    def op_solsys(self):
        r = self.rng
        f = r.choice(self.fits)
        if self.fit_ss[f] is None:
            s = r.choice(self.sss)
            self.emit('ssadd %d %d' % (s, f))
            self.fit_ss[f] = s
        elif r.random() < 0.85:
            self.emit('ssrm %d %d' % (self.fit_ss[f], f))
            self.fit_ss[f] = None
        else:
            s = self.fit_ss[f]
            self.emit('ssclear %d' % s)
            for g in self.fits:
                if self.fit_ss[g] == s:
                    self.fit_ss[g] = None

    def op_source(self, nsrc):
        r = self.rng
        s = r.choice(self.sss)
        if r.random() < 0.1:
            self.emit('source %d ?%d' % (s, r.randint(1, 9)))      # an alias nobody registered
            return
        self.emit('source %d %s' % (s, r.choice(['-'] + [str(k) for k in range(1, nsrc + 1)] * 2)))

    def op_read(self):
        r = self.rng
        i = r.choice(list(self.items))
        a = r.choice(self.u.all_attr_ids())
        self.emit('%s %d %d' % (r.choice(['read', 'get', 'get']), i, a))

    def op_switch(self):
        r = self.rng
        u = self.u
        boosters = [i for i, c in self.items.items() if c == 'booster']
        fighters = [i for i, c in self.items.items() if c == 'fighter']
        k = r.random()
        if boosters and k < 0.45:
            i = r.choice(boosters)
            kk = r.random()
            if kk < 0.5:
                self.emit('setside %d %d %d' % (i, r.choice(u.side_effect_ids + [2000]), r.randint(0, 1)))
            elif kk < 0.75:
                self.emit('randomize %d %s' % (i, ' '.join(q(Fraction(r.randint(0, 8), 8)) for _ in range(16))))
            else:
                self.emit('sideeffects %d' % i)
        elif fighters:
            i = r.choice(fighters)
            if r.random() < 0.7:
                self.emit('setability %d %d %d' % (i, r.choice(u.ability_ids + [int(FighterAbilityId.kamikaze)]),
                                                   r.randint(0, 1)))
            else:
                self.emit('abilities %d' % i)

    def op_bad(self):
        """deliberately failing calls"""
        r = self.rng
        f = r.choice(self.fits)
        k = r.randint(0, 9)
        placed = self.placed()
        anyi = r.choice(list(self.items))
        if k == 0:      # wrong class into a set / rack / slot
            self.emit(r.choice(['sadd %d drones %d', 'rappend %d high %d', 'slot %d ship %d',
                                'sadd %d skills %d', 'requip %d low %d']) % (f, anyi))
        elif k == 1 and placed:   # already assigned item into another place of its class
            i = r.choice(placed)
            cls = self.items[i]
            if cls in CLS_CONTAINER:
                kind, name = CLS_CONTAINER[cls]
                g = r.choice(self.fits)
                if kind == 'slot':
                    self.emit('slot %d %s %d' % (g, name, i))
                    if self.where[i] != ('slot', g, name):
                        pass
                elif kind == 'set':
                    self.emit('sadd %d %s %d' % (g, name, i))
                else:
                    n = self.racklen.get((g, name), 0)
                    self.emit(r.choice(['rappend %d %s %%d' % (g, name),
                                        'requip %d %s %%d' % (g, name),
                                        'rplace %d %s %d %%d' % (g, name, r.randint(0, n + 2)),
                                        'rinsert %d %s %d %%d' % (g, name, r.randint(-3, n + 2))]) % i)
        elif k == 2:    # taken slot / out of range
            name = r.choice(['high', 'mid', 'low'])
            free = self.free_items({'high': 'modhigh', 'mid': 'modmid', 'low': 'modlow'}[name])
            if free:
                self.emit('rplace %d %s %d %d' % (f, name, r.randint(-4, 1), free[0]))
        elif k == 3:    # absent item removal
            self.emit(r.choice(['srm %d drones %d', 'rremove %d high item %d', 'rfree %d mid item %d',
                                'srm %d skills %d']) % (f, anyi))
        elif k == 4:
            self.emit('rremove %d %s idx %d' % (f, r.choice(['high', 'mid', 'low']), r.choice([-7, 7, 50])))
        elif k == 5:
            self.emit('skilldel %d %d' % (f, r.choice(self.u.skill_types + [4242])))
        elif k == 6:
            self.emit('ssadd %d %d' % (r.choice(self.sss), f))
        elif k == 7:
            self.emit('fladd %d %d' % (r.choice([1, 2]), f))
        elif k == 8:
            self.emit('flrm %d %d' % (r.choice([1, 2]), f))
        else:
            self.emit('rinsert %d %s %d -' % (f, r.choice(['high', 'mid', 'low']), r.randint(-2, 4)))

    PROFILES = {
        'default': dict(switch=5, place=22, remove=10, clear=2, state=12, charge=7, target=9, mode=6, level=4, fleet=6,
                        solsys=4, source=4, read=10, bad=10),
        'bad': dict(switch=2, place=14, remove=8, clear=2, state=4, charge=6, target=3, mode=2, level=1, fleet=4,
                    solsys=3, source=2, read=6, bad=45),
        'containers': dict(switch=2, place=34, remove=22, clear=5, state=2, charge=10, target=1, mode=1, level=0, fleet=1,
                           solsys=2, source=1, read=3, bad=18),
        'state': dict(switch=14, place=12, remove=5, clear=1, state=30, charge=8, target=4, mode=25, level=2, fleet=1,
                      solsys=3, source=3, read=4, bad=2),
        'source': dict(switch=2, place=14, remove=6, clear=1, state=8, charge=6, target=6, mode=5, level=3, fleet=3,
                       solsys=10, source=22, read=12, bad=4),
        'projection': dict(switch=2, place=16, remove=10, clear=1, state=12, charge=2, target=22, mode=4, level=3, fleet=14,
                           solsys=4, source=3, read=8, bad=1),
    }

    def step(self, nsrc, profile='default'):
        r = self.rng
        w = self.PROFILES[profile]
        table = [(self.op_place, w['place']), (self.op_remove, w['remove']), (self.op_clear, w['clear']),
                 (self.op_state, w['state']), (self.op_charge, w['charge']), (self.op_target, w['target']),
                 (self.op_mode, w['mode']), (self.op_level, w['level']), (self.op_fleet, w['fleet']),
                 (self.op_solsys, w['solsys']), (lambda: self.op_source(nsrc), w['source']),
                 (self.op_read, w['read']), (self.op_bad, w['bad']), (self.op_switch, w['switch'])]
        tot = sum(x for _, x in table)
        x = r.uniform(0, tot)
        for fn, wt in table:
            x -= wt
            if x <= 0:
                fn()
                return
        table[0][0]()


def gen_history(rng, nops=None, malformed=False, nfits=None, two_sources=True, profile='default'):
    """returns (universe lines, list of op lines, meta)"""
    u1 = Universe(rng, malformed=malformed)
    ulines = u1.lines(1)
    nsrc = 1
    if two_sources:
        u2 = u1.variant(rng)
        ulines += u2.lines(2)
        nsrc = 2
    nfits = nfits or rng.choice([1, 2, 2, 3])
    nss = rng.choice([1, 1, 2])
    w = World(rng, u1, nfits, nss)
    w.setup()
    # common beginning: put fits into solar systems with a source, most of the time
    for s in w.sss:
        if rng.random() < 0.85:
            w.emit('source %d 1' % s)
    for f in w.fits:
        if rng.random() < 0.85:
            s = rng.choice(w.sss)
            w.emit('ssadd %d %d' % (s, f))
            w.fit_ss[f] = s
    # build up most of the fits first
    for _ in range(int(0.7 * len(w.items))):
        w.op_place()
    for _ in range(rng.randint(0, 4)):
        w.op_target()
    for _ in range(rng.randint(0, 2)):
        w.op_fleet()
    setup_len = len(w.lines)
    nops = nops or rng.randint(10, 45)
    for _ in range(nops):
        w.step(nsrc, profile)
    meta = dict(items=sorted(w.items), fits=w.fits, sss=w.sss, attrs=u1.all_attr_ids(), setup_len=setup_len,
                classes=dict(w.items))
    return ulines, w.lines, meta
