"""C10 — valid use never produces an internal error."""
import engcheck
import eng_gen
import eng_oracle

PROP_FILE = 'props/C10.v'
RULE = ('histories as in C01 over the whole modelled public surface (containers, single slots, charges, states, '
        'targets, effect modes, skill levels, fleets, solar systems, sources, attribute reads), incl. failing calls; '
        'every call must end in success or one of the exceptions documented for that call, on the implementation and '
        'in the model; an undocumented exception type is an internal error; per-call counts in operation_histogram; '
        'non-trivial = at least one AttrsValueChanged or EffectApplied delivered')


def gen(rng):
    return eng_gen.gen_history(rng, profile=rng.choice(['default', 'default', 'source', 'projection', 'bad']))


def run(rep):
    engcheck.run(rep, 'C10', PROP_FILE, gen, 150, 8000, ['some', 'end', 'all'], eng_oracle.oracle_c10, RULE, direct=0,
                 internal_is_violation=True)


def replay(path):
    return engcheck.replay(path, eng_oracle.oracle_c10)
