"""C10 — valid use never produces an internal error."""
import engcheck
import eng_gen
import eng_oracle

PROP_FILE = 'props/C10.v'
RULE = ('histories as in C01 over the whole modelled public surface (containers, single slots, charges, states, '
        'targets, effect modes, skill levels, fleets, solar systems, sources, attribute reads), incl. failing calls; '
        'every call must end in success or one of the exceptions documented for that call, on the implementation and '
        'in the model; an undocumented exception type is an internal error; per-call counts in operation_histogram; '
        'non-trivial = at least one AttrsValueChanged or EffectApplied delivered')


def gen(rng):
    return eng_gen.gen_history(rng, profile=rng.choice(['default', 'default', 'source', 'projection', 'bad']))


def stats_internal_error(script):
    """the statistics surface (fit.stats.*, item.get_volley / get_dps / hp / resists / ehp) on the histories of
    C04's generator: a getter that exists on the object it is called on never raises (no exception is
    documented for any of them); ZeroDivisionError marks data outside 'well-formed'. -> None or a description"""
    import c04_impl
    import eng_impl
    eng_impl.set_penalty_base(0.5)
    impl = c04_impl.StatImpl()
    n = 0
    for k, (line, kind) in enumerate(script):
        out = impl.run(line)
        if kind != 'obs' or not line.startswith('st '):
            continue
        n += 1
        if not out.startswith('exn ') or 'ZeroDivisionError' in out:
            continue
        if out[4:] in ('KeyError', 'IndexError'):
            continue              # documented for absent things (an attribute the data does not define)
        t = line.split()
        if 'ValueError' in out:
            # DmgProfile / ResistProfile refuse values outside their documented range (a resonance above 1
            # or below 0 in the data): documented ValueError, data outside 'well-formed'
            try:
                impl.stat_cmd(t)
                msg = ''
            except Exception as e:  # noqa
                msg = str(e)
            if 'must be within range' in msg or 'must be non-negative' in msg or 'positive' in msg:
                continue
        if t[1].startswith('i'):
            obj = impl.items.get(int(t[2]))
            need = 'hp' if t[1] in ('ihp', 'iresists', 'iehp', 'iwcehp') else 'get_volley'
            if obj is None or not hasattr(type(obj), need):
                continue          # the getter does not exist on this class: not a valid call
        return dict(index=k, fails='%r raised %s' % (line, out[4:]), reads=n)
    return dict(index=None, fails=None, reads=n)


def shrink_stats(script, budget=400):
    """greedy shrinking of a failing statistics history: drop blocks of lines (never the last one) while
    the same read still fails the same way"""
    want = stats_internal_error(script)['fails']
    if not want:
        return script
    cur = list(script)
    size = max(1, len(cur) // 2)
    tries = 0
    while size >= 1 and tries < budget:
        k = 0
        changed = False
        while k < len(cur) - 1 and tries < budget:
            cand = cur[:k] + cur[min(len(cur) - 1, k + size):]
            tries += 1
            try:
                r = stats_internal_error(cand)
            except Exception:  # noqa
                r = {'fails': None}
            if r['fails'] == want and r['index'] == len(cand) - 1:
                cur = cand
                changed = True
            else:
                k += size
        if not changed or size == 1:
            size //= 2
    return cur


def run(rep):
    engcheck.run(rep, 'C10', PROP_FILE, gen, 150, 8000, ['some', 'end', 'all'], eng_oracle.oracle_c10, RULE, direct=0,
                 internal_is_violation=True)
    if rep.violations:
        return
    import json
    import os
    import random
    import c04_gen
    import common
    # witnesses of the findings about the statistics surface: a fixed one must hold now
    for kf in common.known_findings('C10'):
        if not kf.get('witness', '').startswith('corpus/stats/'):
            continue
        sc = [tuple(x) for x in json.load(open(os.path.join(common.VERIF, kf['witness'])))['case']['script']]
        r = stats_internal_error(sc)
        if r['fails']:
            if kf['status'] == 'open':
                rep.known_finding(kf['line'])
            else:
                rep.violation({'kind': 'stats_history', 'script': sc, 'fails': r['fails'],
                               'note': 'witness of %s fails again' % kf['id']})
                return
    rng = random.Random(rep.seed + 77)
    n = 60 if rep.tier == 'quick' else 2000
    reads = 0
    for h in range(n):
        ul, script, meta = c04_gen.gen_history(rng)
        full = script
        r = stats_internal_error(full)
        reads += r['reads']
        if r['fails']:
            rep.violation({'kind': 'stats_history', 'script': shrink_stats(full[:r['index'] + 1]),
                           'fails': r['fails']})
            return
    rep.cov['stat_reads_checked_for_internal_errors'] = reads
    rep.cov['stat_histories'] = n


def replay(path):
    import json
    r = json.load(open(path))
    if r.get('kind') == 'stats_history':
        res = stats_internal_error([tuple(x) for x in r['script']])
        print('oracle:', res['fails'] or 'property holds on this input')
        return 1 if res['fails'] else 0
    return engcheck.replay(path, eng_oracle.oracle_c10)
