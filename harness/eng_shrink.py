"""Delta-debugging of engine scripts: keep the universe, minimise the op/obs
lines while model and implementation still disagree (or still hit an internal
error)."""
import common
import eng_impl
import eng_run


def first_problem(exe, pens, ulines, lines, want_internal=False):
    """index and record of the first disagreement (or internal error)"""
    script = [(l, 'op') for l in ulines + lines]
    res = eng_run.run_histories(exe, [script], pens, eng_impl.Impl)
    if res.disagreements:
        d = res.disagreements[0]
        return d
    if want_internal and res.internal:
        return res.internal[0]
    return None


def shrink(exe, pens, ulines, lines, want_internal=False, budget=400):
    lines = list(lines)
    d = first_problem(exe, pens, ulines, lines, want_internal)
    if d is None:
        return lines, None
    lines = lines[:d['index'] - len(ulines) + 1]
    n = 2
    runs = 0
    while len(lines) >= 2 and runs < budget:
        chunk = max(1, len(lines) // n)
        removed = False
        k = 0
        while k < len(lines) - 1 and runs < budget:       # never remove the last (failing) line
            hi = min(k + chunk, len(lines) - 1)
            keep = [l for l in lines[k:hi] if l.startswith(('new ', 'fit ', 'solsys '))]
            if len(keep) == hi - k:
                k += chunk
                continue
            cand = lines[:k] + keep + lines[hi:]
            runs += 1
            dd = first_problem(exe, pens, ulines, cand, want_internal)
            if dd is not None:
                cut = dd['index'] - len(ulines) + 1
                lines = cand[:cut]
                d = dd
                removed = True
                k += len(keep)
            else:
                k += chunk
        if not removed:
            if chunk == 1:
                break
            n = min(n * 2, len(lines))
    return lines, d


def shrink_universe(exe, pens, ulines, lines, want_internal=False, budget=300):
    """drop universe lines (modifiers, type attrs/effects, whole entries) that are not needed"""
    ul = list(ulines)
    runs = 0
    k = 0
    while k < len(ul) and runs < budget:
        if ul[k].startswith('commit'):
            k += 1
            continue
        cand = ul[:k] + ul[k + 1:]
        runs += 1
        try:
            dd = first_problem(exe, pens, cand, lines, want_internal)
        except Exception:
            dd = None
        if dd is not None and dd['index'] - len(cand) + 1 == len(lines):
            ul = cand
        else:
            k += 1
    return ul
