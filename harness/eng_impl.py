"""Executes engine scripts (the line format of ocaml/engine_driver.ml) on the
real eos through its public API, printing the same canonical result lines."""
import logging
import os
from fractions import Fraction

logging.disable(logging.CRITICAL)

import eos
import eos.calculator.map as cmap
from eos import (Booster, Character, Charge, Drone, EffectBeacon, FighterSquad,
                 Fit, Fleet, Implant, ModuleHigh, ModuleLow, ModuleMid, Rig,
                 Ship, Skill, SolarSystem, Stance, Subsystem)
from eos.eve_obj.buff_template import WarfareBuffTemplate
from eos.eve_obj.modifier import DogmaModifier
from eos.item.charge import Autocharge
from eos.item_container import SlotTakenError
from eos.item.exception import NoSuchAbilityError, NoSuchSideEffectError
from eos.source.exception import UnknownSourceError
from eos.eve_obj.type import AbilityData
import eos.item.booster as booster_mod
import math
from eos.const.eve import EffectCategoryId, EffectId
from eos.source import Source

from eosenv import MemCacheHandler, parse_q

CLASSES = {
    'ship': Ship, 'character': Character, 'stance': Stance, 'beacon': EffectBeacon,
    'skill': Skill, 'implant': Implant, 'booster': Booster, 'subsystem': Subsystem,
    'modhigh': ModuleHigh, 'modmid': ModuleMid, 'modlow': ModuleLow, 'rig': Rig,
    'drone': Drone, 'fighter': FighterSquad, 'charge': Charge, 'autocharge': Autocharge,
}
SLOT_ATTR = {'ship': 'ship', 'character': 'character', 'stance': 'stance', 'beacon': 'effect_beacon'}

DOCUMENTED = (TypeError, ValueError, KeyError, IndexError, SlotTakenError, NoSuchAbilityError, NoSuchSideEffectError,
              UnknownSourceError)

ORIG_PENALTY_BASE = cmap.PENALTY_BASE

# documented exceptions per call (docstrings of the container / setter methods)
ALLOWED = {
    'slot': ('TypeError', 'ValueError'), 'charge': ('TypeError', 'ValueError'),
    'sadd': ('TypeError', 'ValueError'), 'srm': ('KeyError',), 'skilldel': ('KeyError',),
    'rappend': ('TypeError', 'ValueError'), 'rinsert': ('TypeError', 'ValueError', 'IndexError'),
    'rplace': ('TypeError', 'ValueError', 'SlotTakenError', 'IndexError'),
    'requip': ('TypeError', 'ValueError'), 'rremove': ('ValueError', 'IndexError'),
    'rfree': ('ValueError', 'IndexError'),
    'fladd': ('ValueError',), 'flrm': ('KeyError',), 'ssadd': ('ValueError',), 'ssrm': ('KeyError',),
    'read': ('KeyError',), 'setside': ('NoSuchSideEffectError',), 'setability': ('NoSuchAbilityError',),
    'source': ('UnknownSourceError',),
}


def num(x):
    """float/int value used when building eos objects from a rational token"""
    f = parse_q(x)
    if f.denominator == 1:
        return int(f) if abs(f) < 2 ** 53 and False else float(f)
    return float(f)


def qout(v):
    f = Fraction(v)
    n, d = f.numerator, f.denominator
    return ('-' if n < 0 else '') + bin(abs(n))[2:] + '/' + bin(d)[2:] if n else '0/1'


def opt(s, conv=int):
    return None if s == '-' else conv(s)


class Impl:
    def __init__(self):
        self.items = {}
        self.fits = {}
        self.sss = {}
        self.fleets = {}
        self.handlers = {}
        self.sources = {}
        self.pending = {}
        self.ids = {}

    # -- helpers ----------------------------------------------------------
    def iid(self, obj):
        if obj is None:
            return '-'
        i = self.ids.get(id(obj))
        return str(i) if i is not None else '?'

    def reg(self, i, obj):
        self.items[i] = obj
        self.ids[id(obj)] = i

    def fid(self, fit):
        for k, v in self.fits.items():
            if v is fit:
                return str(k)
        return '-' if fit is None else '?'

    def ch(self, src):
        if src not in self.handlers:
            self.handlers[src] = MemCacheHandler()
            self.pending[src] = {'effects': {}, 'types': {}}
        return self.handlers[src]

    def rack(self, f, k):
        return getattr(self.fits[f].modules, k)

    def setc(self, f, k):
        return getattr(self.fits[f], k)

    # -- one command ------------------------------------------------------
    def run(self, line):
        t = line.split()
        try:
            return self.handle(t)
        except DOCUMENTED as e:
            name = type(e).__name__
            if type(e) not in DOCUMENTED:
                return 'exn Internal:' + name
            if name not in ALLOWED.get(t[0], ()):
                return 'exn Internal:' + name      # not documented for this call
            return 'exn ' + name
        except Exception as e:  # noqa: undocumented failure
            return 'exn Internal:' + type(e).__name__

    def handle(self, t):
        c = t[0]
        if c == 'pen':
            return 'ok'
        if c == 'counters':
            return 'counters'
        if c == 'reset':
            self.__init__()
            return 'ok'
        if c.startswith('m_'):
            return 'ok'        # what eos's own customisations add: the model is told, eos does it itself
        if c == 'u_attr':
            _, src, aid, d, hig, st, mx = t
            self.ch(int(src)).mkattr(int(aid), default_value=opt(d, num), high_is_good=hig == '1',
                                     stackable=st == '1', max_attr_id=opt(mx))
            return 'ok'
        if c == 'u_effect':
            _, src, eid, cat, chance, resist, buff, auto = t
            self.ch(int(src))
            self.pending[int(src)]['effects'][int(eid)] = dict(
                category_id=int(cat), fitting_usage_chance_attr_id=opt(chance),
                resist_attr_id=opt(resist), mods=[])
            return 'ok'
        if c == 'u_mod':
            _, src, eid, flt, extra, dom, tgt, op, agg, key, srca = t
            self.pending[int(src)]['effects'][int(eid)]['mods'].append(DogmaModifier(
                affectee_filter=int(flt), affectee_filter_extra_arg=opt(extra), affectee_domain=int(dom),
                affectee_attr_id=int(tgt), operator=int(op), aggregate_mode=int(agg),
                aggregate_key=opt(key), affector_attr_id=int(srca)))
            return 'ok'
        if c == 'u_type':
            _, src, tid, grp, cat, dflt = t
            self.ch(int(src))
            self.pending[int(src)]['types'][int(tid)] = dict(
                group_id=opt(grp), category_id=opt(cat), default=opt(dflt), attrs={}, effects=[], skills={},
                abilities={})
            return 'ok'
        if c == 'u_tattr':
            _, src, tid, aid, v = t
            self.pending[int(src)]['types'][int(tid)]['attrs'][int(aid)] = num(v)
            return 'ok'
        if c == 'u_teffect':
            _, src, tid, eid = t
            self.pending[int(src)]['types'][int(tid)]['effects'].append(int(eid))
            return 'ok'
        if c == 'u_tskill':
            _, src, tid, sk, lvl = t
            self.pending[int(src)]['types'][int(tid)]['skills'][int(sk)] = int(lvl)
            return 'ok'
        if c == 'u_tability':
            _, src, tid, aid = t
            self.pending[int(src)]['types'][int(tid)]['abilities'][int(aid)] = AbilityData(0, math.inf)
            return 'ok'
        if c == 'u_buff':
            _, src, bid, flt, extra, tgt, op, agg = t
            self.ch(int(src)).buffs.setdefault(int(bid), []).append(WarfareBuffTemplate(
                buff_id=int(bid), affectee_filter=int(flt), affectee_filter_extra_arg=opt(extra),
                affectee_attr_id=int(tgt), operator=int(op), aggregate_mode=int(agg)))
            return 'ok'
        if c == 'commit':
            src = int(t[1])
            ch = self.ch(src)
            p = self.pending[src]
            effs = {}
            for eid, e in p['effects'].items():
                mods = tuple(e.pop('mods'))
                if eid == int(EffectId.online) and e.get('category_id') == int(EffectCategoryId.online) \
                        and Impl.raw_online():
                    # the data as CCP ships it: the 'online' effect comes with the 'active' category and eos's own
                    # customisation (eve_obj/custom/online_effect_category) makes it the online category it is
                    e = dict(e, category_id=int(EffectCategoryId.active))
                effs[eid] = ch.mkeffect(eid, modifiers=mods, **e)
            for tid, ty in p['types'].items():
                ch.mktype(tid, group_id=ty['group_id'], category_id=ty['category_id'], attrs=ty['attrs'],
                          effects=[effs[e] for e in ty['effects'] if e in effs],
                          default_effect=effs.get(ty['default']) if ty['default'] is not None else None,
                          required_skills=ty['skills'], abilities_data=ty['abilities'])
            self.sources[src] = Source('src%d' % src, ch)
            return 'ok'
        if c == 'new':
            _, i, cls, tid, st, lvl = t
            k = CLASSES[cls]
            if cls in ('modhigh', 'modmid', 'modlow', 'drone', 'fighter'):
                obj = k(int(tid), state=int(st))
            elif cls == 'skill':
                obj = k(int(tid), level=int(lvl))
            else:
                obj = k(int(tid))
            self.reg(int(i), obj)
            return 'ok'
        if c == 'fit':
            f = Fit(solar_system=None)
            self.fits[int(t[1])] = f
            # item views obtained once and kept: they must keep following the racks
            if not hasattr(self, 'views'):
                self.views = {}
            self.views[int(t[1])] = {'high': f.modules.high.items(), 'mid': f.modules.mid.items(),
                                     'low': f.modules.low.items(), 'all': f.modules.items()}
            self.reg(int(t[2]), f.character)
            return 'ok'
        if c == 'solsys':
            self.sss[int(t[1])] = SolarSystem(source=None)
            return 'ok'
        if c == 'slot':
            setattr(self.fits[int(t[1])], SLOT_ATTR[t[2]], self.items[int(t[3])] if t[3] != '-' else None)
            return 'ok'
        if c == 'sadd':
            self.setc(int(t[1]), t[2]).add(self.items[int(t[3])])
            return 'ok'
        if c == 'srm':
            self.setc(int(t[1]), t[2]).remove(self.items[int(t[3])])
            return 'ok'
        if c == 'sclear':
            self.setc(int(t[1]), t[2]).clear()
            return 'ok'
        if c == 'skilldel':
            del self.fits[int(t[1])].skills[int(t[2])]
            return 'ok'
        if c == 'rappend':
            self.rack(int(t[1]), t[2]).append(self.items[int(t[3])])
            return 'ok'
        if c == 'rinsert':
            self.rack(int(t[1]), t[2]).insert(int(t[3]), self.items[int(t[4])] if t[4] != '-' else None)
            return 'ok'
        if c == 'rplace':
            self.rack(int(t[1]), t[2]).place(int(t[3]), self.items[int(t[4])])
            return 'ok'
        if c == 'requip':
            self.rack(int(t[1]), t[2]).equip(self.items[int(t[3])])
            return 'ok'
        if c in ('rremove', 'rfree'):
            r = self.rack(int(t[1]), t[2])
            arg = int(t[4]) if t[3] == 'idx' else (self.items[int(t[4])] if t[4] != '-' else None)
            (r.remove if c == 'rremove' else r.free)(arg)
            return 'ok'
        if c == 'rclear':
            self.rack(int(t[1]), t[2]).clear()
            return 'ok'
        if c == 'charge':
            self.items[int(t[1])].charge = self.items[int(t[2])] if t[2] != '-' else None
            return 'ok'
        if c == 'state':
            self.items[int(t[1])].state = int(t[2])
            return 'ok'
        if c == 'target':
            self.items[int(t[1])].target = self.items[int(t[2])] if t[2] != '-' else None
            return 'ok'
        if c == 'mode':
            self.items[int(t[1])].set_effect_mode(int(t[2]), int(t[3]))
            return 'ok'
        if c == 'level':
            self.items[int(t[1])].level = int(t[2])
            return 'ok'
        if c == 'fladd':
            self.fleets.setdefault(int(t[1]), Fleet()).fits.add(self.fits[int(t[2])])
            return 'ok'
        if c == 'flrm':
            self.fleets.setdefault(int(t[1]), Fleet()).fits.remove(self.fits[int(t[2])])
            return 'ok'
        if c == 'flclear':
            self.fleets.setdefault(int(t[1]), Fleet()).fits.clear()
            return 'ok'
        if c == 'ssadd':
            self.sss[int(t[1])].fits.add(self.fits[int(t[2])])
            return 'ok'
        if c == 'ssrm':
            self.sss[int(t[1])].fits.remove(self.fits[int(t[2])])
            return 'ok'
        if c == 'ssclear':
            self.sss[int(t[1])].fits.clear()
            return 'ok'
        if c == 'source':
            if t[2].startswith('?'):
                self.sss[int(t[1])].source = 'alias-nobody-registered-' + t[2][1:]
                return 'ok'
            self.sss[int(t[1])].source = self.sources[int(t[2])] if t[2] != '-' else None
            return 'ok'
        if c == 'read':
            return 'val ' + qout(self.items[int(t[1])].attrs[int(t[2])])
        if c == 'spec':
            v = self.items[int(t[1])].attrs.get(int(t[2]))
            return 'none' if v is None else 'val ' + qout(v)
        if c == 'get':
            v = self.items[int(t[1])].attrs.get(int(t[2]))
            return 'none' if v is None else 'val ' + qout(v)
        if c == 'keys':
            return ('keys ' + ' '.join(map(str, sorted(self.items[int(t[1])].attrs.keys())))).rstrip() \
                if True else ''
        if c == 'effects':
            effs = self.items[int(t[1])].effects
            return ('effects ' + ' '.join('%d:%d' % (e, 1 if d.status else 0)
                                          for e, d in sorted(effs.items()))).rstrip()
        if c == 'sideeffects':
            se = self.items[int(t[1])].side_effects
            return ('sideeffects ' + ' '.join('%d:%s:%d' % (e, qout(d.chance), 1 if d.status else 0)
                                              for e, d in sorted(se.items()))).strip()
        if c == 'setside':
            self.items[int(t[1])].set_side_effect_status(int(t[2]), t[3] == '1')
            return 'ok'
        if c == 'abilities':
            ab = self.items[int(t[1])].abilities
            return ('abilities ' + ' '.join('%d:%d' % (a, 1 if st else 0) for a, st in sorted(ab.items()))).strip()
        if c == 'setability':
            self.items[int(t[1])].set_ability_status(int(t[2]), t[3] == '1')
            return 'ok'
        if c == 'randomize':
            stream = iter([float(parse_q(x)) for x in t[2:]])
            old = booster_mod.random
            booster_mod.random = lambda: next(stream)
            try:
                self.items[int(t[1])].randomize_side_effects()
            finally:
                booster_mod.random = old
            return 'ok'
        if c == 'stats':
            return self.stats_dump(int(t[1]))
        if c == 'validate':
            return self.validate_dump(int(t[1]))
        if c == 'item':
            return self.item_dump(int(t[1]))
        if c == 'fitdump':
            return self.fit_dump(int(t[1]))
        if c == 'regs':
            return self.regs_dump(int(t[1]))
        return 'error badline'

    # -- dumps (these read private fields; used for the strong comparison) -----
    def place(self, obj):
        c = obj._container
        if c is None:
            return '-'
        for f, fit in self.fits.items():
            if c is fit:
                for k, a in SLOT_ATTR.items():
                    if getattr(fit, a) is obj:
                        return 'slot:%d:%s' % (f, k)
                return 'slot:%d:?' % f
            for k in ('skills', 'implants', 'boosters', 'subsystems', 'rigs', 'drones', 'fighters'):
                if c is getattr(fit, k):
                    return 'set:%d:%s' % (f, k)
            for k in ('high', 'mid', 'low'):
                if c is getattr(fit.modules, k):
                    return 'rack:%d:%s' % (f, k)
        if id(c) in self.ids:
            if getattr(c, 'charge', None) is obj:
                return 'charge:%d' % self.ids[id(c)]
            return 'auto:%d' % self.ids[id(c)]
        return '?'

    def item_dump(self, i):
        obj = self.items.get(i)
        if obj is None:
            return 'item %d absent' % i
        st = obj.state
        autos = ','.join('%d>%d:%d:%s' % (e, a._type_id, 1 if a._is_loaded else 0,
                                          '+'.join(map(str, sorted(a._running_effect_ids))))
                         for e, a in sorted(obj.autocharges.items()))
        # autocharge mappings handed out earlier must stay consistent containers: whatever they still list
        # must still be owned (a mapping emptied by the engine lists nothing)
        held = getattr(self, 'autoheld', None)
        if held is None:
            held = self.autoheld = {}
        cur = obj.autocharges
        if len(cur) and all(cur is not m for m in held.get(i, [])):
            held.setdefault(i, []).append(cur)
        stale = ''
        for m in held.get(i, []):
            try:
                vals = list(m.values())
                keys = list(m)
            except Exception as e:  # noqa
                stale = ' STALE-AUTOCHARGES(%s)' % type(e).__name__
                break
            if len(m) != len(keys) or any(v._container is None for v in vals) or any(k not in m for k in keys):
                stale = ' STALE-AUTOCHARGES'
        cached = obj.attrs._MutableAttrMap__modified_attrs
        return 'item %d cont=%s fit=%s state=%s loaded=%d running=%s target=%s charge=%s autos=%s%s cached=%s' % (
            i, self.place(obj), self.fid(obj._fit), '-' if st is None else int(st),
            1 if obj._is_loaded else 0, ','.join(map(str, sorted(obj._running_effect_ids))),
            self.iid(getattr(obj, 'target', None)), self.iid(getattr(obj, 'charge', None)),
            autos, stale, ','.join(map(str, sorted(cached))))

    _raw_online_toggle = 0

    @staticmethod
    def raw_online():
        """every other universe is given the 'online' effect the way the raw data has it"""
        Impl._raw_online_toggle += 1
        return Impl._raw_online_toggle % 2 == 0

    def fit_dump(self, f):
        fit = self.fits.get(f)
        if fit is None:
            return 'fit %d absent' % f

        def s(c):
            return ','.join(map(str, sorted(int(self.iid(x)) for x in c)))

        def r(c):
            return ','.join(self.iid(x) for x in c)
        ssid = '-'
        for k, v in self.sss.items():
            if fit.solar_system is v:
                ssid = str(k)
        flid = '-'
        for k, v in self.fleets.items():
            if fit.fleet is v:
                flid = str(k)
        skillmap = ','.join('%d>%s' % (sk._type_id, self.iid(sk)) for sk in
                            sorted(fit.skills, key=lambda x: x._type_id))
        stale = ''
        views = getattr(self, 'views', {}).get(f)
        if views:
            everything = []
            for k in ('high', 'mid', 'low'):
                want = [x for x in getattr(fit.modules, k) if x is not None]
                everything += want
                v = views[k]
                if list(v) != want or len(v) != len(want) or any(x not in v for x in want):
                    stale += ' STALE-VIEW(%s)' % k
            va = views['all']
            if sorted(map(id, va)) != sorted(map(id, everything)) or len(va) != len(everything):
                stale += ' STALE-VIEW(modules)'
        return ('fit %d ship=%s character=%s stance=%s beacon=%s skills=%s skillmap=%s implants=%s boosters=%s '
                'subsystems=%s rigs=%s drones=%s fighters=%s high=[%s] mid=[%s] low=[%s] solsys=%s fleet=%s%s') % (
            f, self.iid(fit.ship), self.iid(fit.character), self.iid(fit.stance), self.iid(fit.effect_beacon),
            s(fit.skills), skillmap, s(fit.implants), s(fit.boosters), s(fit.subsystems), s(fit.rigs),
            s(fit.drones), s(fit.fighters), r(fit.modules.high), r(fit.modules.mid), r(fit.modules.low),
            ssid, flid, stale + self.fleet_side(fit))

    def fleet_side(self, fit):
        """a fleet lists a fit exactly when the fit names that fleet (both sides of the same relation)"""
        out = ''
        for k, fl in sorted(self.fleets.items()):
            try:
                listed = any(x is fit for x in fl.fits)
                ok = listed == (fit.fleet is fl) and listed == (fit in fl.fits)
                n = len(fl.fits) == len(list(fl.fits))
            except Exception as e:  # noqa
                out += ' STALE-FLEET(%d:%s)' % (k, type(e).__name__)
                continue
            if not ok or not n:
                out += ' STALE-FLEET(%d)' % k
        for k, ss in sorted(self.sss.items()):
            try:
                listed = any(x is fit for x in ss.fits)
                ok = listed == (fit.solar_system is ss) and listed == (fit in ss.fits)
            except Exception as e:  # noqa
                out += ' STALE-SOLSYS(%d:%s)' % (k, type(e).__name__)
                continue
            if not ok:
                out += ' STALE-SOLSYS(%d)' % k
        return out

    # -- implementation-only observations (not understood by the model driver) -------
    def stats_dump(self, f):
        st = self.fits[f].stats
        out = []

        def g(name, fn):
            try:
                v = fn()
                out.append('%s=%s' % (name, v if not isinstance(v, float) else repr(round(v, 9))))
            except Exception as e:  # noqa
                out.append('%s=!%s' % (name, type(e).__name__))
        for r in ('cpu', 'powergrid', 'calibration', 'dronebay', 'drone_bandwidth'):
            g(r + '.used', lambda r=r: getattr(st, r).used)
            g(r + '.output', lambda r=r: getattr(st, r).output)
        for r in ('turret_slots', 'launcher_slots', 'launched_drones', 'high_slots', 'mid_slots', 'low_slots',
                  'rig_slots', 'subsystem_slots', 'fighter_squads'):
            g(r, lambda r=r: (getattr(st, r).used, getattr(st, r).total))
        g('dps', lambda: tuple(round(x, 9) for x in st.get_dps()))
        g('hp', lambda: tuple(round(x, 9) for x in st.hp))
        return 'stats %d %s' % (f, ' '.join(out))

    def validate_dump(self, f):
        from eos import ValidationError
        try:
            self.fits[f].validate()
            return 'validate %d ok' % f
        except ValidationError as e:
            data = e.args[0]
            items = []
            for it, errs in data.items():
                items.append('%s:%s' % (self.iid(it), ','.join('%d=%s' % (int(k), tuple(v)) for k, v in sorted(errs.items()))))
            return 'validate %d %s' % (f, ' '.join(sorted(items)))

    def regs_dump(self, s):
        ss = self.sss.get(s)
        if ss is None:
            return 'regs %d absent' % s
        calc = ss._calculator
        a = calc._CalculationService__affections
        p = calc._CalculationService__projections

        def ks(d):
            return sum(1 + len(v) for v in d.values())
        g = lambda n: getattr(a, '_AffectionRegister__' + n)  # noqa
        q = lambda n: getattr(p, '_ProjectionRegister__' + n)  # noqa
        subs = calc._CalculationService__subscribed_affectors
        specs = set()
        for v in subs.values():
            specs |= set(v)
        # fits on which the calculator listens to ItemAdded (not in its static handler map)
        from eos.pubsub.message import ItemAdded
        pyfits = 0
        for fit in ss.fits:
            if calc in fit._FitMsgBroker__subscribers.get(ItemAdded, ()):
                pyfits += 1
        return ('regs %d affectees=%d ae=%d ao_other=%d ao_await=%d ao_active=%d ao_filters=%d projectors=%d '
                'carrier=%d carrierless=%d ptgts=%d tgtp=%d buffs=%d pysubs=%d pyfits=%d') % (
            s, len(g('affectees')),
            ks(g('affectees_domain')) + ks(g('affectees_domain_group')) + ks(g('affectees_domain_skillrq'))
            + ks(g('affectees_owner_skillrq')),
            ks(g('affectors_item_other')), ks(g('affectors_item_awaiting')), ks(g('affectors_item_active')),
            ks(g('affectors_domain')) + ks(g('affectors_domain_group')) + ks(g('affectors_domain_skillrq'))
            + ks(g('affectors_owner_skillrq')),
            len(q('projectors')), ks(q('carrier_projectors')), len(q('carrierless_projectors')),
            ks(q('projector_tgts')), ks(q('tgt_projectors')),
            ks(calc._CalculationService__warfare_buffs), len(specs), pyfits)


def set_penalty_base(v):
    cmap.PENALTY_BASE = ORIG_PENALTY_BASE if v is None else v


def penalties():
    """exact rational value of PENALTY_BASE ** pos ** 2 for pos 0..10 as the
    running module computes them"""
    return [Fraction(cmap.PENALTY_BASE ** pos ** 2) for pos in range(11)]
