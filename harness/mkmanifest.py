"""Writes /verif/MANIFEST.json from the table below (kept valid at all times)."""
import json
import os

VERIF = os.path.dirname(os.path.dirname(os.path.abspath(__file__)))

ALL = ['C%02d' % i for i in range(1, 21)]

CLAIMED = {
    'C20': {
        'text': 'Theorems over the reals (Coq Reals) for the model of get_ctc_range/get_sts_range: '
                'Euclidean value, symmetry, zero iff same position, triangle inequality, '
                'sts = max 0 (ctc - r1 - r2) >= 0, mismatch iff an item is not in the queried solar system. '
                'The radicand and the sts expression are re-translated from the source on every run and proved '
                'equal to the model; the extracted model is run against the real SolarSystem on generated items.',
        'note': 'Axioms (Print Assumptions): ClassicalDedekindReals.sig_forall_dec, sig_not_dec, '
                'FunctionalExtensionality.functional_extensionality_dep (all from Coq Reals). '
                'binary64 rounding and libm sqrt are not modelled: implementation values are compared with the exact '
                'rational radicand to 1e-9 relative; the max(0, .) decision is compared only when the margin exceeds 1e-6. '
                'Accepted argument types: in-space items (Ship, Drone, FighterSquad).',
        'design': '6 C20',
        'technique': 'Coq proof (Reals) + source-translated expressions + extracted-model correspondence',
    },
}

NOT_YET = 'check not built yet in this session (construction order in DESIGN.md section 11); not claimed until its theorems and tie exist'


def main():
    checks = []
    for pid in ALL:
        if pid not in CLAIMED:
            continue
        c = CLAIMED[pid]
        checks.append({
            'property_id': pid,
            'quick_cmd': './check %s --tier quick' % pid,
            'thorough_cmd': './check %s --tier thorough' % pid,
            'evidence_file': 'evidence/%s.json' % pid,
            'replay_cmd_template': './check %s --replay {path}' % pid,
            'engine': 'coq-eosv',
            'level_claimed': {'category': 'proof', 'text': c['text'],
                              'design_ref': 'DESIGN.md section ' + c['design']},
            'level_note': c['note'],
            'technique': c['technique'],
        })
    m = {
        'version': 1,
        'setup_cmd': './setup.sh',
        'hooks': {
            'guard': 'EOS_VERIF',
            'enable': 'EOS_VERIF=1 in the environment of the process importing eos (set by the checks that need it)',
            'baseline_off_cmd': 'cd /repo && /venv/bin/python -m pytest -ra -q -p no:cacheprovider --timeout=900 --continue-on-collection-errors',
            'source_commits': [],
            'add_only': True,
        },
        'engines': [
            {'name': 'coq-eosv', 'path': 'coq',
             'serves_properties': sorted(CLAIMED),
             'kind_free_text': 'Coq 8.16.1 development (model/, proofs/, props/, gen/ regenerated from /repo by harness/tables_*.py), extracted with ExtrOcamlBasic to bin/* drivers'},
            {'name': 'harness', 'path': 'harness',
             'serves_properties': sorted(CLAIMED),
             'kind_free_text': 'Python: translators, generators, implementation runners, comparison, oracles, evidence'},
        ],
        'checks': checks,
        'not_applicable': [{'property_id': p, 'reason': NOT_YET}
                           for p in ALL if p not in CLAIMED],
        'notes': 'See DESIGN.md. known_findings.json lists genuine defects (open / fixed).',
    }
    with open(os.path.join(VERIF, 'MANIFEST.json'), 'w') as f:
        json.dump(m, f, indent=1)


main()
