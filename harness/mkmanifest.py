"""Writes /verif/MANIFEST.json from the table below (kept valid at all times)."""
import json
import os

VERIF = os.path.dirname(os.path.dirname(os.path.abspath(__file__)))

ALL = ['C%02d' % i for i in range(1, 21)]

CLAIMED = {
    'C20': {
        'text': 'Theorems over the reals (Coq Reals) for the model of get_ctc_range/get_sts_range: '
                'Euclidean value, symmetry, zero iff same position, triangle inequality, '
                'sts = max 0 (ctc - r1 - r2) >= 0, mismatch iff an item is not in the queried solar system. '
                'The radicand and the sts expression are re-translated from the source on every run and proved '
                'equal to the model; the extracted model is run against the real SolarSystem on generated items.',
        'note': 'Axioms (Print Assumptions): ClassicalDedekindReals.sig_forall_dec, sig_not_dec, '
                'FunctionalExtensionality.functional_extensionality_dep (all from Coq Reals). '
                'binary64 rounding and libm sqrt are not modelled: implementation values are compared with the exact '
                'rational radicand to 1e-9 relative; the max(0, .) decision is compared only when the margin exceeds 1e-6. '
                'Accepted argument types: in-space items (Ship, Drone, FighterSquad).',
        'design': '6 C20',
        'technique': 'Coq proof (Reals) + source-translated expressions + extracted-model correspondence',
    },
    'C19': {
        'text': 'Coq theorems, for all lists of modifier-info entries (induction, no size bound), about an implementation-shaped model of ModInfoconverter.convert + DogmaModifier._valid + ModBuilder.build: the conversion never aborts and length mods + fails = length infos; an entry yields exactly one modifier iff it is well-formed, and then filter/domain/operator/attr/group/skill ids are those of the documented maps; every other entry is counted as a failure; only modifiers passing validation are emitted; build returns exactly the modifiers of the well-formed entries in order with status success / success_partial / error by the counts (empty info: success, no modifiers). Handler map, per-handler keys, domain and operator maps, validator domain lists, enum values, except clauses and exit conditions are re-translated from the source on every run and proved equal to the specification\'s constants by vm_compute; the extracted model is compared with the real ModBuilder exhaustively on the finite function x domain x operation x id-shape single-entry product (410k cases) and on sampled mixed lists.',
        'note': 'Print Assumptions: closed under the global context for all 12 theorems; coqchk axioms none. Modelled, not verified: entries are JSON values (int, bool, finite float as exact rational, NaN/Inf, str, None, list/dict); CPython dict key equality and int() (string grammar for ASCII strings only: Unicode digits/spaces and the 4300-digit limit are excluded by name); isinstance(..., Integral) checks are discharged by typing because ids are results of int(). The pinned code does no YAML parsing (modifierInfo arrives JSON-decoded); the JSON codec and the real ModBuilder are exercised as glue. Out of scope: a non-list modifierInfo, an effect row without effectID. Describes /repo after fix commits 200b61d and 1eb84a0.',
        'design': '6 C19',
        'technique': 'Coq proof (induction over entry lists, refinement of a declarative spec) + source-translated tables with vm_compute obligations + exhaustive finite-product and sampled extracted-model correspondence',
    },
    'C18': {
        'text': 'Theorems for all raw tables (unbounded) about an executable model of EveObjBuilder.run: cleaner result = least closure of the strong types under the reference relation (sound and complete); loop termination with fuel > number of rows and progress on every changing pass; first row wins for duplicate/non-integer primary keys, surplus default effects and surplus rack effects; at most one default and one rack effect per type; no dangling reference from built types/attributes/effects/buff templates to anything that exists in the raw data; the rows reaching the converter, and the built ids, are invariant under arbitrary iteration order between stages. Primary keys, strong categories/groups, auxiliary tables, foreign keys, modifier-info and buff-section fields, autocharge/buff attribute ids, rack effects and constructor-argument maps are re-translated from the source on every run and proved to satisfy what the theorems need (every converter reference field is in the cleaner\'s foreign-key table); the extracted model is run against the real builder on generated data sets under three PYTHONHASHSEED values.',
        'note': 'Print Assumptions: closed under the global context for all 35 statements; coqchk lists no axioms. Modelled, not verified: Python set/dict equality of numbers (5 == 5.0 == key 5, True == 1), int() of strings (computed by the glue), the cleaner\'s effectID-keyed modifier-info map taken as the row\'s own infos (equal by PK uniqueness). Not modelled: the three fighter-ability validations and abilities_data; modifier objects (C19) - built modifiers are compared only as ids within the ids the row\'s modifier infos name; shuffles inside the cleaner loop (stage boundaries only). Domain: modifierInfo absent/None/falsy scalar/list of dicts, buff sections absent or lists of dicts; other shapes give OutOfDomain (none generated). Closure is over the cleaned rows: every-built-effect-is-carried-by-a-built-type is refuted (C18_built_effects_all_carried_refuted; a surplus rack row is removed after cleaning). A KeyError on a reachable skill row without level, or on a buff row with missing operation/aggregate/modifier fields, is reproduced by the model and treated as outside the property\'s domain. Describes /repo after fix commits 8f696c2, f4b5818, 82f84d8.',
        'design': '6 C18',
        'technique': 'Coq proof (closure / fixed point, first-wins scans, permutation invariance) + source-translated tables with vm_compute obligations + extracted-model correspondence under 3 hash seeds',
    },
}

NOT_YET = 'check not built yet in this session (construction order in DESIGN.md section 11); not claimed until its theorems and tie exist'


def main():
    checks = []
    for pid in ALL:
        if pid not in CLAIMED:
            continue
        c = CLAIMED[pid]
        checks.append({
            'property_id': pid,
            'quick_cmd': './check %s --tier quick' % pid,
            'thorough_cmd': './check %s --tier thorough' % pid,
            'evidence_file': 'evidence/%s.json' % pid,
            'replay_cmd_template': './check %s --replay {path}' % pid,
            'engine': 'coq-eosv',
            'level_claimed': {'category': 'proof', 'text': c['text'],
                              'design_ref': 'DESIGN.md section ' + c['design']},
            'level_note': c['note'],
            'technique': c['technique'],
        })
    m = {
        'version': 1,
        'setup_cmd': './setup.sh',
        'hooks': {
            'guard': 'EOS_VERIF',
            'enable': 'EOS_VERIF=1 in the environment of the process importing eos (set by the checks that need it)',
            'baseline_off_cmd': 'cd /repo && /venv/bin/python -m pytest -ra -q -p no:cacheprovider --timeout=900 --continue-on-collection-errors',
            'source_commits': [],
            'add_only': True,
        },
        'engines': [
            {'name': 'coq-eosv', 'path': 'coq',
             'serves_properties': sorted(CLAIMED),
             'kind_free_text': 'Coq 8.16.1 development (model/, proofs/, props/, gen/ regenerated from /repo by harness/tables_*.py), extracted with ExtrOcamlBasic to bin/* drivers'},
            {'name': 'harness', 'path': 'harness',
             'serves_properties': sorted(CLAIMED),
             'kind_free_text': 'Python: translators, generators, implementation runners, comparison, oracles, evidence'},
        ],
        'checks': checks,
        'not_applicable': [{'property_id': p, 'reason': NOT_YET}
                           for p in ALL if p not in CLAIMED],
        'notes': 'See DESIGN.md. known_findings.json lists genuine defects (open / fixed).',
    }
    with open(os.path.join(VERIF, 'MANIFEST.json'), 'w') as f:
        json.dump(m, f, indent=1)


main()
