"""Translator for C20: eos/solar_system/solar_system.py range queries ->
coq/gen/T_range.v (the radicand expression, the sts expression, the membership
test and the radius source, each matched against one expected shape)."""
import ast

from pyast import Shape, parse, find_class, find_func, dotted, expect, const_num

COORD = {'item1.coordinate.x': 'x1', 'item1.coordinate.y': 'y1',
         'item1.coordinate.z': 'z1', 'item2.coordinate.x': 'x2',
         'item2.coordinate.y': 'y2', 'item2.coordinate.z': 'z2'}


def qexpr(e, names, scope):
    if isinstance(e, ast.BinOp):
        if isinstance(e.op, ast.Pow):
            expect(const_num(e.right) == 2, 'only **2 supported')
            a = qexpr(e.left, names, scope)
            return '(%s * %s)' % (a, a)
        op = {ast.Add: '+', ast.Sub: '-', ast.Mult: '*'}.get(type(e.op))
        expect(op is not None, 'unsupported operator %s' % type(e.op).__name__)
        return '(%s %s %s)' % (qexpr(e.left, names, scope), op,
                               qexpr(e.right, names, scope))
    if isinstance(e, (ast.Attribute, ast.Name)):
        d = dotted(e)
        expect(d in names, 'unexpected name %s' % d)
        return names[d]
    if isinstance(e, ast.Constant):
        v = const_num(e)
        expect(v == int(v), 'non-integer constant')
        return '(%d)%s' % (int(v), scope)
    raise Shape('unsupported expression %s' % ast.dump(e)[:80])


def generate(repo):
    tree = parse(repo, 'eos/solar_system/solar_system.py')
    cls = find_class(tree, 'SolarSystem')
    ctc = find_func(cls, 'get_ctc_range')
    sts = find_func(cls, 'get_sts_range')
    body = [s for s in ctc.body if not (isinstance(s, ast.Expr) and
                                        isinstance(s.value, ast.Constant))]
    # two try blocks fetching item._fit.solar_system with AttributeError -> None
    expect(len(body) == 5, 'get_ctc_range: expected 5 statements, got %d' % len(body))
    for k, st in enumerate(body[:2]):
        expect(isinstance(st, ast.Try) and len(st.body) == 1 and len(st.handlers) == 1,
               'get_ctc_range: try shape')
        a = st.body[0]
        expect(isinstance(a, ast.Assign) and dotted(a.targets[0]) == 'item%d_ss' % (k + 1)
               and dotted(a.value) == 'item%d._fit.solar_system' % (k + 1),
               'get_ctc_range: solar system lookup shape')
        h = st.handlers[0]
        expect(dotted(h.type) == 'AttributeError' and len(h.body) == 1 and
               isinstance(h.body[0], ast.Assign) and
               isinstance(h.body[0].value, ast.Constant) and h.body[0].value.value is None,
               'get_ctc_range: handler shape')
    chk = body[2]
    expect(isinstance(chk, ast.If) and isinstance(chk.test, ast.BoolOp) and
           isinstance(chk.test.op, ast.Or) and len(chk.test.values) == 2,
           'get_ctc_range: membership test shape')
    for k, c in enumerate(chk.test.values):
        expect(isinstance(c, ast.Compare) and len(c.ops) == 1 and
               isinstance(c.ops[0], ast.IsNot) and
               dotted(c.left) == 'item%d_ss' % (k + 1) and
               dotted(c.comparators[0]) == 'self', 'membership comparison shape')
    expect(any(isinstance(s, ast.Raise) and
               dotted(s.exc.func) == 'ItemSolarSystemMismatchError'
               for s in chk.body), 'mismatch raise')
    asg, ret = body[3], body[4]
    expect(isinstance(asg, ast.Assign) and dotted(asg.targets[0]) == 'ctc_range' and
           isinstance(asg.value, ast.Call) and dotted(asg.value.func) == 'sqrt' and
           len(asg.value.args) == 1, 'ctc_range = sqrt(...) shape')
    expect(isinstance(ret, ast.Return) and dotted(ret.value) == 'ctc_range', 'return shape')
    radicand = qexpr(asg.value.args[0], COORD, '%Q')

    sbody = [s for s in sts.body if not (isinstance(s, ast.Expr) and
                                         isinstance(s.value, ast.Constant))]
    expect(len(sbody) == 4, 'get_sts_range: expected 4 statements')
    a0 = sbody[0]
    expect(isinstance(a0, ast.Assign) and dotted(a0.targets[0]) == 'ctc_range' and
           isinstance(a0.value, ast.Call) and
           dotted(a0.value.func) == 'self.get_ctc_range' and
           [dotted(x) for x in a0.value.args] == ['item1', 'item2'], 'sts: ctc call')
    for k in (1, 2):
        a = sbody[k]
        expect(isinstance(a, ast.Assign) and
               dotted(a.targets[0]) == 'item%d_radius' % k and
               isinstance(a.value, ast.Call) and
               dotted(a.value.func) == 'item%d._type_attrs.get' % k and
               dotted(a.value.args[0]) == 'AttrId.radius' and
               const_num(a.value.args[1]) == 0, 'sts: radius lookup shape')
    r = sbody[3]
    expect(isinstance(r, ast.Return) and isinstance(r.value, ast.Call) and
           dotted(r.value.func) == 'max' and len(r.value.args) == 2, 'sts: max shape')
    rn = {'ctc_range': 'c', 'item1_radius': 'r1', 'item2_radius': 'r2'}
    lo = qexpr(r.value.args[0], rn, '%R')
    hi = qexpr(r.value.args[1], rn, '%R')
    return ('(* GENERATED by harness/tables_range.py from '
            'eos/solar_system/solar_system.py -- do not edit *)\n'
            'From Coq Require Import QArith Reals.\n'
            'Definition gen_radicand (x1 y1 z1 x2 y2 z2 : Q) : Q :=\n  (%s)%%Q.\n'
            'Definition gen_sts (c r1 r2 : R) : R :=\n  (Rmax %s %s)%%R.\n'
            % (radicand, lo, hi))
