"""C04 implementation side: eng_impl.Impl extended with the statistics commands
of ocaml/stats_driver.ml (public API: fit.stats.*, item.get_*), the default
damage profile setter, the duration-attribute extra table, and a dump of the
registers' private sets (strong comparison only)."""
from fractions import Fraction

import eng_impl
from eng_impl import Impl, qout, opt
from eosenv import parse_q

from eos import DmgProfile, ResistProfile
from eos.item_filter import drone_filter, missile_filter, sentry_drone_filter, turret_filter


def fl(tok):
    return float(parse_q(tok))


def profile(cls, s):
    return cls(*[fl(x) for x in s.split(',')])


def oprofile(cls, s):
    return None if s == '-' else profile(cls, s)


def make_filter(s):
    if s.startswith('!'):
        inner = make_filter(s[1:])
        if inner is None:
            return lambda item: False
        return lambda item: not inner(item)
    if s == 'all':
        return None
    if s.startswith('tid:'):
        t = int(s[4:])
        return lambda item: item._type_id == t
    return {'turret': turret_filter, 'missile': missile_filter, 'drone': drone_filter,
            'sentry': sentry_drone_filter}[s]


def num(v):
    return qout(v)


def dmg_s(d):
    return 'dmg %s %s %s %s' % (num(d.em), num(d.thermal), num(d.kinetic), num(d.explosive))


def hp_s(h):
    return 'hp %s %s %s' % (num(h.hull), num(h.armor), num(h.shield))


def res_s(r):
    return 'res ' + ' '.join(num(x) for layer in (r.hull, r.armor, r.shield)
                             for x in (layer.em, layer.thermal, layer.kinetic, layer.explosive))


class StatImpl(Impl):

    def run(self, line):
        t = line.split()
        if t and t[0] in ('st', 'setdmg', 'regdump', 'u_dur'):
            try:
                return self.stat_cmd(t)
            except Exception as e:  # noqa
                return 'exn ' + type(e).__name__
        return Impl.run(self, line)

    def stat_cmd(self, t):
        c = t[0]
        if c == 'u_dur':
            _, src, eid, a = t
            self.pending[int(src)]['effects'][int(eid)]['duration_attr_id'] = opt(a)
            return 'ok'
        if c == 'setdmg':
            if t[2].startswith('!'):
                # not a damage profile at all: documented TypeError, nothing may change
                self.fits[int(t[1])].default_incoming_dmg = {
                    '!none': None, '!tuple': (1, 1, 1, 1), '!resist': ResistProfile(0.5, 0.5, 0.5, 0.5)}[t[2]]
                return 'ok'
            self.fits[int(t[1])].default_incoming_dmg = profile(DmgProfile, t[2])
            return 'ok'
        if c == 'regdump':
            return self.regdump(int(t[1]))
        k = t[1]
        if k in ('ihp', 'iresists', 'iehp', 'iwcehp', 'ivolley', 'idps'):
            item = self.items[int(t[2])]
            if k == 'ihp':
                return hp_s(item.hp)
            if k == 'iresists':
                return res_s(item.resists)
            if k == 'iehp':
                return hp_s(item.get_ehp(oprofile(DmgProfile, t[3])))
            if k == 'iwcehp':
                return hp_s(item.worst_case_ehp)
            if k == 'ivolley':
                return dmg_s(item.get_volley(tgt_resists=oprofile(ResistProfile, t[3])))
            return dmg_s(item.get_dps(reload=t[3] == '1', tgt_resists=oprofile(ResistProfile, t[4])))
        st = self.fits[int(t[2])].stats
        if k == 'used':
            return 'val ' + num(getattr(st, t[3]).used)
        if k == 'output':
            return 'val ' + num(getattr(st, t[3]).output)
        if k == 'slot_used':
            return 'int %d' % getattr(st, t[3]).used
        if k == 'slot_total':
            return 'int %d' % getattr(st, t[3]).total
        if k == 'slots':
            s = getattr(st, t[3])
            return 'slots %d %d' % (s.used, s.total)
        if k == 'hp':
            return hp_s(st.hp)
        if k == 'resists':
            return res_s(st.resists)
        if k == 'ehp':
            return hp_s(st.get_ehp(oprofile(DmgProfile, t[3])))
        if k == 'wcehp':
            return hp_s(st.worst_case_ehp)
        if k == 'volley':
            return dmg_s(st.get_volley(item_filter=make_filter(t[3]), tgt_resists=oprofile(ResistProfile, t[4])))
        if k == 'dps':
            return dmg_s(st.get_dps(item_filter=make_filter(t[3]), reload=t[4] == '1',
                                    tgt_resists=oprofile(ResistProfile, t[5])))
        if k in ('arps', 'srps'):
            fn = st.get_armor_rps if k == 'arps' else st.get_shield_rps
            rl = t[4] == '1'
            if t[3] == 'default':
                return 'val ' + num(fn(reload=rl))
            if t[3] == 'none':
                return 'val ' + num(fn(dmg_profile=None, reload=rl))
            return 'val ' + num(fn(dmg_profile=profile(DmgProfile, t[3]), reload=rl))
        return 'error badline'

    def nid(self, obj):
        i = self.ids.get(id(obj))
        return -1 if i is None else i

    # private view of the registers (never used by the oracle)
    def regdump(self, f):
        st = self.fits[f].stats
        parts = []
        for name in ('cpu', 'powergrid', 'calibration', 'dronebay', 'drone_bandwidth', 'turret_slots',
                     'launcher_slots', 'launched_drones', 'fighter_squads_support', 'fighter_squads_light',
                     'fighter_squads_heavy'):
            parts.append('%s=%s' % (name, ','.join(map(str, sorted(self.nid(x) for x in getattr(st, name)._users)))))
        dd = getattr(st, '_StatService__dd_reg')._DmgDealerRegister__dmg_dealers
        pairs = sorted((self.nid(i), int(e.id)) for i, es in dd.items() for e in es)
        parts.append('dd=' + ','.join('%d:%d' % p for p in pairs))
        ar = getattr(st, '_StatService__armor_rep_reg')._ArmorRepairerRegister__local_repairers
        parts.append('arep=' + ','.join('%d:%d' % p for p in sorted((self.nid(i), int(e.id)) for i, e in ar)))
        sr = getattr(st, '_StatService__shield_rep_reg')._ShieldRepairerRegister__local_repairers
        parts.append('srep=' + ','.join('%d:%d' % p for p in sorted((self.nid(i), int(e.id)) for i, e in sr)))
        return 'regdump %d ' % f + ' '.join(parts)
