(* C19 — Modifier info conversion is total and faithful.
   Statements only; proofs are in proofs/ModInfo_p.v.

   model/ModInfo.v      : convert_one / convert / valid / build, implementation-
                          shaped, driven by the tables of gen/T_modinfo.v
                          (regenerated from the source on every run)
   model/ModInfoSpec.v  : wellformed / malformed / spec_convert / spec_status,
                          declarative, with its own constants *)
From Coq Require Import ZArith QArith Bool String List.
From EosV Require Import model.ModInfoTypes gen.T_modinfo model.ModInfo
  model.ModInfoSpec proofs.ModInfo_p.
Import ListNotations.
Local Open Scope Z_scope.
Local Open Scope string_scope.

(* --- the maps in the source are the documented ones --------------------- *)
Theorem C19_source_tables :
  handler_map = spec_handlers /\ domain_map = spec_domains /\
  operator_map = spec_operators /\
  map (fun p => (fst p, snd (snd p))) validators = spec_supported /\
  (func_key = "func" /\ domain_key = "domain" /\ operation_key = "operation") /\
  int_strict = true.
Proof.
  exact (conj tbl_handlers (conj tbl_domains (conj tbl_operators
        (conj tbl_validators (conj tbl_keys tbl_int_strict))))).
Qed.

(* --- totality: no entry, whatever its shape, aborts the conversion ------- *)
Theorem C19_convert_total : forall infos,
  exists mods fails, convert infos = Done (mods, fails) /\
                     (length mods + fails = length infos)%nat.
Proof. exact convert_total. Qed.

Theorem C19_build_never_aborts : forall infos,
  exists ms st, build infos = Built ms st.
Proof. exact build_never_aborts. Qed.

(* --- one entry ------------------------------------------------------------ *)
(* the converter appends m for e and m passes validation  <->  e is
   well-formed and m carries the mapped filter/domain/operator/ids *)
Theorem C19_entry_emitted_iff_wellformed : forall e m,
  (convert_one e = SMod m /\ valid m = true) <-> wellformed e m.
Proof. exact entry_iff. Qed.

(* the same at the observation point: a one-entry list *)
Theorem C19_wellformed_iff_one : forall e m,
  wellformed e m <-> build [e] = Built [m] spec_success.
Proof. exact wellformed_iff_one. Qed.

Theorem C19_wellformed_functional : forall e m m',
  wellformed e m -> wellformed e m' -> m = m'.
Proof. exact wellformed_functional. Qed.

Theorem C19_malformed_counted : forall e,
  malformed e <-> build [e] = Built [] spec_error.
Proof. exact malformed_iff_error. Qed.

(* --- all lists -------------------------------------------------------------- *)
(* build returns exactly the modifiers of the well-formed entries, in order,
   every other entry is counted, and the status is the one the counts dictate *)
Theorem C19_build_refines_spec : forall infos,
  exists ms bad, spec_convert infos ms bad /\
                 build infos = Built ms (spec_status (length ms) bad).
Proof. exact build_refines_spec. Qed.

(* ... and the specification determines that result uniquely *)
Theorem C19_spec_deterministic : forall infos ms bad ms' bad',
  spec_convert infos ms bad -> spec_convert infos ms' bad' -> ms = ms' /\ bad = bad'.
Proof. exact spec_convert_deterministic. Qed.

Theorem C19_only_valid_emitted : forall infos ms st,
  build infos = Built ms st ->
  Forall (fun m => valid m = true /\ exists e, In e infos /\ wellformed e m) ms.
Proof. exact only_valid_emitted. Qed.

Theorem C19_status_law : forall infos ms st,
  build infos = Built ms st ->
  exists bad,
    spec_convert infos ms bad /\ (length ms + bad = length infos)%nat /\
    (st = spec_success <-> bad = O) /\
    (st = spec_success_partial <-> (bad <> O /\ ms <> [])) /\
    (st = spec_error <-> (bad <> O /\ ms = [])).
Proof. exact status_law. Qed.

Theorem C19_empty_info : build [] = Built [] spec_success.
Proof.
  destruct (build_refines_spec []) as [ms [bad [Hs Hb]]].
  inversion Hs; subst. exact Hb.
Qed.

(* --- non-vacuity ------------------------------------------------------------ *)
Definition ex_item : entry :=
  EDict [("domain", VStr "shipID"); ("func", VStr "ItemModifier");
         ("modifiedAttributeID", VInt 22); ("modifyingAttributeID", VStr " 1_1 ");
         ("operation", VBool true)].
Definition ex_owner_bad_domain : entry :=
  EDict [("domain", VStr "shipID"); ("func", VStr "OwnerRequiredSkillModifier");
         ("modifiedAttributeID", VInt 33); ("modifyingAttributeID", VInt 44);
         ("operation", VInt 6); ("skillTypeID", VFloat (55 # 1))].
Definition ex_group : entry :=
  EDict [("func", VStr "LocationGroupModifier"); ("domain", VNone);
         ("groupID", VFloat (14 # 2)); ("modifiedAttributeID", VInt (-3));
         ("modifyingAttributeID", VBool false); ("operation", VFloat (-1 # 1));
         ("extra", VUnhashable)].
Definition ex_fraction : entry :=
  EDict [("domain", VStr "shipID"); ("func", VStr "ItemModifier");
         ("modifiedAttributeID", VFloat (19 # 10)); ("modifyingAttributeID", VInt 11);
         ("operation", VInt 6)].
Definition ex_unhashable_func : entry :=
  EDict [("domain", VStr "shipID"); ("func", VUnhashable);
         ("modifiedAttributeID", VInt 22); ("modifyingAttributeID", VInt 11);
         ("operation", VInt 6)].

(* a well-formed entry exists (bool operation code True = 1 -> pre_div = 3,
   string id " 1_1 " = 11) ... *)
Example C19_nonvacuous_wellformed :
  wellformed ex_item (mkMod 1 None 3 22 3 1 None 11) /\
  wellformed ex_group (mkMod 3 (Some 7) 1 (-3) 1 1 None 0).
Proof. split; apply entry_iff; vm_compute; split; reflexivity. Qed.

(* ... and malformed ones of each kind: not a dict, unhashable function name,
   fractional id, domain the filter does not support (validation failure) *)
Example C19_nonvacuous_malformed :
  malformed ENotDict /\ malformed ex_unhashable_func /\ malformed ex_fraction /\
  malformed ex_owner_bad_domain.
Proof. repeat split; apply malformed_iff_error; vm_compute; reflexivity. Qed.

Example C19_nonvacuous_mixed :
  build [ex_item; ENotDict; ex_owner_bad_domain; ex_group; ex_fraction] =
    Built [mkMod 1 None 3 22 3 1 None 11; mkMod 3 (Some 7) 1 (-3) 1 1 None 0]
          spec_success_partial /\
  build [ex_unhashable_func; ex_owner_bad_domain] = Built [] spec_error /\
  build [ex_group; ex_item] =
    Built [mkMod 3 (Some 7) 1 (-3) 1 1 None 0; mkMod 1 None 3 22 3 1 None 11]
          spec_success.
Proof. vm_compute. repeat split; reflexivity. Qed.

Print Assumptions C19_source_tables.
Print Assumptions C19_convert_total.
Print Assumptions C19_build_never_aborts.
Print Assumptions C19_entry_emitted_iff_wellformed.
Print Assumptions C19_wellformed_iff_one.
Print Assumptions C19_wellformed_functional.
Print Assumptions C19_malformed_counted.
Print Assumptions C19_build_refines_spec.
Print Assumptions C19_spec_deterministic.
Print Assumptions C19_only_valid_emitted.
Print Assumptions C19_status_law.
Print Assumptions C19_empty_info.
