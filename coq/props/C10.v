(* C10 — Valid use never produces an internal error (partial): every container,
   fleet and solar-system call can only raise the exceptions documented for it,
   and a failed partial operation of either layer is never masked. That no
   partial operation fails on valid use is checked on every operation of every
   explored history. *)
From Coq Require Import List ZArith.
From EosV Require Import model.World model.Ops proofs.Misc_p proofs.Exn_p.
Import ListNotations.

Theorem C10_rack_append_exn : forall s f k i, exn_in [XType; XValue] (snd (rack_append s f k i)).
Proof. exact rack_append_exn. Qed.
Theorem C10_rack_insert_exn : forall s f k idx v, exn_in [XType; XValue] (snd (rack_insert s f k idx v)).
Proof. exact rack_insert_exn. Qed.
Theorem C10_rack_place_exn : forall s f k idx i,
  exn_in [XType; XValue; XSlotTaken; XIndex] (snd (rack_place s f k idx i)).
Proof. exact rack_place_exn. Qed.
Theorem C10_rack_equip_exn : forall s f k i, exn_in [XType; XValue] (snd (rack_equip s f k i)).
Proof. exact rack_equip_exn. Qed.
Theorem C10_rack_remove_exn : forall s f k a, exn_in [XValue; XIndex] (snd (rack_remove s f k a)).
Proof. exact rack_remove_exn. Qed.
Theorem C10_rack_free_exn : forall s f k a, exn_in [XValue; XIndex] (snd (rack_free s f k a)).
Proof. exact rack_free_exn. Qed.
Theorem C10_set_add_exn : forall s f k i, exn_in [XType; XValue] (snd (itemset_add s f k i)).
Proof. exact itemset_add_exn. Qed.
Theorem C10_set_remove_exn : forall s f k i, exn_in [XKey] (snd (set_remove_op s f k i)).
Proof. exact set_remove_exn. Qed.
Theorem C10_fleet_add_exn : forall s fl f, exn_in [XValue] (snd (fleet_add_op s fl f)).
Proof. exact fleet_add_exn. Qed.
Theorem C10_fleet_remove_exn : forall s fl f, exn_in [XKey] (snd (fleet_remove_op s fl f)).
Proof. exact fleet_remove_exn. Qed.
Theorem C10_solsys_add_exn : forall s x f, exn_in [XValue] (snd (solsys_add_op s x f)).
Proof. exact solsys_add_exn. Qed.
Theorem C10_solsys_remove_exn : forall s x f, exn_in [XKey] (snd (solsys_remove_op s x f)).
Proof. exact solsys_remove_exn. Qed.

Theorem C10_md_failure_reported : forall x o e,
  w_err (s_w (fst (step x o))) = Some e -> snd (step x o) = RExn (XInternal e).
Proof. exact step_reports_md_failure. Qed.
Theorem C10_service_failure_reported : forall x o e,
  w_err (s_w (fst (step x o))) = None -> d_err (s_d (fst (step x o))) = Some e ->
  snd (step x o) = RExn (XInternal e).
Proof. exact step_reports_service_failure. Qed.

(* ---- one table for the whole public surface of the model: [documented_call o] lists the exceptions operation
   o may answer with (the rows are those of eos's doc strings, as harness/eng_impl.ALLOWED has them per call).
   Every call answers with a value, an exception of its row, or an internal error -- never with an exception of
   another row. What remains of C10 after this theorem is exactly: no internal error on valid use
   (C10_md_failure_reported / C10_service_failure_reported say that none is ever masked). ---- *)
Theorem C10_every_call_answers_within_its_row : forall x o,
  is_internal (snd (step x o)) = true \/ exn_in (documented_call o) (snd (step x o)).
Proof. exact step_exn. Qed.
Theorem C10_base_layer_answers_within_its_row : forall w o, exn_in (documented o) (snd (md_op w o)).
Proof. exact md_op_exn. Qed.

Example C10_nonvacuous :
  snd (rack_append (empty_world, []) 1 RHigh 7) = RExn XType.
Proof. reflexivity. Qed.

Print Assumptions C10_rack_append_exn.
Print Assumptions C10_rack_insert_exn.
Print Assumptions C10_rack_place_exn.
Print Assumptions C10_rack_equip_exn.
Print Assumptions C10_rack_remove_exn.
Print Assumptions C10_rack_free_exn.
Print Assumptions C10_set_add_exn.
Print Assumptions C10_set_remove_exn.
Print Assumptions C10_fleet_add_exn.
Print Assumptions C10_fleet_remove_exn.
Print Assumptions C10_solsys_add_exn.
Print Assumptions C10_solsys_remove_exn.
Print Assumptions C10_md_failure_reported.
Print Assumptions C10_service_failure_reported.
Print Assumptions C10_every_call_answers_within_its_row.
Print Assumptions C10_base_layer_answers_within_its_row.
