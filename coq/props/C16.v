(* C16 -- A damaged cache file is detected and never half-used.
   The byte layer (open + bz2 + UTF-8 + json.loads) is not modelled; the
   theorems quantify over its RESULT p : option J (None = absent file or any
   exception while reading/parsing).  Statements only; proofs in
   proofs/CacheCodec_p.v and proofs/SourceMgr_p.v. *)
From Coq Require Import ZArith QArith List String Bool.
From EosV Require Import model.CacheCodec model.SourceMgr gen.T_cache gen.T_srcmgr
     proofs.CacheCodec_p proofs.SourceMgr_p.
Import ListNotations.
Local Open Scope string_scope.
Local Open Scope list_scope.

(* for EVERY parse result, including well-formed JSON of the wrong shape:
   the constructor does not raise, and the handler is either empty with no
   fingerprint, or holds the complete decoding of the file under the file's
   fingerprint *)
Theorem C16_load_total_and_atomic :
  forall cust_e cust_t (p : option J),
  exists st,
    construct cust_e cust_t gen_tables gen_ctors gen_load p = (st, None) /\
    (st = empty_state /\ st_fp st = JNull \/
     exists data, p = Some data /\
                  decode cust_e cust_t gen_tables gen_ctors data = Ok st /\
                  py_key data "fingerprint" = Ok (st_fp st)).
Proof. exact load_total_and_atomic_p. Qed.

(* which of the two: complete iff the whole file decodes *)
Theorem C16_load_cases :
  forall cust_e cust_t (p : option J),
    construct cust_e cust_t gen_tables gen_ctors gen_load p =
    match p with
    | None => (empty_state, None)
    | Some data => match decode cust_e cust_t gen_tables gen_ctors data with
                   | Ok st => (st, None)
                   | Raise _ => (empty_state, None)
                   end
    end.
Proof. exact construct_cases. Qed.

(* the memory update itself (also on the writer): from any previous state it
   completes with exactly the decoding, or raises *)
Theorem C16_update_memory_all_or_raise :
  forall cust_e cust_t st0 data,
    match decode cust_e cust_t gen_tables gen_ctors data with
    | Ok st => update_memory cust_e cust_t gen_tables gen_ctors st0 data = (st, None)
    | Raise _ => exists st e,
        update_memory cust_e cust_t gen_tables gen_ctors st0 data = (st, Some e)
    end.
Proof. exact update_memory_spec. Qed.

(* an update that raises (also update_cache on the writer, given objects that
   do not form a consistent set) never leaves a fingerprint over partial data *)
Theorem C16_failed_update_leaves_no_fingerprint :
  forall cust_e cust_t st0 data st e,
    update_memory cust_e cust_t gen_tables gen_ctors st0 data = (st, Some e) ->
    st_fp st = JNull.
Proof. exact failed_update_no_fingerprint. Qed.

Theorem C16_loader_shape :
  load_ok gen_load = true /\
  all_cleared_before_fill (tb_steps gen_tables) = true /\
  fills_then_fingerprint (tb_steps gen_tables) = true.
Proof.
  split; [exact loader_shape_ok|exact memory_update_steps_ok].
Qed.

(* with C17: an empty handler makes SourceManager.add regenerate the cache *)
Theorem C16_manager_rebuilds_on_empty :
  forall (data objs : Type) (build : data -> objs) engine
         (st : mstate objs) a dh h md,
    lookup a (ms_sources _ st) = None ->
    ch_fp _ (get_h objs (ms_handlers _ st) h) = JNull ->
    snd (add data objs build engine gen_mgr st a dh h md) = Added true.
Proof. exact rebuilds_on_empty_p. Qed.

(* ---- non-vacuity: wrong-shaped but well-formed payloads ---- *)
Definition idc (e : effect) := e.
Definition idt (t : typ) := t.
Definition good_payload : J :=
  JDict [("types", JList [JList [JInt 1; JNull; JNull; JList []; JList [JInt 5]; JInt 5;
                                 JList []; JList []]]);
         ("attrs", JList [JList [JInt 9; JNull; JNum (1#2); JBool true; JBool false]]);
         ("effects", JList [JList [JInt 5; JInt 1; JBool false; JBool false; JNull; JNull; JNull;
                                   JNull; JNull; JNull; JNull; JInt 1; JList []]]);
         ("buff_templates", JList []);
         ("fingerprint", JStr "v_e")].

Example C16_nonvacuous :
  (* {} : KeyError inside the guarded block -> empty *)
  construct idc idt gen_tables gen_ctors gen_load (Some (JDict [])) = (empty_state, None) /\
  (* effects fine, then a type of wrong arity: the partial fill is discarded *)
  construct idc idt gen_tables gen_ctors gen_load
    (Some (JDict [("effects", JList [JList [JInt 5; JInt 1; JBool false; JBool false; JNull; JNull;
                                            JNull; JNull; JNull; JNull; JNull; JInt 1; JList []]]);
                  ("types", JList [JList [JInt 1]]); ("attrs", JList []);
                  ("buff_templates", JList []); ("fingerprint", JStr "v_e")]))
  = (empty_state, None) /\
  (* a type that names an effect the file does not contain *)
  construct idc idt gen_tables gen_ctors gen_load
    (Some (JDict [("effects", JList []);
                  ("types", JList [JList [JInt 1; JNull; JNull; JList []; JList [JInt 5]; JNull;
                                          JList []; JList []]]); ("attrs", JList []);
                  ("buff_templates", JList []); ("fingerprint", JStr "v_e")]))
  = (empty_state, None) /\
  (* fingerprint key missing: everything filled, then discarded *)
  construct idc idt gen_tables gen_ctors gen_load
    (Some (JDict [("effects", JList []); ("types", JList []); ("attrs", JList []);
                  ("buff_templates", JList [])])) = (empty_state, None) /\
  (* not a dict *)
  construct idc idt gen_tables gen_ctors gen_load (Some (JList [])) = (empty_state, None) /\
  construct idc idt gen_tables gen_ctors gen_load None = (empty_state, None) /\
  (* a good file is used, completely *)
  (exists st, construct idc idt gen_tables gen_ctors gen_load (Some good_payload) = (st, None) /\
              st_fp st = JStr "v_e" /\ List.length (st_types st) = 1%nat /\
              List.length (st_effects st) = 1%nat /\ List.length (st_attrs st) = 1%nat).
Proof.
  repeat (split; [vm_compute; reflexivity|]).
  eexists. split; [vm_compute; reflexivity|]. repeat split.
Qed.

Print Assumptions C16_load_total_and_atomic.
Print Assumptions C16_load_cases.
Print Assumptions C16_update_memory_all_or_raise.
Print Assumptions C16_failed_update_leaves_no_fingerprint.
Print Assumptions C16_loader_shape.
Print Assumptions C16_manager_rebuilds_on_empty.
