(* C18 -- The data build keeps exactly what is reachable and leaves nothing
   dangling.  Statements only; proofs are in proofs/Builder_p.v; the model is
   model/Builder.v over the tables of gen/T_builder.v (regenerated from
   eos/eve_obj_builder/*.py on every run). *)
From Coq Require Import ZArith QArith List String Bool Arith Permutation.
From EosV Require Import gen.T_builder model.Builder proofs.Builder_p.
Import ListNotations.
Local Close Scope Q_scope.
Local Open Scope nat_scope.

(* ---------------------------------------------------------------- *)
(* kept = closure (for every data set d, every fuel)                  *)
(* ---------------------------------------------------------------- *)

(* soundness: a row the cleaner keeps is reachable from a strong row (a type
   of a supported category/group) through the cleaner's reference relation *)
Theorem C18_clean_sound :
  forall d fuel k, clean_fuel fuel d = Some k -> forall t r, In r (k t) -> reach d t r.
Proof. exact clean_sound. Qed.

(* completeness: every row of the data set that a kept row refers to is kept *)
Theorem C18_clean_complete :
  forall d fuel k, clean_fuel fuel d = Some k -> forall t r t' r',
    In r (k t) -> wants t r t' r' -> In r' (d t') -> In r' (k t').
Proof. exact clean_complete. Qed.

Theorem C18_clean_keeps_strong :
  forall d fuel k, clean_fuel fuel d = Some k -> forall r,
    In r (d T_evetypes) -> strongp d T_evetypes r = true -> In r (k T_evetypes).
Proof. exact clean_keeps_strong. Qed.

Theorem C18_clean_eq_closure :
  forall d fuel k, clean_fuel fuel d = Some k -> forall t r, (In r (k t) <-> reach d t r).
Proof. exact clean_eq_closure. Qed.

(* kept rows are rows of the data set, none twice *)
Theorem C18_clean_subset :
  forall d fuel k, clean_fuel fuel d = Some k -> forall t r, In r (k t) -> In r (d t).
Proof. exact clean_subset. Qed.

(* ---------------------------------------------------------------- *)
(* termination of the clean-up loop                                   *)
(* ---------------------------------------------------------------- *)

(* a pass that reports a change restores at least one row *)
Theorem C18_round_progress :
  forall st, snd (round st) = true -> trash_count (fst (round st)) < trash_count st.
Proof. exact round_progress. Qed.

(* a pass that reports no change leaves nothing wanted in the trash *)
Theorem C18_round_fixpoint :
  forall st, snd (round st) = false -> closed (fst (round st)).
Proof. exact round_false_closed. Qed.

(* fuel above the number of rows suffices; the model's clean uses S (total d) *)
Theorem C18_clean_terminates :
  forall d fuel, total d < fuel -> clean_fuel fuel d <> None.
Proof. exact clean_fuel_enough. Qed.

Theorem C18_clean_total : forall d, clean d <> None.
Proof. exact clean_total. Qed.

Theorem C18_fuel_irrelevant :
  forall f st st', autoclean f st = Some st' -> forall f', f <= f' -> autoclean f' st = Some st'.
Proof. exact autoclean_mono. Qed.

(* ---------------------------------------------------------------- *)
(* first row wins                                                     *)
(* ---------------------------------------------------------------- *)

(* duplicate / non-integer primary keys: a row survives pre-clean validation
   iff all its key fields are integers and no row with the same key has a
   smaller table position *)
Theorem C18_first_row_wins_pk :
  forall rw t pks a, pk_of t gen_pk_spec = Some pks ->
    (In a (preclean (load rw) t) <->
     In a (load rw t) /\
     exists k, row_pk pks a = Some k /\
               forall b, In b (load rw t) -> row_pk pks b = Some k -> posn a <= posn b).
Proof. exact preclean_first_row_wins. Qed.

Theorem C18_pk_unique_after_preclean :
  forall rw t pks a b k, pk_of t gen_pk_spec = Some pks ->
    In a (preclean (load rw) t) -> In b (preclean (load rw) t) ->
    row_pk pks a = Some k -> row_pk pks b = Some k -> a = b.
Proof. exact preclean_pk_unique. Qed.

(* surplus default effects: the row that is still default after validation is
   the first (truthy-)default row of its type among the cleaned rows *)
Theorem C18_first_default_wins :
  forall rw d4 x k, final_data rw = Built d4 ->
    In x (d4 T_dgmtypeeffects) -> key_default x = Some k ->
    exists d3, cleaned rw = Some d3 /\ In x (d3 T_dgmtypeeffects) /\
      forall b, In b (d3 T_dgmtypeeffects) -> key_default b = Some k -> posn x <= posn b.
Proof. intros rw d4 x k. apply final_default_first. apply load_wf. Qed.

(* surplus rack effects: the surviving rack row is the first one of its type *)
Theorem C18_first_rack_wins :
  forall rw d4 x k, final_data rw = Built d4 ->
    In x (d4 T_dgmtypeeffects) -> key_rack x = Some k ->
    exists d3, cleaned rw = Some d3 /\
      forall b, In b (d3 T_dgmtypeeffects) -> key_rack b = Some k -> posn x <= posn b.
Proof. intros rw d4 x k. apply final_rack_first. apply load_wf. Qed.

(* ---------------------------------------------------------------- *)
(* at most one default effect and one rack effect per type            *)
(* ---------------------------------------------------------------- *)

Theorem C18_at_most_one_default :
  forall rw d4 x y k, final_data rw = Built d4 ->
    In x (d4 T_dgmtypeeffects) -> In y (d4 T_dgmtypeeffects) ->
    key_default x = Some k -> key_default y = Some k -> x = y.
Proof. intros rw d4 x y k. apply final_one_default. apply load_wf. Qed.

Theorem C18_at_most_one_rack :
  forall rw d4 x y k, final_data rw = Built d4 ->
    In x (d4 T_dgmtypeeffects) -> In y (d4 T_dgmtypeeffects) ->
    key_rack x = Some k -> key_rack y = Some k -> x = y.
Proof. intros rw d4 x y k. apply final_one_rack. apply load_wf. Qed.

Theorem C18_built_type_one_rack_effect :
  forall rw b, run rw = Built b -> forall bt e1 e2, In bt (b_types b) ->
    In e1 (bt_effects bt) -> In e2 (bt_effects bt) ->
    memz e1 gen_rack_effects = true -> memz e2 gen_rack_effects = true -> e1 = e2.
Proof. exact built_one_rack. Qed.

(* ---------------------------------------------------------------- *)
(* nothing dangling: a built object names id z, the raw data has a row
   with that integer key  ==>  the object / row z is built           *)
(* ---------------------------------------------------------------- *)

Theorem C18_no_dangling_effect_attr :
  forall rw b, run rw = Built b -> forall e arg v z,
    In e (b_effects b) -> In (arg, Some v) (be_args e) -> refkey v = Some z ->
    raw_has rw T_dgmattribs "attributeID" z ->
    exists a, In a (b_attrs b) /\ ba_id a = z.
Proof. exact nd_effect_attr. Qed.

Theorem C18_no_dangling_attr_max :
  forall rw b, run rw = Built b -> forall a arg v z,
    In a (b_attrs b) -> In (arg, Some v) (ba_args a) -> refkey v = Some z ->
    raw_has rw T_dgmattribs "attributeID" z ->
    exists a', In a' (b_attrs b) /\ ba_id a' = z.
Proof. exact nd_attr_max. Qed.

Theorem C18_no_dangling_type_attr :
  forall rw b, run rw = Built b -> forall bt a v,
    In bt (b_types b) -> In (a, v) (bt_attrs bt) ->
    raw_has rw T_dgmattribs "attributeID" a ->
    exists a', In a' (b_attrs b) /\ ba_id a' = a.
Proof. exact nd_type_attr. Qed.

Theorem C18_no_dangling_type_skill :
  forall rw b, run rw = Built b -> forall bt s v,
    In bt (b_types b) -> In (s, v) (bt_skills bt) -> raw_has rw T_evetypes "typeID" s ->
    exists bt', In bt' (b_types b) /\ bt_id bt' = s.
Proof. exact nd_type_skill. Qed.

Theorem C18_no_dangling_type_autocharge :
  forall rw b, run rw = Built b -> forall bt a v z,
    In bt (b_types b) -> In (a, v) (bt_attrs bt) -> memz a gen_autocharge_attrs = true ->
    pyint v = Some z -> raw_has rw T_evetypes "typeID" z ->
    exists bt', In bt' (b_types b) /\ bt_id bt' = z.
Proof. exact nd_type_autocharge. Qed.

Theorem C18_no_dangling_type_buff :
  forall rw b, run rw = Built b -> forall bt a v z,
    In bt (b_types b) -> In (a, v) (bt_attrs bt) -> memz a gen_buffattr_attrs = true ->
    pyint v = Some z -> raw_has rw T_dbuffcollections "buffID" z ->
    exists d4 r', final_data rw = Built d4 /\ In r' (d4 T_dbuffcollections) /\
                  colkey r' "buffID" = Some z.
Proof. exact nd_type_buff. Qed.

Theorem C18_no_dangling_type_group :
  forall rw b, run rw = Built b -> forall bt gv g,
    In bt (b_types b) -> bt_group bt = Some gv -> refkey gv = Some g ->
    raw_has rw T_evegroups "groupID" g ->
    exists d4 r', final_data rw = Built d4 /\ In r' (d4 T_evegroups) /\
                  colkey r' "groupID" = Some g.
Proof. exact nd_type_group. Qed.

Theorem C18_no_dangling_effect_modifier_info :
  forall rw b, run rw = Built b -> forall e t' c z,
    In e (b_effects b) -> In (t', c, z) (be_modrefs e) ->
    pk_of t' gen_pk_spec = Some [c] -> t' <> T_dgmtypeattribs -> t' <> T_dgmtypeeffects ->
    raw_has rw t' c z ->
    exists d4 r', final_data rw = Built d4 /\ In r' (d4 t') /\ colkey r' c = Some z.
Proof. exact nd_effect_modref. Qed.

Theorem C18_no_dangling_buff_template_attr :
  forall rw b, run rw = Built b -> forall tp z,
    In tp (b_buffs b) -> s_refkey (bb_attr tp) = Some z ->
    raw_has rw T_dgmattribs "attributeID" z ->
    exists a, In a (b_attrs b) /\ ba_id a = z.
Proof. exact nd_buff_attr. Qed.

Theorem C18_no_dangling_buff_template_skill :
  forall rw b, run rw = Built b -> forall tp x z,
    In tp (b_buffs b) -> bb_filter tp = "domain_skillrq"%string -> bb_extra tp = Some x ->
    s_refkey x = Some z -> raw_has rw T_evetypes "typeID" z ->
    exists bt, In bt (b_types b) /\ bt_id bt = z.
Proof. exact nd_buff_skill. Qed.

(* ---------------------------------------------------------------- *)
(* independence of iteration order                                    *)
(* ---------------------------------------------------------------- *)

(* every set handed from one stage to the next may be iterated in any order
   (sh k d t is any permutation of d t): the converter receives the same row
   sets, or the run fails in the same way *)
Theorem C18_perm_invariant_rows :
  forall (sh : nat -> data -> data) rw,
    (forall n d t, Permutation (sh n d t) (d t)) ->
    match final_data rw, pipeline_sh sh (load rw) with
    | Built x, Built y => forall t r, In r (x t) <-> In r (y t)
    | Crash e, Crash e' => e = e'
    | _, _ => False
    end.
Proof. exact final_data_sh_same. Qed.

(* equal row sets give the same built type / attribute / effect ids *)
Theorem C18_perm_invariant_ids :
  forall d d' b b',
    (forall t r, In r (d t) <-> In r (d' t)) -> convert d = Built b -> convert d' = Built b' ->
    (forall z, (exists a, In a (b_attrs b) /\ ba_id a = z) <->
               (exists a, In a (b_attrs b') /\ ba_id a = z)) /\
    (forall z, (exists e, In e (b_effects b) /\ be_id e = z) <->
               (exists e, In e (b_effects b') /\ be_id e = z)) /\
    (forall z, (exists t, In t (b_types b) /\ bt_id t = z) <->
               (exists t, In t (b_types b') /\ bt_id t = z)).
Proof. exact convert_ids_same. Qed.

(* the clean-up result as a set does not depend on the order of the rows *)
Theorem C18_clean_perm_invariant :
  forall d d' k k', (forall t r, In r (d t) <-> In r (d' t)) ->
    clean d = Some k -> clean d' = Some k' -> forall t r, In r (k t) <-> In r (k' t).
Proof. exact clean_same. Qed.

(* ---------------------------------------------------------------- *)
(* obligations on the tables translated from the current source      *)
(* ---------------------------------------------------------------- *)

(* every attribute-id argument of Effect()/Attribute() is read from a field
   that is in the cleaner's foreign-key table (fails when the cleaner follows
   resistanceID and the converter reads resistanceAttributeID) *)
Theorem C18_table_converter_refs_followed :
  (forall f, In f effect_ref_fields ->
             In (T_dgmeffects, f, T_dgmattribs, "attributeID"%string) gen_foreign_keys) /\
  (forall f, In f attr_ref_fields ->
             In (T_dgmattribs, f, T_dgmattribs, "attributeID"%string) gen_foreign_keys) /\
  List.length effect_ref_fields = 7 /\ List.length attr_ref_fields = 1.
Proof.
  split; [|split].
  - intros f H. apply fk_mem_In. pose proof ob_effect_ref_fields_fk as O.
    rewrite forallb_forall in O. auto.
  - intros f H. apply fk_mem_In. pose proof ob_attr_ref_fields_fk as O.
    rewrite forallb_forall in O. auto.
  - exact ob_ref_fields_complete.
Qed.

(* every foreign key the cleaner follows is a field the converter reads *)
Theorem C18_table_fk_read_by_converter :
  forall st sc ttb tc, In (st, sc, ttb, tc) gen_foreign_keys -> In sc (conv_reads st).
Proof.
  intros st sc ttb tc H. pose proof ob_fk_read_by_converter as O.
  rewrite forallb_forall in O. specialize (O _ H). simpl in O.
  unfold mems in O. apply existsb_exists in O. destruct O as [x [H1 H2]].
  apply String.eqb_eq in H2. subst. auto.
Qed.

(* int() failures the cleaner survives: TypeError, ValueError, OverflowError *)
Theorem C18_table_int_catches :
  forall l, In l [gen_autocharge_catches; gen_buffattr_catches; gen_modinfo_int_catches] ->
  forall e, In e ["TypeError"; "ValueError"; "OverflowError"]%string -> In e l.
Proof.
  intros l Hl e He. pose proof ob_int_catches as O. rewrite forallb_forall in O.
  specialize (O l Hl). rewrite forallb_forall in O. specialize (O e He).
  unfold mems in O. apply existsb_exists in O. destruct O as [x [H1 H2]].
  apply String.eqb_eq in H2. subst. auto.
Qed.

(* the supported categories (charge, drone, fighter, implant, module, ship,
   skill, subsystem) and groups (character, effect beacon) *)
Theorem C18_table_supported :
  (forall c, In c gen_strong_categories <-> In c [8; 18; 87; 20; 7; 6; 16; 32]%Z) /\
  (forall g, In g gen_strong_groups <-> In g [1; 920]%Z).
Proof. exact ob_strong. Qed.

(* ---------------------------------------------------------------- *)
(* non-vacuity                                                        *)
(* ---------------------------------------------------------------- *)

Definition I (z : Z) : value := VS (SInt z).
Definition B (b : bool) : value := VS (SBool b).
Definition F (s : string) (v : value) : string * value := (s, v).

(* one ship (type 1, group 5 of category 6) needing skill 2, which needs skill 3
   (two rounds of the loop); type 4 unreferenced; a second row for typeID 1;
   attributes 10 -> max 11, 13 as resistance attribute, 12 unreferenced; effect
   30 (default), a second default row, two rack effects (12 first, 13 second),
   effect 31 unreferenced *)
Definition ex_raw : raw := fun t =>
  match t with
  | T_evegroups => [[F "groupID" (I 5); F "categoryID" (I 6)];
                    [F "groupID" (I 9); F "categoryID" (I 2)]]
  | T_evetypes => [[F "typeID" (I 1); F "groupID" (I 5)]; [F "typeID" (I 2); F "groupID" (I 9)];
                   [F "typeID" (I 3); F "groupID" (I 9)]; [F "typeID" (I 4); F "groupID" (I 9)];
                   [F "typeID" (I 1); F "groupID" (I 9)]]
  | T_dgmattribs => [[F "attributeID" (I 10); F "maxAttributeID" (I 11)];
                     [F "attributeID" (I 11)]; [F "attributeID" (I 12)]; [F "attributeID" (I 13)]]
  | T_dgmtypeattribs => [[F "typeID" (I 1); F "attributeID" (I 10); F "value" (VS (SFlt 5))]]
  | T_dgmeffects => [[F "effectID" (I 30); F "resistanceAttributeID" (I 13)];
                     [F "effectID" (I 12)]; [F "effectID" (I 13)]; [F "effectID" (I 31)]]
  | T_dgmtypeeffects => [[F "typeID" (I 1); F "effectID" (I 30); F "isDefault" (B true)];
                         [F "typeID" (I 1); F "effectID" (I 12); F "isDefault" (B true)];
                         [F "typeID" (I 1); F "effectID" (I 13); F "isDefault" (B false)]]
  | T_skillreqs => [[F "typeID" (I 1); F "skillTypeID" (I 2); F "level" (I 1)];
                    [F "typeID" (I 2); F "skillTypeID" (I 3); F "level" (I 1)]]
  | _ => []
  end.

Definition ids (b : built) :=
  (map bt_id (b_types b), map ba_id (b_attrs b), map be_id (b_effects b),
   map (fun t => (bt_id t, bt_effects t, bt_default t)) (b_types b)).

Example C18_nonvacuous :
  match run ex_raw with
  | Built b => ids b = ([1; 2; 3]%Z, [10; 11; 13]%Z, [30; 12; 13]%Z,
                        [(1, [30; 12], Some 30); (2, [], None); (3, [], None)]%Z)
  | _ => False
  end.
Proof. vm_compute. reflexivity. Qed.

(* the loop really iterates: one pass is not enough for the example *)
Example C18_nonvacuous_rounds :
  let d := normalize (preclean (load ex_raw)) in
  clean_fuel 1 d = None /\ clean_fuel 2 d = None /\
  match clean_fuel 3 d with Some k => List.length (k T_evetypes) = 3 | None => False end.
Proof. vm_compute. repeat split; reflexivity. Qed.

(* What is NOT true, and why the closure is stated over the cleaned rows: a
   built effect need not be carried by any built type.  The second rack row
   (type 1, effect 13) keeps effect 13 alive during cleaning and is removed
   only afterwards, by the pre-conversion validation. *)
Definition built_effects_all_carried_full : Prop :=
  forall rw b e, run rw = Built b -> In e (b_effects b) ->
    exists bt, In bt (b_types b) /\ In (be_id e) (bt_effects bt).

Theorem C18_built_effects_all_carried_refuted : ~ built_effects_all_carried_full.
Proof.
  intros H.
  destruct (run ex_raw) as [b| |] eqn:R; [|vm_compute in R; discriminate|vm_compute in R; discriminate].
  assert (E : existsb (fun e => Z.eqb (be_id e) 13) (b_effects b) = true /\
              forallb (fun bt => negb (memz 13 (bt_effects bt))) (b_types b) = true).
  { vm_compute in R. inversion R. vm_compute. split; reflexivity. }
  destruct E as [E1 E2]. apply existsb_exists in E1. destruct E1 as [e [He Ke]].
  apply Z.eqb_eq in Ke. destruct (H ex_raw b e R He) as [bt [Hb Hc]].
  rewrite forallb_forall in E2. specialize (E2 bt Hb). rewrite Ke in Hc.
  apply memz_In in Hc. rewrite Hc in E2. discriminate.
Qed.

Print Assumptions C18_clean_sound.
Print Assumptions C18_clean_complete.
Print Assumptions C18_clean_keeps_strong.
Print Assumptions C18_clean_eq_closure.
Print Assumptions C18_clean_subset.
Print Assumptions C18_round_progress.
Print Assumptions C18_round_fixpoint.
Print Assumptions C18_clean_terminates.
Print Assumptions C18_clean_total.
Print Assumptions C18_fuel_irrelevant.
Print Assumptions C18_first_row_wins_pk.
Print Assumptions C18_pk_unique_after_preclean.
Print Assumptions C18_first_default_wins.
Print Assumptions C18_first_rack_wins.
Print Assumptions C18_at_most_one_default.
Print Assumptions C18_at_most_one_rack.
Print Assumptions C18_built_type_one_rack_effect.
Print Assumptions C18_no_dangling_effect_attr.
Print Assumptions C18_no_dangling_attr_max.
Print Assumptions C18_no_dangling_type_attr.
Print Assumptions C18_no_dangling_type_skill.
Print Assumptions C18_no_dangling_type_autocharge.
Print Assumptions C18_no_dangling_type_buff.
Print Assumptions C18_no_dangling_type_group.
Print Assumptions C18_no_dangling_effect_modifier_info.
Print Assumptions C18_no_dangling_buff_template_attr.
Print Assumptions C18_no_dangling_buff_template_skill.
Print Assumptions C18_perm_invariant_rows.
Print Assumptions C18_perm_invariant_ids.
Print Assumptions C18_clean_perm_invariant.
Print Assumptions C18_table_converter_refs_followed.
Print Assumptions C18_table_fk_read_by_converter.
Print Assumptions C18_table_int_catches.
Print Assumptions C18_table_supported.
Print Assumptions C18_built_effects_all_carried_refuted.
