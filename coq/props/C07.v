(* C07 — Containers keep ownership and ordering invariants. Statements only;
   proofs in proofs/Rack_p.v, Frame_p.v, Containers_p.v, Owner_p.v, Cinv_p.v. *)
From Coq Require Import ZArith QArith List Bool Permutation.
From EosV Require Import lib.AList gen.T_eos model.World model.Engine model.Ops model.Wf proofs.Rack_p proofs.Frame_p
     proofs.Containers_p proofs.Owner_p proofs.Cinv_p proofs.Runs_p proofs.RunsC_p proofs.RunsK_p proofs.RunsD_p.
Import ListNotations.

(* no trailing holes remain; trimming changes neither items nor their positions *)
Theorem C07_cleanup_no_trailing_hole : forall l, no_trailing_hole (cleanup l).
Proof. exact cleanup_no_trailing_hole. Qed.
Theorem C07_cleanup_keeps_items : forall l, rack_items (cleanup l) = rack_items l.
Proof. exact cleanup_items. Qed.
Theorem C07_cleanup_keeps_positions : forall l n i,
  nth_error l n = Some (Some i) -> nth_error (cleanup l) n = Some (Some i).
Proof. exact cleanup_nth_item. Qed.
Theorem C07_cleanup_adds_nothing : forall l n x, nth_error (cleanup l) n = Some x -> nth_error l n = Some x.
Proof. exact cleanup_nth. Qed.

(* equip fills the first hole, otherwise appends *)
Theorem C07_equip_fills_first_hole : forall l i n,
  find_index is_hole l = Some n ->
  equip_list l i = (list_set l n (Some i), n) /\ nth_error l n = Some None /\
  (forall m, (m < n)%nat -> exists j, nth_error l m = Some (Some j)).
Proof. exact equip_first_hole. Qed.
Theorem C07_equip_appends_without_hole : forall l i,
  find_index is_hole l = None -> equip_list l i = (l ++ [Some i], length l).
Proof. exact equip_no_hole. Qed.

(* place / free touch one position only *)
Theorem C07_place_free_keep_positions : forall (l : rack) n m x,
  n <> m -> nth_error (list_set l n x) m = nth_error l m.
Proof. intros; now apply list_set_other. Qed.

(* insert / remove shift only the tail *)
Theorem C07_remove_keeps_head : forall (l : rack) n m, (m < n)%nat -> nth_error (list_del l n) m = nth_error l m.
Proof. intros; now apply list_del_before. Qed.
Theorem C07_remove_shifts_tail : forall (l : rack) n m, (n <= m)%nat -> (n < length l)%nat ->
  nth_error (list_del l n) m = nth_error l (S m).
Proof. intros; now apply list_del_after. Qed.
Theorem C07_insert_keeps_head : forall (l : rack) n m x, (m < n)%nat -> (n <= length l)%nat ->
  nth_error (list_ins l n x) m = nth_error l m.
Proof. intros; now apply list_ins_before. Qed.
Theorem C07_insert_shifts_tail : forall (l : rack) n m x, (n <= m)%nat -> (n <= length l)%nat ->
  nth_error (list_ins l n x) (S m) = nth_error l m.
Proof. intros; now apply list_ins_after. Qed.
Theorem C07_insert_puts_value : forall (l : rack) n x, (n <= length l)%nat -> nth_error (list_ins l n x) n = Some x.
Proof. intros; now apply list_ins_at. Qed.

(* membership changes by exactly the item concerned *)
Theorem C07_fill_adds_exactly : forall (l : rack) n i, nth_error l n = Some None ->
  Permutation (rack_items (list_set l n (Some i))) (i :: rack_items l).
Proof. exact items_set_fill. Qed.
Theorem C07_free_removes_exactly : forall (l : rack) n i, nth_error l n = Some (Some i) ->
  Permutation (i :: rack_items (list_set l n None)) (rack_items l).
Proof. exact items_set_empty. Qed.
Theorem C07_remove_removes_exactly : forall (l : rack) n i, nth_error l n = Some (Some i) ->
  Permutation (i :: rack_items (list_del l n)) (rack_items l).
Proof. exact items_del. Qed.
Theorem C07_insert_adds_exactly : forall (l : rack) n i,
  Permutation (rack_items (list_ins l n (Some i))) (i :: rack_items l).
Proof. exact items_ins. Qed.

(* the world-level operations realise those list functions (refinement), for
   every world: loading, unloading and every message composed on the way never
   touch a container of any fit *)
Theorem C07_messages_never_touch_containers : forall n s i p,
  structure (fst (add_item n s i p)) = structure (fst s) /\
  structure (fst (remove_item n s i)) = structure (fst s) /\
  structure (fst (load n s i)) = structure (fst s) /\
  structure (fst (unload n s i)) = structure (fst s).
Proof.
  intros. repeat split; [apply S_add_item|apply S_remove_item|apply S_load|apply S_unload].
Qed.

Theorem C07_append_refines : forall s f k i s',
  has_fit (fst s) f -> rack_append s f k i = (s', ROk) ->
  get_rack (fst s') f k = get_rack (fst s) f k ++ [Some i].
Proof. exact rack_append_ok. Qed.
Theorem C07_insert_refines : forall s f k idx v s',
  has_fit (fst s) f -> rack_insert s f k idx v = (s', ROk) ->
  get_rack (fst s') f k =
  match v with
  | Some i => ins_list (get_rack (fst s) f k) idx (Some i)
  | None => cleanup (ins_list (get_rack (fst s) f k) idx None)
  end.
Proof. exact rack_insert_ok. Qed.
Theorem C07_equip_refines : forall s f k i s',
  has_fit (fst s) f -> rack_equip s f k i = (s', ROk) ->
  get_rack (fst s') f k = fst (equip_list (get_rack (fst s) f k) i).
Proof. exact rack_equip_ok. Qed.
Theorem C07_remove_refines : forall s f k a s',
  has_fit (fst s) f -> rack_remove s f k a = (s', ROk) ->
  exists n v, rack_locate (get_rack (fst s) f k) a = inl (n, v) /\
              get_rack (fst s') f k = cleanup (list_del (get_rack (fst s) f k) n).
Proof. exact rack_remove_ok. Qed.

(* ---- ownership: for every world and every fuel, attaching an item to a
   container sets exactly that item's container reference and detaching clears
   exactly it; loading, unloading, autocharge creation and removal, and every
   message composed on the way change no item's fit-level reference ---- *)
Theorem C07_add_sets_exactly_one_reference : forall n s i p it,
  J (fst s) -> get_item (fst s) i = Some it -> (racklike_of p <> None -> ~ childcls (i_cls it)) ->
  forall j, fitcont (fst (add_item (S n) s i p)) j = if Nat.eqb j i then racklike_of p else fitcont (fst s) j.
Proof. intros n s i p it Js Hi Hc. exact (proj1 (add_item_ownership n s i p it Js Hi Hc)). Qed.
Theorem C07_remove_clears_exactly_one_reference : forall n s i,
  J (fst s) ->
  forall j, fitcont (fst (remove_item (S n) s i)) j = if Nat.eqb j i then None else fitcont (fst s) j.
Proof. intros n s i Js. exact (proj1 (remove_item_ownership n s i Js)). Qed.
Theorem C07_load_unload_keep_references : forall n s i,
  J (fst s) ->
  (forall j, fitcont (fst (load n s i)) j = fitcont (fst s) j) /\
  (forall j, fitcont (fst (unload n s i)) j = fitcont (fst s) j).
Proof. intros n s i Js. split; [exact (proj1 (load_KEEP n s i Js))|exact (proj1 (unload_KEEP n s i Js))]. Qed.

(* ---- every history: from the empty system, after any sequence of public
   operations in which new ids are fresh and container calls name an existing
   fit (op_okb, evaluated by the extracted driver on every generated call):
   an item is listed by a slot / set / rack of a fit exactly when its own
   container reference names that container; no container lists an item
   twice; an item is in at most one place. Raising calls included. ---- *)
Theorem C07_containers_consistent_after_every_history : forall pen ops,
  ops_okb (init_sys pen) ops = true ->
  let w := s_w (run (init_sys pen) ops) in
  (forall p i, In i (members w p) <-> fitcont w i = Some p) /\
  (forall p, NoDup (members w p)) /\
  (forall p q i, In i (members w p) -> In i (members w q) -> p = q).
Proof.
  intros pen ops H w. pose proof (containers_consistent pen ops (ops_okb_ok ops _ H)) as C.
  split; [exact (proj1 (proj2 C))|split; [exact (proj2 (proj2 C))|]].
  intros p q i. now apply CI_one_place.
Qed.

(* each single operation keeps the invariant from any consistent world *)
Theorem C07_every_operation_keeps_consistency : forall w o,
  CI w -> op_okb w o = true -> CI (fst (fst (md_op w o))).
Proof. intros w o C H. apply md_op_CI; [exact C|now apply op_okb_ok]. Qed.

Definition c07c_universe : universe :=
  mkUniverse []
    [(EffectId_online, mkEffect 4 None None [] false None); (2001, mkEffect 1 None None [] false None);
     (2005, mkEffect 1 None None [] false (Some 900)); (2010, mkEffect 0 None None [] false None);
     (2012, mkEffect 0 None None [] false None)]
    [(3100, mkType None None [] [] None []);
     (3200, mkType None None [(900, (3300 # 1)%Q)] [EffectId_online; 2001; 2005] (Some 2001) []);
     (3300, mkType None None [] [2010] None []);
     (3400, mkType None None [] [2012] None [])]
    [].
Definition c07c_demo : list op :=
  [ ODefSource 1 c07c_universe; ONewSolsys 1; ONewItem 10 CShip 3100 1 0; ONewItem 12 CModHigh 3200 1 0;
    ONewItem 13 CCharge 3400 0 0;
    ONewFit 1 2; OSource 1 (Some 1%nat); OSolsysAdd 1 1; OSlot 1 SlShip (Some 10%nat);
    ORackAppend 1 RHigh 12; OCharge 12 (Some 13%nat); OState 12 State_active ]%Z.

(* the containers that items themselves are (a module's charge slot, every item's autocharge dictionary): after
   every clean history in flat worlds (op_okb3, see props/C05.v) an item names an item container exactly when
   that container lists it, no autocharge is listed twice, and an unloaded item holds no autocharges. Together
   with the theorem above: every container of the model -- slots, sets, racks of fits, charge slots and
   autocharge dictionaries of items -- agrees with the container references of the items, in both directions. *)
Theorem C07_item_containers_consistent_after_every_history : forall pen ops,
  ops_clean3b (init_sys pen) ops = true ->
  let w := s_w (run (init_sys pen) ops) in
  (forall c m, (exists cit, get_item w c = Some cit /\ i_cont cit = Some (PCharge m)) <->
               (exists mit, get_item w m = Some mit /\ i_charge mit = Some c)) /\
  (forall a m, (exists ait, get_item w a = Some ait /\ i_cont ait = Some (PAuto m)) <->
               (exists mit, get_item w m = Some mit /\ In a (map snd (i_autos mit)))) /\
  (forall m mit, get_item w m = Some mit -> NoDup (map snd (i_autos mit))) /\
  (forall i it, get_item w i = Some it -> i_loaded it = None -> i_autos it = []).
Proof. exact item_containers_consistent. Qed.

(* the fit sets of solar systems: a fit refers to solar system x exactly when x lists it, and no solar system
   lists a fit twice (so a fit is in at most one solar system) *)
Theorem C07_solar_system_fit_sets_consistent_after_every_history : forall pen ops,
  ops_clean3b (init_sys pen) ops = true ->
  let w := s_w (run (init_sys pen) ops) in
  (forall f x, fit_solsys w f = Some x <-> In f (ss_fit_list w x)) /\ (forall x, NoDup (ss_fit_list w x)).
Proof. exact solar_system_links_consistent. Qed.

(* the fit sets of fleets, likewise (a fit is in at most one fleet) *)
Theorem C07_fleet_fit_sets_consistent_after_every_history : forall pen ops,
  ops_clean3b (init_sys pen) ops = true ->
  let w := s_w (run (init_sys pen) ops) in
  (forall f fl, fit_fleet w f = Some fl <-> In f (fleet_fits w fl)) /\ (forall fl, NoDup (fleet_fits w fl)).
Proof. exact fleet_links_consistent. Qed.

(* non-vacuity: the history of props/C05.v (a module with a charge and an autocharge) is inside the hypothesis *)
Example C07_item_containers_nonvacuous :
  ops_clean3b (init_sys []) c07c_demo = true /\
  let w := s_w (run (init_sys []) c07c_demo) in
  match get_item w 12, get_item w 13, get_item w 1000 with
  | Some m, Some ch, Some au =>
    i_charge m = Some 13%nat /\ i_cont ch = Some (PCharge 12) /\ map snd (i_autos m) = [1000%nat] /\
    i_cont au = Some (PAuto 12)
  | _, _, _ => False
  end.
Proof. vm_compute. repeat split. Qed.

Definition c07_demo : list op :=
  [ ONewItem 1 CShip 100 1 0; ONewItem 2 CModHigh 200 1 0; ONewItem 3 CModHigh 201 1 0;
    ONewFit 10 4; OSlot 10 SlShip (Some 1%nat); ORackAppend 10 RHigh 2; ORackPlace 10 RHigh 3 3;
    ORackAppend 10 RHigh 2 (* raises ValueError *); ORackRemove 10 RHigh (RItem (Some 2%nat));
    OSlot 10 SlShip (Some 3%nat) (* raises: 3 is in the rack; the ship is put back *) ]%Z.
Example C07_history_nonvacuous :
  ops_okb (init_sys []) c07_demo = true /\
  let w := s_w (run (init_sys []) c07_demo) in
  get_rack w 10 RHigh = [None; None; Some 3%nat] /\
  members w (PRack 10 RHigh) = [3%nat] /\ fitcont w 3 = Some (PRack 10 RHigh) /\ fitcont w 2 = None /\
  members w (PSlot 10 SlShip) = [1%nat] /\ fitcont w 1 = Some (PSlot 10 SlShip) /\
  members w (PSlot 10 SlCharacter) = [4%nat].
Proof. vm_compute. repeat split. Qed.

Example C07_nonvacuous :
  cleanup [Some 1%nat; None; Some 2%nat; None; None] = [Some 1%nat; None; Some 2%nat]
  /\ equip_list [Some 1%nat; None; Some 2%nat] 9 = ([Some 1%nat; Some 9%nat; Some 2%nat], 1%nat)
  /\ ins_list [Some 1%nat] 3 (Some 7%nat) = [Some 1%nat; None; None; Some 7%nat]
  /\ ins_list [Some 1%nat; Some 2%nat] (-1) (Some 7%nat) = [Some 1%nat; Some 7%nat; Some 2%nat].
Proof. vm_compute. repeat split. Qed.

Print Assumptions C07_cleanup_no_trailing_hole.
Print Assumptions C07_cleanup_keeps_items.
Print Assumptions C07_cleanup_keeps_positions.
Print Assumptions C07_cleanup_adds_nothing.
Print Assumptions C07_equip_fills_first_hole.
Print Assumptions C07_equip_appends_without_hole.
Print Assumptions C07_place_free_keep_positions.
Print Assumptions C07_remove_keeps_head.
Print Assumptions C07_remove_shifts_tail.
Print Assumptions C07_insert_keeps_head.
Print Assumptions C07_insert_shifts_tail.
Print Assumptions C07_insert_puts_value.
Print Assumptions C07_fill_adds_exactly.
Print Assumptions C07_free_removes_exactly.
Print Assumptions C07_remove_removes_exactly.
Print Assumptions C07_insert_adds_exactly.
Print Assumptions C07_messages_never_touch_containers.
Print Assumptions C07_append_refines.
Print Assumptions C07_insert_refines.
Print Assumptions C07_equip_refines.
Print Assumptions C07_remove_refines.
Print Assumptions C07_add_sets_exactly_one_reference.
Print Assumptions C07_remove_clears_exactly_one_reference.
Print Assumptions C07_load_unload_keep_references.
Print Assumptions C07_containers_consistent_after_every_history.
Print Assumptions C07_every_operation_keeps_consistency.
Print Assumptions C07_item_containers_consistent_after_every_history.
Print Assumptions C07_solar_system_fit_sets_consistent_after_every_history.
Print Assumptions C07_fleet_fit_sets_consistent_after_every_history.
