(* C14 — Switching the data source equals rebuilding under the new source
   (partial): setting the source a solar system already has does nothing;
   unloading stops every effect; loading/unloading never touches containers,
   membership or user-set fields of fits. Equality with the rebuild under the
   target source is compared with the implementation (mirror oracle). *)
From Coq Require Import List ZArith Bool.
From EosV Require Import lib.AList model.World model.Engine model.Ops proofs.Misc_p proofs.Status_p proofs.Frame_p
     proofs.Owner_p proofs.Cinv_p proofs.Runs_p model.Wf proofs.Link_p proofs.RunsC_p proofs.RunsK_p proofs.RunsD_p.
Import ListNotations.

Theorem C14_same_source_noop : forall s x new y,
  get_ss (fst s) x = Some y -> onat_eqb (ss_source y) new = true -> source_set_op s x new = (s, ROk).
Proof. exact source_same_noop. Qed.

Theorem C14_unload_load_keep_structure : forall n s i,
  structure (fst (load n s i)) = structure (fst s) /\ structure (fst (unload n s i)) = structure (fst s).
Proof. intros. split; [apply S_load|apply S_unload]. Qed.

Theorem C14_unloaded_runs_nothing : forall w i it w' msgs,
  get_item w i = Some it -> item_unloaded_msgs w i = (w', msgs) -> w_err w' = None ->
  exists it', get_item w' i = Some it' /\ i_running it' = [].
Proof. exact unloaded_msgs_clear_running. Qed.

(* a source switch that ends without internal error re-establishes, under
   whatever source each item is now loaded from, exactly what a build from
   scratch establishes: running set = decision table for every directly held
   item, nothing running on unloaded items, ownership consistent; and it moves
   no item between containers *)
Theorem C14_switch_reestablishes_invariants : forall s x new,
  RJ (fst s) -> w_err (fst (fst (source_set_op s x new))) = None ->
  RJ (fst (fst (source_set_op s x new))).
Proof. exact source_set_op_RJ. Qed.
Theorem C14_switch_moves_nothing : forall s x new,
  J (fst s) -> forall q, members (fst (fst (source_set_op s x new))) q = members (fst s) q.
Proof. intros s x new Js. exact (proj2 (source_set_op_MK s x new Js)). Qed.

(* ... and the same for charges and autocharges in flat worlds: KJ is the invariant above together with
   "every charge / autocharge runs the table's set for its holder's state under the source it is loaded from,
   holds nothing, is listed by its holder", the converse links and "loaded from the current source"
   (proofs/RunsC_p.v, RunsK_p.v). What the switch needs of the moment between unloading and reloading -- every
   fit of the solar system lists its items once, they are unloaded, nothing is loaded from the old source -- is
   proved (src_mid_facts) from container consistency CI and the agreement SSI of a fit's solar-system reference
   with the solar system's fit list (proofs/Link_p.v). *)
Theorem C14_switch_reestablishes_invariants_for_charges : forall s x new,
  KJ (fst s) -> CI (fst s) -> SSI (fst s) ->
  w_err (fst (fst (source_set_op s x new))) = None ->
  KJ (fst (fst (source_set_op s x new))).
Proof. exact source_set_op_KJ. Qed.

(* ---- every history, base layer: a directly held item that is loaded sits in a container of a fit and is
   loaded from the source the solar system of that fit has NOW. Nothing stays loaded from a source that was
   switched away, from a solar system the fit has left, or after the item left its fit. Proved through every
   operation (LS, part of the invariant KJ), the source switch included: unloading leaves nothing of the solar
   system's fits loaded, so after the source is set nothing is loaded from the old one, and reloading loads from
   the new one. ---- *)
Theorem C14_loaded_from_current_source_after_every_history : forall pen ops,
  ops_clean3b (init_sys pen) ops = true ->
  let w := s_w (run (init_sys pen) ops) in
  forall j jit src, get_item w j = Some jit -> direct jit -> i_loaded jit = Some src ->
    exists f, fit_of_place (i_cont jit) = Some f /\ fit_source_id w f = Some src.
Proof. exact loaded_from_current_source. Qed.

Print Assumptions C14_same_source_noop.
Print Assumptions C14_switch_reestablishes_invariants.
Print Assumptions C14_switch_moves_nothing.
Print Assumptions C14_unload_load_keep_structure.
Print Assumptions C14_unloaded_runs_nothing.
Print Assumptions C14_switch_reestablishes_invariants_for_charges.
Print Assumptions C14_loaded_from_current_source_after_every_history.
