(* C17 -- The source manager rebuilds the cache exactly when it must.
   Statements only; proofs in proofs/SourceMgr_p.v.  [add] is the model of
   SourceManager.add interpreted from the generated table gen_mgr; [fmt v] is
   the fingerprint "<data version>_<engine version>" computed from the
   generated format pieces. *)
From Coq Require Import List String Bool Arith.
From EosV Require Import model.CacheCodec model.SourceMgr gen.T_srcmgr proofs.SourceMgr_p.
Import ListNotations.
Local Open Scope string_scope.
Local Open Scope list_scope.

Section C17.
  Variable data objs : Type.
  Variable build : data -> objs.
  Variable engine : string.
  Notation add' := (add data objs build engine gen_mgr).
  Notation add_blocked' := (add_blocked data objs build engine gen_mgr).
  Notation step' := (step data objs build engine gen_mgr).
  Notation run' := (run data objs build engine gen_mgr).
  Notation fmt' := (fmt engine).

  Theorem C17_fingerprint_format :
    forall v, fmt' v = (show_version v ++ "_" ++ engine)%string.
  Proof. exact (fmt_shape engine). Qed.

  (* add rebuilds  <->  version = None  \/  cache_fp <> fmt version engine *)
  Theorem C17_rebuild_iff :
    forall (st : mstate objs) a dh h md,
      lookup a (ms_sources _ st) = None ->
      (snd (add' st a dh h md) = Added true <->
       dh_version _ dh = None \/
       ch_fp _ (get_h objs (ms_handlers _ st) h) <> JStr (fmt' (dh_version _ dh))).
  Proof. exact (rebuild_iff_p data objs build engine). Qed.

  (* "rebuilds" is observable: the builder ran exactly then *)
  Theorem C17_rebuild_counts :
    forall (st : mstate objs) a dh h md,
      lookup a (ms_sources _ st) = None ->
      ms_builds _ (fst (add' st a dh h md)) =
      (if rebuild_needed engine (dh_version _ dh) (ch_fp _ (get_h objs (ms_handlers _ st) h))
       then S (ms_builds _ st) else ms_builds _ st) /\
      snd (add' st a dh h md) =
      Added (rebuild_needed engine (dh_version _ dh) (ch_fp _ (get_h objs (ms_handlers _ st) h))).
  Proof. exact (rebuild_counts_p data objs build engine). Qed.

  (* afterwards the fingerprint is current, a rebuilt cache serves and persists
     objects built from the current data, the source is registered *)
  Theorem C17_after_add_current :
    forall (st : mstate objs) a dh h md st' rb,
      lookup a (ms_sources _ st) = None ->
      add' st a dh h md = (st', Added rb) ->
      let c := get_h objs (ms_handlers _ st') h in
      ch_fp _ c = JStr (fmt' (dh_version _ dh)) /\
      (rb = true -> ch_cont _ c = Some (build (dh_data _ dh)) /\
                    ch_file _ c = Some (JStr (fmt' (dh_version _ dh)), build (dh_data _ dh))) /\
      (rb = false -> c = get_h objs (ms_handlers _ st) h /\ dh_version _ dh <> None) /\
      get objs st' a = Some (a, h).
  Proof. exact (after_add_current_p data objs build engine). Qed.

  (* version <> None: remove; add again with unchanged data does not rebuild --
     neither with the same handler object nor with a new one on the same file *)
  Theorem C17_second_add_no_rebuild :
    forall (st : mstate objs) a dh h md st1 rb v,
      dh_version _ dh = Some v ->
      lookup a (ms_sources _ st) = None ->
      add' st a dh h md = (st1, Added rb) ->
      forall a2 dh2 md2,
        dh_version _ dh2 = Some v ->
        let st2 := fst (remove objs st1 a) in
        lookup a2 (ms_sources _ st2) = None ->
        snd (add' st2 a2 dh2 h md2) = Added false /\
        ms_builds _ (fst (add' st2 a2 dh2 h md2)) = ms_builds _ st1 /\
        (forall h2 st2',
            (rb = true \/ coherent objs (get_h objs (ms_handlers _ st) h)) ->
            ms_sources _ st2' = ms_sources _ st2 ->
            get_h objs (ms_handlers _ st2') h2 = ch_reopen objs (get_h objs (ms_handlers _ st1) h) ->
            snd (add' st2' a2 dh2 h2 md2) = Added false).
  Proof. exact (second_add_no_rebuild_p data objs build engine). Qed.

  (* aliases are unique: raises before ANY side effect (whole state unchanged) *)
  Theorem C17_alias_unique :
    forall (st : mstate objs) a dh h md,
      lookup a (ms_sources _ st) <> None ->
      add' st a dh h md = (st, ExistingSource).
  Proof. exact (alias_unique_p data objs build engine). Qed.

  Theorem C17_default_only_on_request :
    forall (st : mstate objs) o,
      ms_default _ (fst (step' st o)) =
      match o with
      | OAdd _ a _ h true =>
        match lookup a (ms_sources _ st) with None => Some (a, h) | Some _ => ms_default _ st end
      | OAddBlocked _ a dh h true =>
        match lookup a (ms_sources _ st) with
        | None => if rebuild_needed engine (dh_version _ dh) (ch_fp _ (get_h objs (ms_handlers _ st) h))
                  then ms_default _ st else Some (a, h)
        | Some _ => ms_default _ st
        end
      | _ => ms_default _ st
      end.
  Proof. exact (default_only_on_request_p data objs build engine). Qed.

  (* the persistent store refuses the write: the call fails as a whole (no source registered, no default,
     no handler changed; only the builder ran) ... *)
  Theorem C17_blocked_add_fails_whole :
    forall (st : mstate objs) a dh h md,
      snd (add_blocked' st a dh h md) = WriteFailed ->
      let st' := fst (add_blocked' st a dh h md) in
      ms_sources _ st' = ms_sources _ st /\ ms_default _ st' = ms_default _ st /\
      ms_handlers _ st' = ms_handlers _ st /\ ms_builds _ st' = S (ms_builds _ st) /\
      snd (add' st a dh h md) = Added true.
  Proof. exact (blocked_add_fails_whole_p data objs build engine). Qed.
  (* ... so that the same call, retried once the store accepts writes, rebuilds and ends where the first
     call would have ended *)
  Theorem C17_retry_after_blocked_add :
    forall (st : mstate objs) a dh h md,
      snd (add_blocked' st a dh h md) = WriteFailed ->
      let st1 := fst (add_blocked' st a dh h md) in
      snd (add' st1 a dh h md) = Added true /\
      ms_sources _ (fst (add' st1 a dh h md)) = ms_sources _ (fst (add' st a dh h md)) /\
      ms_default _ (fst (add' st1 a dh h md)) = ms_default _ (fst (add' st a dh h md)) /\
      ms_handlers _ (fst (add' st1 a dh h md)) = ms_handlers _ (fst (add' st a dh h md)).
  Proof. exact (retry_after_blocked_add_p data objs build engine). Qed.
  Theorem C17_blocked_store_matters_only_for_rebuilds :
    forall (st : mstate objs) a dh h md,
      snd (add_blocked' st a dh h md) <> WriteFailed -> add_blocked' st a dh h md = add' st a dh h md.
  Proof. exact (blocked_add_without_rebuild_p data objs build engine). Qed.

  (* refinement of get/remove/list (and add) to a finite map alias -> source *)
  Theorem C17_refines_finite_map :
    (forall (st : mstate objs) a, get objs st a = abs objs st a) /\
    (forall (st : mstate objs) a dh h md, abs objs st a = None ->
        snd (add' st a dh h md) <> ExistingSource /\
        forall b, abs objs (fst (add' st a dh h md)) b
                  = if String.eqb a b then Some (a, h) else abs objs st b) /\
    (forall (st : mstate objs) a dh h md, abs objs st a <> None ->
        snd (add' st a dh h md) = ExistingSource /\ fst (add' st a dh h md) = st) /\
    (forall (st : mstate objs) a,
        snd (remove objs st a) = (match abs objs st a with Some _ => true | None => false end) /\
        forall b, abs objs (fst (remove objs st a)) b
                  = if String.eqb a b then None else abs objs st b) /\
    (forall (st : mstate objs), Inv objs st ->
        NoDup (list_aliases objs st) /\
        forall a, In a (list_aliases objs st) <-> abs objs st a <> None).
  Proof.
    split; [exact (get_refines objs)|].
    split; [exact (add_refines data objs build engine)|].
    split; [exact (add_existing_refines data objs build engine)|].
    split; [exact (remove_refines objs)|exact (list_refines objs)].
  Qed.

  (* the invariant holds after ALL sequences of add/get/remove/list *)
  Theorem C17_invariant_all_histories :
    forall ops, Inv objs (fst (run' (init objs) ops)).
  Proof. intros ops. apply run_inv. apply init_inv. Qed.
End C17.

(* ---- non-vacuity ---- *)
Definition ex_dh (v : option string) (d : nat) := mkDH nat v d.
Example C17_nonvacuous :
  let b := fun d : nat => d * 10 in
  let r := run nat nat b "0.0.0.dev10" gen_mgr (init nat)
               [OAdd nat "tq" (ex_dh (Some "7") 1) 0 true;      (* absent cache: rebuild *)
                OAdd nat "tq" (ex_dh (Some "7") 1) 0 false;     (* alias taken *)
                ORemove nat "tq";
                OAdd nat "tq2" (ex_dh (Some "7") 2) 0 false;    (* unchanged: no rebuild *)
                OAdd nat "sisi" (ex_dh (Some "8") 3) 0 false;   (* changed version: rebuild *)
                OAdd nat "x" (ex_dh None 4) 0 false;            (* version None: rebuild *)
                OGet nat "tq"; OGet nat "sisi"; OList nat; ORemove nat "nope";
                OAddBlocked nat "y" (ex_dh (Some "9") 5) 1 true;  (* store refuses the write *)
                OGet nat "y";
                OAdd nat "y" (ex_dh (Some "9") 5) 1 false] in    (* retried: rebuilds *)
  snd r = [BAdd (Added true); BAdd ExistingSource; BRemove true; BAdd (Added false);
           BAdd (Added true); BAdd (Added true); BGet None; BGet (Some ("sisi", 0));
           BList ["tq2"; "sisi"; "x"]; BRemove false;
           BAdd WriteFailed; BGet None; BAdd (Added true)] /\
  ms_builds _ (fst r) = 5 /\ ms_default _ (fst r) = Some ("tq", 0) /\
  ch_fp _ (get_h nat (ms_handlers _ (fst r)) 0) = JStr "None_0.0.0.dev10" /\
  ch_cont _ (get_h nat (ms_handlers _ (fst r)) 0) = Some 40.
Proof. vm_compute. repeat split. Qed.

Print Assumptions C17_fingerprint_format.
Print Assumptions C17_rebuild_iff.
Print Assumptions C17_rebuild_counts.
Print Assumptions C17_after_add_current.
Print Assumptions C17_second_add_no_rebuild.
Print Assumptions C17_alias_unique.
Print Assumptions C17_default_only_on_request.
Print Assumptions C17_blocked_add_fails_whole.
Print Assumptions C17_retry_after_blocked_add.
Print Assumptions C17_blocked_store_matters_only_for_rebuilds.
Print Assumptions C17_refines_finite_map.
Print Assumptions C17_invariant_all_histories.
