(* C04 — Fit statistics equal the aggregate over the fit's current items, and
   obey their algebraic laws.
   Statements only; proofs are in proofs/Stats_p.v.

   model/Stats.v      : the 14 StatService registers as folds over the engine's
                        publications, the aggregation code, tanking, cycle
                        parameters, damage / repair effect statistics
                        (implementation-shaped, tables from gen/T_stats.v)
   model/StatsSpec.v  : the stateless specification: every register's set
                        recomputed from the current base world, and the
                        statistic recomputed over those sets *)
From Coq Require Import ZArith QArith List Bool.
From EosV Require Import lib.AList model.World model.Calc model.Ops.
From EosV Require Import model.Stats model.StatsSpec proofs.Stats_p gen.T_stats.
Import ListNotations.
Local Open Scope Z_scope.
Local Open Scope Q_scope.

(* --- A. the tables in the source are the documented ones ------------------- *)
Theorem C04_source_tables :
  SIMPLE_REGS = SPEC_SIMPLE_REGS /\ DD_DESC = SPEC_DD_DESC /\ AREP_DESC = SPEC_AREP_DESC /\
  SREP_DESC = SPEC_SREP_DESC /\
  [SLOT_ATTR_high; SLOT_ATTR_mid; SLOT_ATTR_low; SLOT_ATTR_rig; SLOT_ATTR_subsystem; SLOT_ATTR_fighter]
    = SPEC_SLOT_ATTRS /\
  map (fun p => (fst p, class_kind (snd p))) EFFECT_CLASS = SPEC_EFFECT_KIND.
Proof.
  exact (conj simple_regs_ok (conj dd_desc_ok (conj arep_desc_ok (conj srep_desc_ok
        (conj slot_attrs_ok effect_kind_ok))))).
Qed.

(* --- B. registers are exact -------------------------------------------------- *)
(* an insert/discard register holds exactly the members whose last edit is an
   insertion, without duplicates, for every edit trace *)
Theorem C04_register_exact_generic :
  forall (X : Type) (eqb : X -> X -> bool), (forall a b, eqb a b = true <-> a = b) ->
  forall t : list (edit X),
    NoDup (run eqb [] t) /\ forall x, In x (run eqb [] t) <-> active eqb t x = true.
Proof. exact register_exact_generic. Qed.

(* a register that raises on discarding an absent member (set.remove) never
   raises on an alternating trace and then equals the lenient one *)
Theorem C04_register_strict_generic :
  forall (X : Type) (eqb : X -> X -> bool), (forall a b, eqb a b = true <-> a = b) ->
  forall t : list (edit X), alternating eqb t -> run_strict eqb [] t = (run eqb [] t, false).
Proof. exact register_strict_generic. Qed.

(* the model's registers of fit f after any event trace are such registers *)
Theorem C04_simple_fold_is_run : forall tr f r d, In (r, d) SIMPLE_REGS ->
  g_get (regs_get (regs_apply_events [] tr) f) r = run neqb [] (simple_edits d f tr).
Proof. exact simple_fold_is_run. Qed.

Theorem C04_pairs_fold_is_run : forall tr f, no_keyerr f tr ->
  let g := regs_get (regs_apply_events [] tr) f in
  g_dd g = run pair_eqb [] (pair_edits DD_DESC f tr) /\
  g_arep g = run pair_eqb [] (pair_edits AREP_DESC f tr) /\
  g_srep g = run pair_eqb [] (pair_edits SREP_DESC f tr) /\
  (alternating pair_eqb (pair_edits AREP_DESC f tr) ->
   alternating pair_eqb (pair_edits SREP_DESC f tr) -> g_err g = false).
Proof. exact pairs_fold_is_run. Qed.

(* a publication trace that is faithful to the final world leaves every
   register of the fit equal (as a duplicate-free set) to the from-scratch set,
   and no handler raised *)
Theorem C04_registers_exact : forall tr w f,
  trace_faithful tr w f -> regs_exact w (regs_apply_events [] tr) f.
Proof. exact registers_exact. Qed.

(* faithfulness holds outright for the empty history of a fit without items *)
Theorem C04_trace_faithful_nil : forall w f, fit_item_ids w f = [] -> trace_faithful [] w f.
Proof. exact trace_faithful_nil. Qed.

(* --- C. statistic = aggregate over the current items -------------------------- *)
Theorem C04_stats_eq_aggregate : forall av w d dur rg dp r,
  (forall f, read_fit r = Some f -> regs_exact w rg f) ->
  req (stat_read av w d dur rg dp r) (spec_read av w d dur dp r).
Proof. exact stats_eq_aggregate. Qed.

(* --- D1. additivity over a partition of the items ------------------------------ *)
Theorem C04_fit_dmg_additive : forall w g flt per t a b,
  fit_dmg w g FAll per = Ok t -> fit_dmg w g flt per = Ok a -> fit_dmg w g (FNot flt) per = Ok b ->
  prof_eq t (prof_add a b).
Proof. exact fit_dmg_additive. Qed.

Theorem C04_volley_additive : forall av w g flt tgt t a b,
  fit_dmg w g FAll (fun i => item_volley av w i tgt) = Ok t ->
  fit_dmg w g flt (fun i => item_volley av w i tgt) = Ok a ->
  fit_dmg w g (FNot flt) (fun i => item_volley av w i tgt) = Ok b -> prof_eq t (prof_add a b).
Proof. exact volley_additive. Qed.

Theorem C04_dps_additive : forall av w dur g flt reload tgt t a b,
  fit_dmg w g FAll (fun i => item_dps av w dur i reload tgt) = Ok t ->
  fit_dmg w g flt (fun i => item_dps av w dur i reload tgt) = Ok a ->
  fit_dmg w g (FNot flt) (fun i => item_dps av w dur i reload tgt) = Ok b -> prof_eq t (prof_add a b).
Proof. exact dps_additive. Qed.

(* --- D2. counting reload never raises dps --------------------------------------- *)
Theorem C04_cycle_avg_reload_ge : forall cy act forced rt c0,
  cycle_params cy act forced rt false = Some c0 ->
  exists c1, cycle_params cy act forced rt true = Some c1 /\ average_time c0 <= average_time c1.
Proof. exact cycle_avg_reload_ge. Qed.

Theorem C04_effect_dps_reload_le : forall av w dur c e i it d0 d1,
  effect_dps av w dur c e i it false = Ok d0 ->
  effect_dps av w dur c e i it true = Ok d1 ->
  (forall cp, effect_cycle_params av w dur c e i it false = Ok (Some cp) -> 0 < average_time cp) ->
  prof_le d1 d0.
Proof. exact effect_dps_reload_le. Qed.

Theorem C04_item_dps_reload_le : forall av w dur i it tgt d0 d1,
  get_item w i = Some it ->
  (forall r, tgt = Some r -> valid_res r) ->
  (forall e c cp, In (e, c) (dd_effects w it) ->
     effect_cycle_params av w dur c e i it false = Ok (Some cp) -> 0 < average_time cp) ->
  item_dps av w dur i false tgt = Ok d0 -> item_dps av w dur i true tgt = Ok d1 -> prof_le d1 d0.
Proof. exact item_dps_reload_le. Qed.

Theorem C04_fit_dps_reload_le : forall av w dur g flt tgt d0 d1,
  (forall r, tgt = Some r -> valid_res r) ->
  (forall i it, In i (filter (filter_holds w flt) (dedup_items (g_dd g))) -> get_item w i = Some it ->
     forall e c cp, In (e, c) (dd_effects w it) ->
       effect_cycle_params av w dur c e i it false = Ok (Some cp) -> 0 < average_time cp) ->
  fit_dmg w g flt (fun i => item_dps av w dur i false tgt) = Ok d0 ->
  fit_dmg w g flt (fun i => item_dps av w dur i true tgt) = Ok d1 -> prof_le d1 d0.
Proof. exact fit_dps_reload_le. Qed.

(* --- D3. a target resist profile scales the unresisted damage ---------------------- *)
Theorem C04_resist_profile_scales : forall l r a b,
  combine l (Some r) = Ok a -> combine l None = Ok b -> prof_eq a (apply_resists b r).
Proof. exact resist_profile_scales. Qed.

Theorem C04_item_volley_resist_scales : forall av w i r a b,
  item_volley av w i (Some r) = Ok a -> item_volley av w i None = Ok b -> prof_eq a (apply_resists b r).
Proof. exact item_volley_resist_scales. Qed.

Theorem C04_item_dps_resist_scales : forall av w dur i reload r a b,
  item_dps av w dur i reload (Some r) = Ok a -> item_dps av w dur i reload None = Ok b ->
  prof_eq a (apply_resists b r).
Proof. exact item_dps_resist_scales. Qed.

(* --- D4. tanking -------------------------------------------------------------------- *)
Theorem C04_layer_ehp_ge_hp : forall hp r p e,
  valid_res r -> valid_dmg_profile p = true -> 0 <= hp -> 0 < received p r ->
  layer_ehp hp r p = Ok e -> hp <= e.
Proof. exact layer_ehp_ge_hp. Qed.

Theorem C04_layer_ehp_ge_wc : forall hp r p e wc,
  valid_res r -> valid_dmg_profile p = true -> 0 <= hp -> 0 < received p r ->
  layer_ehp hp r p = Ok e -> layer_wc_ehp hp r = Ok wc -> wc <= e.
Proof. exact layer_ehp_ge_wc. Qed.

Theorem C04_layer_ehp_scale : forall hp r p k, 0 < k ->
  rq_eq (layer_ehp hp r (prof_scale k p)) (layer_ehp hp r p).
Proof. exact layer_ehp_scale. Qed.

Theorem C04_ehp_ge_hp : forall h r p e,
  valid_res3 r -> valid_dmg_profile p = true -> hp_nonneg h -> received_pos3 p r ->
  ehp_of h r p = Ok e -> hp_le h e.
Proof. exact ehp_ge_hp. Qed.

Theorem C04_ehp_ge_worst_case : forall h r p e wc,
  valid_res3 r -> valid_dmg_profile p = true -> hp_nonneg h -> received_pos3 p r ->
  ehp_of h r p = Ok e -> wc_ehp_of h r = Ok wc -> hp_le wc e.
Proof. exact ehp_ge_worst_case. Qed.

Theorem C04_ehp_scale_invariant : forall h r p k, 0 < k ->
  R_rel hp_eq (ehp_of h r (prof_scale k p)) (ehp_of h r p).
Proof. exact ehp_scale_invariant. Qed.

(* --- D5. fall-backs ------------------------------------------------------------------ *)
Theorem C04_output_without_ship : forall av w d dur rg dp f ft k,
  f_ship ft = None -> get_fit w f = Some ft ->
  stat_read av w d dur rg dp (SResOutput f k) = Ok (VNum 0).
Proof. exact output_without_ship. Qed.

Theorem C04_output_ship_without_attr : forall av w d dur rg dp f ft k sh rd,
  f_ship ft = Some sh -> get_fit w f = Some ft ->
  al_get regid_eqb SIMPLE_REGS (rk_id k) = Some rd -> av sh (rd_out_attr rd) = None ->
  stat_read av w d dur rg dp (SResOutput f k) = Ok (VNum 0).
Proof. exact output_ship_without_attr. Qed.

Theorem C04_slot_total_without_ship : forall av w d dur rg dp f ft k,
  get_fit w f = Some ft ->
  match k with SkLaunchedDrones => f_character ft = None | _ => f_ship ft = None end ->
  stat_read av w d dur rg dp (SSlotTotal f k) = Ok (VInt 0).
Proof. exact slot_total_without_ship. Qed.

Theorem C04_slot_total_without_attr : forall av w d dur rg dp f ft k rd,
  get_fit w f = Some ft -> al_get regid_eqb SIMPLE_REGS (sk_id k) = Some rd ->
  (forall h, fit_holder ft (rd_holder rd) = Some h -> av h (rd_out_attr rd) = None) ->
  stat_read av w d dur rg dp (SSlotTotal f k) = Ok (VInt 0).
Proof. exact slot_total_without_holder. Qed.

Theorem C04_cont_slots_without_ship : forall av w d dur rg dp f ft k,
  f_ship ft = None -> get_fit w f = Some ft ->
  stat_read av w d dur rg dp (SContSlots f k) = Ok (VSlots (cont_len ft k) 0).
Proof. exact cont_slots_without_ship. Qed.

Theorem C04_rps_without_ship : forall av w d dur rg dp f ft p reload,
  f_ship ft = None -> get_fit w f = Some ft ->
  stat_read av w d dur rg dp (SFitArmorRps f p reload) = Ok (VNum 0) /\
  stat_read av w d dur rg dp (SFitShieldRps f p reload) = Ok (VNum 0).
Proof. exact rps_without_ship. Qed.

(* --- non-vacuity ---------------------------------------------------------------------- *)
(* B: an alternating trace exists and the strict register does not raise on it;
   a doubled discard makes it raise *)
Example C04_nonvacuous_alternating :
  alternating Nat.eqb [EOn 1%nat; EOn 2%nat; EOff 1%nat] /\
  run_strict Nat.eqb [] [EOn 1%nat; EOn 2%nat; EOff 1%nat] = ([2%nat], false) /\
  run_strict Nat.eqb [] [EOn 1%nat; EOff 1%nat; EOff 1%nat] = ([], true) /\
  active Nat.eqb [EOn 1%nat; EOn 2%nat; EOff 1%nat] 2%nat = true.
Proof.
  split; [|vm_compute; repeat split; reflexivity].
  intros t1 e t2 H.
  destruct t1 as [|a [|b [|c [|c' t1]]]]; inversion H; subst; split; intros x E; inversion E; subst; reflexivity.
Qed.

(* B/C: a world and a history with exact registers *)
Example C04_nonvacuous_regs_exact :
  trace_faithful [] empty_world 0%nat /\ regs_exact empty_world (regs_apply_events [] []) 0%nat.
Proof.
  assert (T : trace_faithful [] empty_world 0%nat) by (apply trace_faithful_nil; reflexivity).
  split; [exact T|exact (registers_exact _ _ _ T)].
Qed.

(* C: two registers holding the same set in different orders give equal sums *)
Example C04_nonvacuous_aggregate :
  let av := fun (i : nat) (a : Z) => if Nat.eqb i 1 then Some (3 # 2) else Some (1 # 3) in
  same_set [1%nat; 2%nat] [2%nat; 1%nat] /\
  R_rel Qeq (sum_attr av 50%Z [1%nat; 2%nat]) (sum_attr av 50%Z [2%nat; 1%nat]) /\
  R_rel Qeq (sum_attr av 50%Z [1%nat; 2%nat]) (Ok (11 # 6)).
Proof.
  cbv zeta. split; [|split].
  - split; [|split].
    + apply NoDup_cons; [simpl; intros [E|[]]; discriminate|apply NoDup_cons; [intros []|apply NoDup_nil]].
    + apply NoDup_cons; [simpl; intros [E|[]]; discriminate|apply NoDup_cons; [intros []|apply NoDup_nil]].
    + intros x. simpl. tauto.
  - vm_compute. reflexivity.
  - vm_compute. reflexivity.
Qed.

(* D1 *)
Definition ex_g : fregs := mkFregs [(1%nat, 10%Z); (2%nat, 10%Z); (1%nat, 34%Z)] [] [] [] false.
Definition ex_per (i : nat) : R prof := Ok (mkProf (inject_Z (Z.of_nat i)) 0 (1 # 2) 1).
Example C04_nonvacuous_additive : exists t a b,
  fit_dmg empty_world ex_g FAll ex_per = Ok t /\
  fit_dmg empty_world ex_g (FNot (FTid 5)) ex_per = Ok a /\
  fit_dmg empty_world ex_g (FNot (FNot (FTid 5))) ex_per = Ok b /\
  t = mkProf 3 0 1 2 /\ a = t /\ b = prof0.
Proof. do 3 eexists. vm_compute. repeat split; reflexivity. Qed.

(* D2: a module with 3 cycles of 5 s, 1 s forced delay and 10 s reload *)
Example C04_nonvacuous_reload : exists c0 c1,
  cycle_params (CyFin 3) 5 1 (Some 10) false = Some c0 /\
  cycle_params (CyFin 3) 5 1 (Some 10) true = Some c1 /\
  0 < average_time c0 /\ average_time c0 < average_time c1.
Proof. do 2 eexists. vm_compute. repeat split; reflexivity. Qed.

(* D3 *)
Example C04_nonvacuous_resists :
  combine [mkProf 10 20 30 40; mkProf 0 0 0 2] (Some (mkProf (1 # 2) 0 (1 # 4) 1)) = Ok (mkProf 5 20 (45 # 2) 0) /\
  combine [mkProf 10 20 30 40; mkProf 0 0 0 2] None = Ok (mkProf 10 20 30 42).
Proof. vm_compute. split; reflexivity. Qed.

(* D4 *)
Definition ex_res : prof := mkProf (1 # 2) (1 # 4) (1 # 4) (3 # 4).
Definition ex_dmg : prof := mkProf 1 1 1 1.
Example C04_nonvacuous_tanking : exists e wc,
  valid_res ex_res /\ valid_dmg_profile ex_dmg = true /\ 0 <= 100 /\ 0 < received ex_dmg ex_res /\
  layer_ehp 100 ex_res ex_dmg = Ok e /\ layer_wc_ehp 100 ex_res = Ok wc /\
  100 < wc /\ wc < e /\ e == 1600 # 9 /\ wc == 400 # 3.
Proof. do 2 eexists. vm_compute. repeat split; try reflexivity; discriminate. Qed.

Example C04_nonvacuous_ehp3 : exists e wc,
  let h := mkHp 100 200 300 in
  let r := mkRes3 prof0 ex_res (mkProf 0 (1 # 5) (2 # 5) (1 # 2)) in
  valid_res3 r /\ hp_nonneg h /\ received_pos3 ex_dmg r /\
  ehp_of h r ex_dmg = Ok e /\ wc_ehp_of h r = Ok wc /\
  ehp_of h r (prof_scale 3 ex_dmg) = Ok e /\ e = mkHp 100 (3200 # 9) (12000 # 29) /\ wc = mkHp 100 (800 # 3) 300.
Proof. do 2 eexists. vm_compute. repeat split; try reflexivity; discriminate. Qed.

(* D5: a fit without ship *)
Definition ex_fit : fit :=
  mkFit None None None None [] [] [] [] [] [] [] [] [None; None] [] [] None None.
Definition ex_w : world := set_fits empty_world [(0%nat, ex_fit)].
Example C04_nonvacuous_fallbacks :
  let av := fun (_ : nat) (_ : Z) => @None Q in
  let d := empty_derived [] in
  get_fit ex_w 0%nat = Some ex_fit /\
  stat_read av ex_w d [] [] [] (SResOutput 0%nat RkCpu) = Ok (VNum 0) /\
  stat_read av ex_w d [] [] [] (SSlotTotal 0%nat SkLaunchedDrones) = Ok (VInt 0) /\
  stat_read av ex_w d [] [] [] (SContSlots 0%nat CkHigh) = Ok (VSlots 2 0) /\
  stat_read av ex_w d [] [] [] (SFitArmorRps 0%nat DDefault true) = Ok (VNum 0).
Proof. vm_compute. repeat split; reflexivity. Qed.

Print Assumptions C04_source_tables.
Print Assumptions C04_register_exact_generic.
Print Assumptions C04_register_strict_generic.
Print Assumptions C04_simple_fold_is_run.
Print Assumptions C04_pairs_fold_is_run.
Print Assumptions C04_registers_exact.
Print Assumptions C04_trace_faithful_nil.
Print Assumptions C04_stats_eq_aggregate.
Print Assumptions C04_fit_dmg_additive.
Print Assumptions C04_volley_additive.
Print Assumptions C04_dps_additive.
Print Assumptions C04_cycle_avg_reload_ge.
Print Assumptions C04_effect_dps_reload_le.
Print Assumptions C04_item_dps_reload_le.
Print Assumptions C04_fit_dps_reload_le.
Print Assumptions C04_resist_profile_scales.
Print Assumptions C04_item_volley_resist_scales.
Print Assumptions C04_item_dps_resist_scales.
Print Assumptions C04_layer_ehp_ge_hp.
Print Assumptions C04_layer_ehp_ge_wc.
Print Assumptions C04_layer_ehp_scale.
Print Assumptions C04_ehp_ge_hp.
Print Assumptions C04_ehp_ge_worst_case.
Print Assumptions C04_ehp_scale_invariant.
Print Assumptions C04_output_without_ship.
Print Assumptions C04_output_ship_without_attr.
Print Assumptions C04_slot_total_without_ship.
Print Assumptions C04_slot_total_without_attr.
Print Assumptions C04_cont_slots_without_ship.
Print Assumptions C04_rps_without_ship.
