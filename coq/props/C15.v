(* C15 -- Cache persistence is lossless and leaves no leftovers.
   Statements only; proofs are in proofs/CacheCodec_p.v.  All statements are
   about the model instantiated with the tables generated from the repository
   (gen_tables / gen_ctors / gen_load), for all customisation functions
   cust_e / cust_t (what EffectFactory.make / TypeFactory.make add). *)
From Coq Require Import ZArith QArith List String Bool.
From EosV Require Import model.CacheCodec gen.T_cache proofs.CacheCodec_p.
Import ListNotations.
Local Open Scope string_scope.
Local Open Scope list_scope.

(* decode (encode o) = Some (norm o) : every field of every entity *)
Theorem C15_decode_encode :
  forall cust_e cust_t,
    (forall e, e_id (cust_e e) = e_id e) -> (forall t, t_id (cust_t t) = t_id t) ->
    forall o fp, wf_objs o ->
      encode gen_tables o fp = Ok (enc_all o fp) /\
      decode cust_e cust_t gen_tables gen_ctors (enc_all o fp) = Ok (norm cust_e cust_t o fp).
Proof.
  intros cust_e cust_t He Ht o fp W. split; [apply encode_ok|].
  exact (decode_encode_p cust_e cust_t He Ht o fp W).
Qed.

(* per entity: decompress (compress x) = x (effects/types: customised) *)
Theorem C15_entity_round_trips :
  (forall m, mod_compress gen_tables m = Ok (mod_enc m) /\
             mod_decompress gen_tables gen_ctors (mod_enc m) = Ok m) /\
  (forall a, attr_compress gen_tables a = Ok (attr_enc a) /\
             attr_decompress gen_tables gen_ctors (attr_enc a) = Ok a) /\
  (forall b, buff_compress gen_tables b = Ok (buff_enc b) /\
             buff_decompress gen_tables gen_ctors (buff_enc b) = Ok b) /\
  (forall cust_e e, hashable (e_id e) = true ->
             effect_compress gen_tables e = Ok (effect_enc e) /\
             effect_decompress cust_e gen_tables gen_ctors (effect_enc e) = Ok (cust_e e)) /\
  (forall cust_e cust_t, (forall e, e_id (cust_e e) = e_id e) ->
     forall effs t,
       Forall (fun e => is_int (e_id e) = true) effs -> distinctb (map e_id effs) = true ->
       wf_type effs t ->
       type_compress gen_tables t = Ok (type_enc t) /\
       type_decompress cust_t gen_tables gen_ctors (estore cust_e effs) (type_enc t)
       = Ok (cust_t (retarget cust_e t))).
Proof.
  split; [|split; [|split; [|split]]].
  - intros m. split; [apply mod_compress_ok|apply mod_rt].
  - intros a. split; [apply attr_compress_ok|apply attr_rt].
  - intros b. split; [apply buff_compress_ok|apply buff_rt].
  - intros cust_e e H. split; [apply effect_compress_ok|apply effect_rt; exact H].
  - intros cust_e cust_t He effs t H1 H2 H3.
    split; [apply type_compress_ok|apply type_rt; assumption].
Qed.

(* the writer serves exactly the normalised objects and persists their encoding *)
Theorem C15_writer_serves_norm :
  forall cust_e cust_t,
    (forall e, e_id (cust_e e) = e_id e) -> (forall t, t_id (cust_t t) = t_id t) ->
    forall h o fp, wf_objs o ->
      update_cache cust_e cust_t gen_tables gen_ctors h o fp =
      (mkHandler (norm cust_e cust_t o fp) (Some (enc_all o fp)), None).
Proof. intros cust_e cust_t He Ht. exact (update_cache_wf cust_e cust_t He Ht). Qed.

(* writer's memory state after update_cache = state a fresh reader builds from the file *)
Theorem C15_writer_eq_reader :
  forall cust_e cust_t h o fp h',
    update_cache cust_e cust_t gen_tables gen_ctors h o fp = (h', None) ->
    construct cust_e cust_t gen_tables gen_ctors gen_load (h_file h') = (h_mem h', None).
Proof. exact writer_eq_reader_p. Qed.

(* state after update_cache x1 ... xn = state after xn alone (any initial handler) *)
Theorem C15_no_leftovers :
  forall cust_e cust_t h0 xs o fp h1,
    updates cust_e cust_t h0 (xs ++ [(o, fp)]) = (h1, None) ->
    exists h2, updates cust_e cust_t fresh_handler [(o, fp)] = (h2, None) /\
               h_mem h2 = h_mem h1 /\ h_file h2 = h_file h1.
Proof. exact no_leftovers_p. Qed.

(* table obligations *)
Theorem C15_codec_tables_inverse :
  inverse_ok (tb_type_c gen_tables) (tb_type_d gen_tables) (ct_type gen_ctors) = true /\
  inverse_ok (tb_attr_c gen_tables) (tb_attr_d gen_tables) (ct_attr gen_ctors) = true /\
  inverse_ok (tb_eff_c gen_tables) (tb_eff_d gen_tables) (ct_eff gen_ctors) = true /\
  inverse_ok (tb_mod_c gen_tables) (tb_mod_d gen_tables) (ct_mod gen_ctors) = true /\
  inverse_ok (tb_buff_c gen_tables) (tb_buff_d gen_tables) (ct_buff gen_ctors) = true.
Proof. exact codec_tables_inverse. Qed.

Theorem C15_all_four_storages_cleared_before_filling :
  all_cleared_before_fill (tb_steps gen_tables) = true /\
  fills_then_fingerprint (tb_steps gen_tables) = true.
Proof. exact memory_update_steps_ok. Qed.

(* ---- non-vacuity: every field populated and unpopulated ---- *)
Definition ex_m1 := mkMod (JInt 1) (JInt 2) (JInt 55) (JInt 9) (JInt 4) (JInt 1) (JInt 77) (JInt 10).
Definition ex_m2 := mkMod (JInt 0) (JInt 1) JNull (JInt 9) (JInt 6) (JInt 0) JNull (JInt 10).
Definition ex_e1 := mkEffect (JInt 11) (JInt 1) true false (JInt 51) (JInt 6) (JInt 54) (JInt 158)
                             (JInt 160) (JInt 1000) (JInt 2000) (JInt 1) [ex_m1; ex_m2].
Definition ex_e2 := mkEffect (JInt 12) JNull false false JNull JNull JNull JNull JNull JNull JNull
                             JNull [].
Definition ex_t1 := mkType (JInt 1) (JInt 25) (JInt 6)
  [(JInt 9, JNum (5#2)); (JInt 10, JInf false); (JInt 12, JInt (-3))]
  [(JInt 11, ex_e1); (JInt 12, ex_e2)] (Some ex_e1)
  [(JInt 22, (JInt 0, JInf false)); (JInt 23, (JNum (1#2), JInt 3))]
  [(JInt 3300, JInt 5)].
Definition ex_t2 := mkType (JInt 2) JNull JNull [] [] None [] [].
Definition ex_a1 := mkAttr (JInt 9) (JInt 10) (JNum (1#2)) false true.
Definition ex_a2 := mkAttr (JInt 10) JNull JNull true false.
Definition ex_b1 := mkBuff (JInt 7) (JInt 2) (JInt 25) (JInt 9) (JInt 4) (JInt 2).
Definition ex_b2 := mkBuff (JInt 7) (JInt 0) JNull (JInt 10) (JInt 6) (JInt 1).
Definition ex_b3 := mkBuff (JInt 8) (JInt 0) JNull (JInt 10) (JInt 6) (JInt 1).
Definition ex_objs := mkObjs [ex_t1; ex_t2] [ex_a1; ex_a2] [ex_e1; ex_e2] [ex_b1; ex_b2; ex_b3].
Definition ex_objs2 := mkObjs [ex_t2] [ex_a2] [] [ex_b3].
(* a customisation that really changes objects (the 'online' category fix) *)
Definition ex_cust_e (e : effect) : effect :=
  mkEffect (e_id e) (JInt 4) (e_off e) (e_assist e) (e_dur e) (e_dis e) (e_range e)
           (e_falloff e) (e_track e) (e_fuc e) (e_resist e) (e_status e) (e_mods e).

Example C15_nonvacuous_wf : wf_objs ex_objs /\ wf_objs ex_objs2.
Proof.
  split; constructor; cbn; try reflexivity;
    repeat (match goal with
            | |- Forall _ _ => constructor
            | |- wf_type _ _ => constructor
            | |- _ /\ _ => split
            end; cbn); try reflexivity; tauto.
Qed.

Example C15_nonvacuous_round_trip :
  decode ex_cust_e (fun t => t) gen_tables gen_ctors (enc_all ex_objs (JStr "v1_0.0.0"))
  = Ok (norm ex_cust_e (fun t => t) ex_objs (JStr "v1_0.0.0")) /\
  st_buffs (norm ex_cust_e (fun t => t) ex_objs (JStr "x"))
  = [(JInt 7, [ex_b1; ex_b2]); (JInt 8, [ex_b3])] /\
  (* two updates on one handler: nothing of the first survives *)
  (exists h, updates ex_cust_e (fun t => t) fresh_handler
                     [(ex_objs, JStr "v1"); (ex_objs2, JStr "v2")] = (h, None) /\
             h_mem h = norm ex_cust_e (fun t => t) ex_objs2 (JStr "v2") /\
             st_buffs (h_mem h) = [(JInt 8, [ex_b3])]).
Proof.
  split; [vm_compute; reflexivity|]. split; [vm_compute; reflexivity|].
  eexists. split; [vm_compute; reflexivity|]. split; vm_compute; reflexivity.
Qed.

Print Assumptions C15_decode_encode.
Print Assumptions C15_entity_round_trips.
Print Assumptions C15_writer_serves_norm.
Print Assumptions C15_writer_eq_reader.
Print Assumptions C15_no_leftovers.
Print Assumptions C15_codec_tables_inverse.
Print Assumptions C15_all_four_storages_cleared_before_filling.
