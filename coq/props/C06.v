(* C06 — Operations that raise leave the fit unchanged. Statements only;
   proofs in proofs/Containers_p.v. [st] = (base world, publications so far):
   [s' = s] says the world is literally unchanged AND nothing was published,
   so no service saw anything either. *)
From Coq Require Import ZArith List Bool.
From EosV Require Import lib.AList model.World model.Ops proofs.Rack_p proofs.Containers_p proofs.Owner_p proofs.Cinv_p
     proofs.Raise_p.
Import ListNotations.

Theorem C06_rack_append_raise : forall s f k i x s', rack_append s f k i = (s', RExn x) -> s' = s.
Proof. exact rack_append_raise. Qed.

Theorem C06_rack_insert_raise : forall s f k idx v x s',
  has_fit (fst s) f -> no_trailing_hole (get_rack (fst s) f k) ->
  rack_insert s f k idx v = (s', RExn x) -> s' = s.
Proof. exact rack_insert_raise. Qed.

Theorem C06_rack_place_raise : forall s f k idx i x s',
  has_fit (fst s) f -> no_trailing_hole (get_rack (fst s) f k) ->
  rack_place s f k idx i = (s', RExn x) -> s' = s.
Proof. exact rack_place_raise. Qed.

Theorem C06_rack_equip_raise : forall s f k i x s',
  has_fit (fst s) f -> no_trailing_hole (get_rack (fst s) f k) ->
  rack_equip s f k i = (s', RExn x) -> s' = s.
Proof. exact rack_equip_raise. Qed.

Theorem C06_rack_remove_raise : forall s f k a x s', rack_remove s f k a = (s', RExn x) -> s' = s.
Proof. exact rack_remove_raise. Qed.

Theorem C06_rack_free_raise : forall s f k a x s', rack_free s f k a = (s', RExn x) -> s' = s.
Proof. exact rack_free_raise. Qed.

Theorem C06_set_add_raise : forall s f k i x s',
  has_fit (fst s) f -> itemset_add s f k i = (s', RExn x) -> s' = s.
Proof. exact itemset_add_raise. Qed.

Theorem C06_set_remove_raise : forall s f k i x s', set_remove_op s f k i = (s', RExn x) -> s' = s.
Proof. exact set_remove_raise. Qed.

Theorem C06_skill_del_raise : forall s f tid x s', skill_del_op s f tid = (s', RExn x) -> s' = s.
Proof. exact skill_del_raise. Qed.

(* single slots remove the old item, try the new one and re-add the old one:
   messages are published, but every container of every fit is as before *)
Theorem C06_slot_set_raise_partial : forall s f k new x s',
  slot_set_op s f k new = (s', RExn x) -> w_fits (fst s') = w_fits (fst s).
Proof. exact slot_set_raise_fits. Qed.

(* the side condition of the rack theorems is an invariant: every rack
   operation that goes through _cleanup or appends an item re-establishes it *)
(* a rejected single-slot assignment (ship, stance, character, beacon) restores
   every item's container reference (together with C06_slot_set_raise_partial:
   every container of every fit), in any consistent world *)
Theorem C06_slot_set_raise_keeps_ownership : forall s f k new x s',
  CI (fst s) -> slot_set_op s f k new = (s', RExn x) ->
  forall j, fitcont (fst s') j = fitcont (fst s) j.
Proof. exact slot_set_raise_ownership. Qed.

(* an unknown source alias is refused before anything is touched *)
Theorem C06_unknown_source_alias_noop : forall s x y sid,
  get_ss (fst s) x = Some y -> onat_eqb (ss_source y) (Some sid) = false -> get_src (fst s) sid = None ->
  source_set_op s x (Some sid) = (s, RExn XUnknownSource).
Proof. exact source_unknown_alias_noop. Qed.

(* fleet and solar-system membership errors: nothing changed, nothing published *)
Theorem C06_membership_errors_change_nothing : forall s a b x s',
  (fleet_add_op s a b = (s', RExn x) \/ fleet_remove_op s a b = (s', RExn x) \/
   solsys_add_op s a b = (s', RExn x) \/ solsys_remove_op s a b = (s', RExn x)) -> s' = s.
Proof. exact membership_errors_change_nothing. Qed.

Theorem C06_no_trailing_hole_after_remove : forall s f k a s',
  has_fit (fst s) f -> rack_remove s f k a = (s', ROk) -> no_trailing_hole (get_rack (fst s') f k).
Proof. exact rack_remove_no_trailing. Qed.

Theorem C06_no_trailing_hole_after_append : forall s f k i s',
  has_fit (fst s) f -> rack_append s f k i = (s', ROk) -> no_trailing_hole (get_rack (fst s') f k).
Proof. exact rack_append_no_trailing. Qed.

(* non-vacuity: a rack [a; hole; b]: re-inserting the owned item b at a negative
   index raises and leaves the state untouched *)
Example C06_nonvacuous :
  let w0 := put_item (put_item (put_fit empty_world 1 (fit_set_rack empty_fit RHigh [Some 10%nat; None; Some 11%nat]))
                               10 (it_set_cont (new_item CModHigh 5 1 0) (Some (PRack 1 RHigh))))
                     11 (it_set_cont (new_item CModHigh 5 1 0) (Some (PRack 1 RHigh))) in
  rack_insert (w0, []) 1 RHigh (-1) (Some 11%nat) = ((w0, []), RExn XValue)
  /\ no_trailing_hole (get_rack w0 1 RHigh).
Proof. vm_compute. split; [reflexivity|exact I]. Qed.

Print Assumptions C06_rack_append_raise.
Print Assumptions C06_rack_insert_raise.
Print Assumptions C06_rack_place_raise.
Print Assumptions C06_rack_equip_raise.
Print Assumptions C06_rack_remove_raise.
Print Assumptions C06_rack_free_raise.
Print Assumptions C06_set_add_raise.
Print Assumptions C06_set_remove_raise.
Print Assumptions C06_skill_del_raise.
Print Assumptions C06_slot_set_raise_partial.
Print Assumptions C06_no_trailing_hole_after_remove.
Print Assumptions C06_no_trailing_hole_after_append.
Print Assumptions C06_slot_set_raise_keeps_ownership.
Print Assumptions C06_unknown_source_alias_noop.
Print Assumptions C06_membership_errors_change_nothing.
