(* C13 — Projected effects and fleet boosts reach exactly their current targets
   (partial): on the base layer, re-targeting unapplies every running
   projectable effect from the old target and applies it to the new one, in
   that order and nothing else; an unchanged target publishes nothing. That
   the calculator turns these messages into exactly the right affector specs,
   for every set-up order, is compared with the implementation on all
   permutations of the set-up steps. *)
From Coq Require Import List ZArith Bool.
From EosV Require Import lib.AList gen.T_eos model.World model.Calc model.Ops proofs.Misc_p proofs.Ks_p.
Import ListNotations.

Theorem C13_retarget_messages : forall w i it f old new pe,
  get_item w i = Some it -> i_target it = Some old -> old <> new -> item_fit w i = Some f ->
  fold_right (fun e acc =>
                match acc, item_effect w it e with
                | Some l, Some ef => if Z.eqb (e_cat ef) EffectCategoryId_target then Some (e :: l) else Some l
                | _, _ => None
                end) (Some []) (i_running it) = Some pe ->
  exists w1 w2,
    snd (fst (target_set_op (w, []) i (Some new))) =
    [EvPublish w1 f (map (fun e => MEffectUnapplied i e [Some old] false) pe);
     EvPublish w2 f (map (fun e => MEffectApplied i e [Some new]) pe)].
Proof. exact retarget_events. Qed.

Theorem C13_same_target_noop : forall s i new it,
  get_item (fst s) i = Some it -> onat_eqb (i_target it) new = true -> target_set_op s i new = (s, ROk).
Proof. exact target_same_noop. Qed.

(* ---- the projection register (eos/calculator/projection.py): projector -> targets and target -> projectors
   are two indexes of one relation. [PINV c]: both are well-formed keyed storages (keys unique, sets
   duplicate-free) and t is among the targets of p exactly when p is among the projectors of t. The engine
   model changes the two indexes only through apply_projector / unapply_projector (model/Calc.v). ---- *)
Theorem C13_register_indexes_agree_after_any_calls : forall ops, PINV (fold_left pstep ops empty_calc).
Proof. exact projection_register_consistent_from_empty. Qed.

(* applying adds exactly the given targets to exactly that projector; unapplying removes exactly them *)
Theorem C13_apply_adds_exactly : forall c p tgts, PINV c ->
  PINV (apply_projector c p tgts) /\
  forall q t, In t (ks_get proj_eqb (c_ptgts (apply_projector c p tgts)) q) <->
              (q = p /\ In t tgts) \/ In t (ks_get proj_eqb (c_ptgts c) q).
Proof. exact apply_projector_spec. Qed.
Theorem C13_unapply_removes_exactly : forall c p tgts aliased, PINV c ->
  PINV (unapply_projector c p tgts aliased) /\
  forall q t, In t (ks_get proj_eqb (c_ptgts (unapply_projector c p tgts aliased)) q) <->
              In t (ks_get proj_eqb (c_ptgts c) q) /\ ~ (q = p /\ In t tgts).
Proof. exact unapply_projector_spec. Qed.

(* re-targeting (C13_retarget_messages: unapply from the old target, then apply to the new one): the projector
   that had exactly the old target has exactly the new one, every other projector keeps its targets, the
   reverse index follows *)
Theorem C13_retarget_updates_register : forall c p old new a,
  PINV c -> (forall t, In t (ks_get proj_eqb (c_ptgts c) p) <-> t = old) ->
  let c' := apply_projector (unapply_projector c p [old] a) p [new] in
  PINV c' /\ (forall t, In t (ks_get proj_eqb (c_ptgts c') p) <-> t = new) /\
  (forall q, q <> p -> forall t, In t (ks_get proj_eqb (c_ptgts c') q) <-> In t (ks_get proj_eqb (c_ptgts c) q)).
Proof. exact retarget_register. Qed.

Example C13_register_nonvacuous :
  let p := mkProj 7 2001 1 in let q := mkProj 8 2002 1 in
  let c := fold_left pstep [PApply p [Some 3%nat]; PApply q [Some 3%nat; Some 4%nat]; PUnapply p [Some 3%nat] false;
                            PApply p [Some 4%nat]] empty_calc in
  ks_get proj_eqb (c_ptgts c) p = [Some 4%nat] /\ ks_get proj_eqb (c_ptgts c) q = [Some 3%nat; Some 4%nat] /\
  ks_get onat_eqb (c_tgtp c) (Some 3%nat) = [q] /\ ks_get onat_eqb (c_tgtp c) (Some 4%nat) = [q; p].
Proof. vm_compute. repeat split. Qed.

Print Assumptions C13_retarget_messages.
Print Assumptions C13_same_target_noop.
Print Assumptions C13_register_indexes_agree_after_any_calls.
Print Assumptions C13_apply_adds_exactly.
Print Assumptions C13_unapply_removes_exactly.
Print Assumptions C13_retarget_updates_register.
