(* C13 — Projected effects and fleet boosts reach exactly their current targets
   (partial): on the base layer, re-targeting unapplies every running
   projectable effect from the old target and applies it to the new one, in
   that order and nothing else; an unchanged target publishes nothing. That
   the calculator turns these messages into exactly the right affector specs,
   for every set-up order, is compared with the implementation on all
   permutations of the set-up steps. *)
From Coq Require Import List ZArith Bool.
From EosV Require Import lib.AList gen.T_eos model.World model.Ops proofs.Misc_p.
Import ListNotations.

Theorem C13_retarget_messages : forall w i it f old new pe,
  get_item w i = Some it -> i_target it = Some old -> old <> new -> item_fit w i = Some f ->
  fold_right (fun e acc =>
                match acc, item_effect w it e with
                | Some l, Some ef => if Z.eqb (e_cat ef) EffectCategoryId_target then Some (e :: l) else Some l
                | _, _ => None
                end) (Some []) (i_running it) = Some pe ->
  exists w1 w2,
    snd (fst (target_set_op (w, []) i (Some new))) =
    [EvPublish w1 f (map (fun e => MEffectUnapplied i e [Some old] false) pe);
     EvPublish w2 f (map (fun e => MEffectApplied i e [Some new]) pe)].
Proof. exact retarget_events. Qed.

Theorem C13_same_target_noop : forall s i new it,
  get_item (fst s) i = Some it -> onat_eqb (i_target it) new = true -> target_set_op s i new = (s, ROk).
Proof. exact target_same_noop. Qed.

Print Assumptions C13_retarget_messages.
Print Assumptions C13_same_target_noop.
