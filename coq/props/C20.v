(* C20 — Range queries form a metric on item positions.
   Statements only; proofs are in proofs/Range_p.v. *)
From Coq Require Import QArith Qreals Reals.
From EosV Require Import model.Range gen.T_range proofs.Range_p.
Local Open Scope R_scope.

(* The implementation returns sqrt of the model's radicand; ctc_R is that. *)
Theorem C20_ctc_is_euclidean : forall a b, ctc_R a b = euclid a b.
Proof. exact ctc_eq_euclid. Qed.

Theorem C20_ctc_symmetric : forall a b, ctc_R a b = ctc_R b a.
Proof. exact ctc_sym. Qed.

Theorem C20_ctc_zero_iff_same_position : forall a b, ctc_R a b = 0 <-> same_pos a b.
Proof. intros a b; split; [exact (ctc_zero_inv a b)|exact (ctc_zero a b)]. Qed.

Theorem C20_ctc_triangle : forall a b c, ctc_R a c <= ctc_R a b + ctc_R b c.
Proof. exact ctc_triangle. Qed.

(* sts = max 0 (ctc - r1 - r2): never negative, and the executable model's
   decision (sts_is_zero) and radicand describe exactly that real number. *)
Theorem C20_sts_nonneg : forall a b r, 0 <= sts_R a b r.
Proof. exact sts_nonneg. Qed.

Theorem C20_sts_zero_decision :
  forall a b r, sts_is_zero (sqdist a b) r = true <-> Rmax 0 (ctc_R a b - Q2R r) = 0.
Proof. exact sts_is_zero_spec. Qed.

Theorem C20_sts_positive_value :
  forall a b r, sts_is_zero (sqdist a b) r = false ->
    0 < sts_R a b r /\
    (sts_R a b r + Q2R r) * (sts_R a b r + Q2R r) = Q2R (sqdist a b) /\
    0 <= sts_R a b r + Q2R r.
Proof. exact sts_pos_spec. Qed.

Theorem C20_mismatch_rejected :
  forall self i1 i2,
    ctc_sq self i1 i2 = Mismatch <->
    (where_ i1 <> Some self \/ where_ i2 <> Some self).
Proof.
  intros self i1 i2. rewrite ctc_mismatch.
  rewrite <- !belongs_spec. 
  destruct (belongs self i1), (belongs self i2); intuition congruence.
Qed.

Theorem C20_sts_mismatch_rejected :
  forall self i1 i2, sts self i1 i2 = Mismatch <-> ctc_sq self i1 i2 = Mismatch.
Proof.
  intros. rewrite sts_result. destruct (ctc_sq self i1 i2); split; congruence.
Qed.

(* the expressions translated from the current source are the model's *)
Theorem C20_source_radicand :
  forall a b, (gen_radicand (cx a) (cy a) (cz a) (cx b) (cy b) (cz b) == sqdist a b)%Q.
Proof. exact gen_radicand_ok. Qed.

Theorem C20_source_sts :
  forall a b r1 r2, gen_sts (ctc_R a b) (Q2R r1) (Q2R r2) = Rmax 0 (ctc_R a b - Q2R (r1 + r2)).
Proof. exact gen_sts_ok. Qed.

(* non-vacuity: a concrete pair in solar system 1, overlapping and not *)
Example C20_nonvacuous :
  let a := mkRItem (mkCoord 0 0 0) (Some 1%nat) 2 in
  let b := mkRItem (mkCoord 3 4 0) (Some 1%nat) 1 in
  let c := mkRItem (mkCoord 1 1 1) (Some 2%nat) 1 in
  ctc_sq 1 a b = Ok 25%Q /\ sts 1 a b = Ok (mkSts false 3 25) /\
  ctc_sq 1 a c = Mismatch /\
  sts 1 a (mkRItem (mkCoord 1 0 0) (Some 1%nat) 0) = Ok (mkSts true 2 1).
Proof. vm_compute. repeat split. Qed.

Print Assumptions C20_ctc_is_euclidean.
Print Assumptions C20_ctc_symmetric.
Print Assumptions C20_ctc_zero_iff_same_position.
Print Assumptions C20_ctc_triangle.
Print Assumptions C20_sts_nonneg.
Print Assumptions C20_sts_zero_decision.
Print Assumptions C20_sts_positive_value.
Print Assumptions C20_mismatch_rejected.
Print Assumptions C20_sts_mismatch_rejected.
Print Assumptions C20_source_radicand.
Print Assumptions C20_source_sts.
