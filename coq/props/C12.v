(* C12 — Reactive armor hardener simulation obeys its adaptation law.
   Statements only; proofs are in proofs/Rah_p.v, the model in model/Rah.v.
   All statements are about the exact-arithmetic (Q) reading of the simulator;
   the tick limit and the number of significant digits are arbitrary
   (instantiated with the constants translated from the source at the end). *)
From Coq Require Import QArith ZArith List Lia Qpower Qabs.
From EosV Require Import model.Rah gen.T_rah proofs.Rah_p.
Import ListNotations.
Local Open Scope Q_scope.

(* ---- the shift of one cycle (__get_next_resos) --------------------------- *)

(* never fails: the division by the number of recipients is only evaluated
   when there is a recipient *)
Theorem C12_next_total :
  forall cur dmg shift, exists nxt, next_resos cur dmg shift = Ok nxt.
Proof. exact next_resos_total. Qed.

(* the documented law: the `donor_count` least damaged types each give up to
   the shift amount (never more than they have), the others share it equally *)
Theorem C12_next_law :
  forall cur dmg shift nxt,
    next_resos cur dmg shift = Ok nxt ->
    (forall a, In a (donors dmg) ->
       get4 nxt a == get4 cur a + qmin (1 - get4 cur a) shift) /\
    (forall a, In a (recips dmg) ->
       (donor_count dmg < 4)%nat /\
       get4 nxt a == get4 cur a - donated cur dmg shift
                                  / inject_Z (Z.of_nat (4 - donor_count dmg))) /\
    (forall a, In a (donors dmg) \/ In a (recips dmg)) /\
    (2 <= donor_count dmg <= 4)%nat.
Proof.
  intros cur dmg shift nxt H. destruct (next_resos_char _ _ _ _ H) as [A B].
  split; [exact A|]. split; [exact B|]. split; [apply donor_or_recip|apply donor_count_range].
Qed.

Theorem C12_next_conserves :
  forall cur dmg shift nxt,
    not_all_zero dmg -> next_resos cur dmg shift = Ok nxt -> sum4 nxt == sum4 cur.
Proof. exact next_conserves_l. Qed.

Theorem C12_next_le_one :
  forall cur dmg shift nxt,
    (forall a, get4 cur a <= 1) -> 0 <= shift ->
    next_resos cur dmg shift = Ok nxt -> forall a, get4 nxt a <= 1.
Proof. exact next_le_one_l. Qed.

Theorem C12_next_pos :
  forall cur dmg shift nxt,
    3 < sum4 cur -> (forall a, get4 cur a <= 1) -> 0 <= shift -> not_all_zero dmg ->
    next_resos cur dmg shift = Ok nxt -> forall a, 0 < get4 nxt a.
Proof. exact next_pos_l. Qed.

(* donors are the least damaged types; ties are decided by the fixed attribute
   order (em, explosive, kinetic, thermal) *)
Theorem C12_donor_order :
  forall dmg a b,
    (get4 dmg a < get4 dmg b \/ (get4 dmg a == get4 dmg b /\ (ridx a < ridx b)%nat)) ->
    In b (donors dmg) -> In a (donors dmg).
Proof. exact donor_order_l. Qed.

(* ---- util/round.py -------------------------------------------------------- *)

(* sig_round keeps `sig_digits` digits counted from the decimal magnitude of the
   argument, rounding half to even; the search for the magnitude never runs out
   of its fuel *)
Theorem C12_floor_log10_spec :
  forall x, ~ x == 0 ->
    Qpower 10 (floor_log10 x) <= Qabs x /\ Qabs x < Qpower 10 (floor_log10 x + 1).
Proof. exact floor_log10_spec. Qed.

Theorem C12_round_half_even_spec :
  forall n d,
    (Z.abs (2 * (round_half_even (n # d) * Z.pos d - n)) <= Z.pos d)%Z /\
    ((Z.abs (2 * (round_half_even (n # d) * Z.pos d - n)) = Z.pos d)%Z ->
     Z.even (round_half_even (n # d)) = true).
Proof. exact round_half_even_spec. Qed.

(* defined exactly away from zero (math.log10(0) raises), value-determined *)
Theorem C12_sig_round_defined :
  forall x sd, (~ x == 0 -> exists v, sig_round x sd = Ok v) /\
               (x == 0 -> sig_round x sd = Err ELogZero) /\
               (forall y, x == y -> sig_round x sd = sig_round y sd).
Proof.
  intros x sd. split; [apply sig_round_total|]. split; [apply sig_round_zero|].
  intros y. apply sig_round_ext.
Qed.

(* ---- the simulation ------------------------------------------------------ *)

(* quantifier of the property: non-negative profile with a positive component;
   1.. hardeners with resonances in (0,1] summing to more than 3, positive
   shift amount and cycle time; ship resonances available and positive *)

Theorem C12_sim_terminates :
  forall ship_fn sig_digits max prof hs,
    ship_positive ship_fn -> ranges prof hs ->
    exists out, run_sim ship_fn sig_digits max true prof hs = Ok out /\
                (length (so_hist out) <= max)%nat /\
                rah_results ship_fn sig_digits max true prof hs = (so_resos out, false).
Proof. intros. now apply sim_terminates_l. Qed.

Theorem C12_sim_conserves :
  forall ship_fn sig_digits max loaded prof hs out,
    ship_positive ship_fn -> ranges prof hs ->
    run_sim ship_fn sig_digits max loaded prof hs = Ok out ->
    Forall2 (fun h r => sum4 r == sum4 (h_resos h)) hs (so_resos out) /\
    Forall (fun ts => Forall2 (fun h rs => sum4 (t_resos rs) == sum4 (h_resos h)) hs ts)
           (so_hist out).
Proof. intros. eapply sim_conserves_l; eauto. Qed.

Theorem C12_sim_bounds :
  forall ship_fn sig_digits max loaded prof hs out,
    ship_positive ship_fn -> ranges prof hs ->
    run_sim ship_fn sig_digits max loaded prof hs = Ok out ->
    Forall (fun r => forall a, 0 < get4 r a <= 1) (so_resos out) /\
    Forall (fun ts => Forall (fun rs => forall a, 0 < get4 (t_resos rs) a <= 1) ts)
           (so_hist out).
Proof. intros. eapply sim_bounds_l; eauto. Qed.

(* the ship model used for execution (calculator formula, stacking penalised
   pre_mul of the hardeners) satisfies the hypothesis on the ship *)
Theorem C12_calc_ship_positive :
  forall pens base,
    Forall (fun p => 0 <= p <= 1) pens ->
    (forall a, exists b, base a = Some b /\ 0 < b) ->
    ship_positive (calc_ship pens base).
Proof. exact calc_ship_positive. Qed.

(* single-type damage profile.  FULL statement (any number of hardeners):
   every hardener ends with all shiftable resistance on the damaged type. *)
Definition C12_single_type_saturates_full : Prop :=
  forall ship_fn sig_digits max prof hs k out,
    ship_positive ship_fn -> ranges prof hs ->
    0 < pget prof (pf k) -> (forall a, a <> k -> pget prof (pf a) == 0) ->
    run_sim ship_fn sig_digits max true prof hs = Ok out ->
    Forall2 (fun h r => get4 r k == sum4 (h_resos h) - 3 /\
                        forall a, a <> k -> get4 r a == 1) hs (so_resos out).
(* It is false without a bound: with a tiny shift amount saturation is not
   reached within the tick limit (the code averages the history instead), and
   two consecutive states that round alike stop the adaptation early.  Proved
   part: ONE hardener, under the explicit hypotheses that saturation is reached
   after N cycles with N + 2 <= tick limit and that no two of the states
   x_0 .. x_N round to the same 10-digit state.  (Several hardeners with
   different cycle times interleave their shifts through the ship resonance;
   that case is covered by correspondence only.) *)
Theorem C12_single_type_saturates_partial :
  forall ship_fn sig_digits max prof h k sh N,
    ship_positive ship_fn -> hardener_ok h -> h_shift h = Some sh -> 0 <= sh ->
    0 < pget prof (pf k) -> (forall a, a <> k -> pget prof (pf a) == 0) ->
    saturated k (sat_iter k sh N (h_resos h)) ->
    (forall i j, (i < j <= N)%nat ->
       req sig_digits (sat_iter k sh i (h_resos h)) (sat_iter k sh j (h_resos h)) = false) ->
    (N + 2 <= max)%nat ->
    exists out r, run_sim ship_fn sig_digits max true prof [h] = Ok out /\
                  so_how out = LoopAt N /\ so_resos out = [r] /\
                  get4 r k == sum4 (h_resos h) - 3 /\
                  forall a, a <> k -> get4 r a == 1.
Proof.
  intros ship_fn sig_digits max prof h k sh N Hship Hh Hsh Hsh0 Pk Pz Hsat Hdist Hmax.
  exact (single_type_saturates_l ship_fn sig_digits Hship k sh Hsh0 h prof Hh Hsh Pk Pz
           N Hsat Hdist max Hmax).
Qed.

(* ---- the wrapper (get_reso / which hardeners are simulated) -------------- *)

(* no loaded ship: every hardener exposes its plain values, nothing is logged *)
Theorem C12_unsimulated_without_ship :
  forall ship_fn sig_digits max prof all,
    rah_read ship_fn sig_digits max false prof all =
    (map (fun x => h_resos (snd x)) all, false).
Proof. exact unsimulated_no_ship. Qed.

(* a hardener that is not running exposes its plain values whatever happens *)
Theorem C12_unsimulated_when_not_running :
  forall ship_fn sig_digits max loaded prof all i h,
    nth_error all i = Some (false, h) ->
    nth_error (fst (rah_read ship_fn sig_digits max loaded prof all)) i = Some (h_resos h).
Proof. exact unsimulated_not_running. Qed.

(* any failure inside the simulation: plain values and a log record *)
Theorem C12_fallback_on_error :
  forall ship_fn sig_digits max loaded prof all e,
    map snd (filter fst all) <> [] ->
    run_sim ship_fn sig_digits max loaded prof (map snd (filter fst all)) = Err e ->
    rah_read ship_fn sig_digits max loaded prof all =
    (map (fun x => h_resos (snd x)) all, true).
Proof. exact fallback_read. Qed.

(* ---- the tables translated from the source on this run -------------------- *)

Theorem C12_tables :
  gen_res_attr_ids = map rattr_id res_order /\
  (forallb (fun p => existsb (fun q => Z.eqb (fst q) (rattr_id (fst p)) &&
                                       String.eqb (snd q) (pfield_name (snd p)))
                             gen_attr_profile_map) attr_profile_map = true /\
   length gen_attr_profile_map = 4%nat) /\
  forallb (fun k => existsb (fun h => String.eqb (fst (fst h)) k && snd h) gen_handlers)
          required_clearing_kinds = true /\
  (1 <= gen_MAX_SIMULATION_TICKS)%nat /\ (1 <= gen_SIG_DIGITS)%Z.
Proof.
  split; [exact gen_order_ok|]. split; [exact gen_profile_map_ok|].
  split; [exact gen_handlers_ok|]. exact gen_constants_ok.
Qed.

Theorem C12_hardener_modifier_table :
  gen_rah_modifier = expected_rah_modifier /\
  forallb (fun a => existsb (Z.eqb (rattr_id a)) gen_rah_modifier_attrs) res_order = true /\
  length gen_rah_modifier_attrs = 4%nat.
Proof. exact gen_modifier_ok. Qed.

(* the simulator as it runs: the source's constants *)
Theorem C12_sim_terminates_source_constants :
  forall ship_fn prof hs,
    ship_positive ship_fn -> ranges prof hs ->
    exists out, run_sim ship_fn gen_SIG_DIGITS gen_MAX_SIMULATION_TICKS true prof hs = Ok out /\
                (length (so_hist out) <= gen_MAX_SIMULATION_TICKS)%nat.
Proof.
  intros ship_fn prof hs Hs Hr.
  destruct (sim_terminates_l ship_fn gen_SIG_DIGITS Hs gen_MAX_SIMULATION_TICKS prof hs Hr)
    as [out [E [L _]]]. eauto.
Qed.

(* ---- non-vacuity --------------------------------------------------------- *)

Definition ex_pens : list Q := [1; 1 # 2; 1 # 16].
Definition ex_base (a : rattr) : option Q :=
  Some (match a with Em => 1 # 2 | Therm => 13 # 20 | Kin => 3 # 4 | Expl => 9 # 10 end).
Definition ex_h : hardener :=
  mkH (mk4 (17 # 20) (17 # 20) (17 # 20) (17 # 20)) (Some 6) (Some 1).
Definition ex_prof : profile := mkProfile 25 25 25 25.

(* the hypotheses of the simulation theorems are satisfiable, and the model
   computes the values of the repository's own test (test_rah_added):
   em 1, thermal 0.925, kinetic 0.82, explosive 0.655 *)
Example C12_nonvacuous_ranges :
  ship_positive (calc_ship ex_pens ex_base) /\ ranges ex_prof [ex_h].
Proof.
  split.
  - apply calc_ship_positive.
    + repeat constructor; cbn; try discriminate.
    + intros a. eexists. split; [reflexivity|]. destruct a; reflexivity.
  - split; [|split; [|discriminate]].
    + split; [intros []; cbn; discriminate|]. exists PEm. reflexivity.
    + constructor; [|constructor]. split; [|split; [|split]].
      * intros a; destruct a; cbn; split; try reflexivity; discriminate.
      * reflexivity.
      * exists 6. split; reflexivity.
      * exists 1. split; reflexivity.
Qed.

Example C12_nonvacuous_run :
  match run_sim (calc_ship ex_pens ex_base) 10 500 true ex_prof [ex_h] with
  | Ok out => so_how out = LoopAt 3 /\
              map (fun r => map (fun a => Qred (get4 r a)) res_order) (so_resos out)
              = [[1; 131 # 200; 41 # 50; 37 # 40]]
  | Err _ => False
  end.
Proof. vm_compute. split; reflexivity. Qed.

(* sig_round on exact values: half to even at the tenth digit, magnitude
   counted from the first significant digit, negative digit positions *)
Example C12_nonvacuous_sig_round :
  sig_round (12345678905 # 100000000000) 10 = Ok (123456789 # 1000000000) /\
  sig_round (12345678915 # 100000000000) 10 = Ok (308641973 # 2500000000) /\
  sig_round (123455 # 10) 5 = Ok 12346 /\ sig_round (-12345 # 100000000) 2 = Ok (-3 # 25000) /\
  sig_round 1 10 = Ok 1 /\ sig_round (0 # 5) 10 = Err ELogZero.
Proof. vm_compute. repeat split; reflexivity. Qed.

(* a genuine tie decided by the attribute order: equal damage everywhere, the
   donors are em and explosive *)
Example C12_nonvacuous_tie :
  donors (mk4 5 5 5 5) = [Em; Expl] /\
  next_resos (mk4 (1#2) (1#2) (1#2) (1#2)) (mk4 5 5 5 5) (1#10)
  = Ok (mk4 (3#5) (3#5) (2#5) (2#5)).
Proof. vm_compute. split; reflexivity. Qed.

(* single-type profile: saturation after 3 cycles, distinct rounded states *)
Example C12_nonvacuous_saturation :
  let r0 := h_resos ex_h in
  saturated Em (sat_iter Em 6 3 r0) /\
  (forall i j, (i < j <= 3)%nat -> req 10 (sat_iter Em 6 i r0) (sat_iter Em 6 j r0) = false) /\
  match run_sim (calc_ship ex_pens ex_base) 10 500 true (mkProfile 7 0 0 0) [ex_h] with
  | Ok out => map (fun r => map (fun a => Qred (get4 r a)) res_order) (so_resos out)
              = [[2 # 5; 1; 1; 1]]
  | Err _ => False
  end.
Proof.
  split; [|split].
  - intros a Ha. destruct a; try congruence; vm_compute; reflexivity.
  - intros i j H.
    destruct i as [|[|[|i]]]; destruct j as [|[|[|[|j]]]]; try lia; vm_compute; reflexivity.
  - vm_compute. reflexivity.
Qed.

(* the fallback is reachable: a hardener without shift attribute, a hardener
   with a zero resonance (log10 of 0), a ship without the attribute *)
Example C12_nonvacuous_fallback :
  run_sim (calc_ship ex_pens ex_base) 10 500 true ex_prof
          [mkH (h_resos ex_h) None (Some 1)] = Err EKeyShift /\
  run_sim (calc_ship ex_pens ex_base) 10 500 true ex_prof
          [mkH (mk4 0 1 1 1) (Some 6) (Some 1)] = Err ELogZero /\
  run_sim (calc_ship ex_pens (fun _ => None)) 10 500 true ex_prof [ex_h] = Err EKeyShip /\
  rah_read (calc_ship ex_pens ex_base) 10 500 true ex_prof
           [(true, mkH (h_resos ex_h) None (Some 1)); (false, ex_h)]
  = ([h_resos ex_h; h_resos ex_h], true).
Proof. vm_compute. repeat split; reflexivity. Qed.

Print Assumptions C12_next_total.
Print Assumptions C12_next_law.
Print Assumptions C12_next_conserves.
Print Assumptions C12_next_le_one.
Print Assumptions C12_next_pos.
Print Assumptions C12_donor_order.
Print Assumptions C12_floor_log10_spec.
Print Assumptions C12_round_half_even_spec.
Print Assumptions C12_sig_round_defined.
Print Assumptions C12_sim_terminates.
Print Assumptions C12_sim_conserves.
Print Assumptions C12_sim_bounds.
Print Assumptions C12_calc_ship_positive.
Print Assumptions C12_single_type_saturates_partial.
Print Assumptions C12_unsimulated_without_ship.
Print Assumptions C12_unsimulated_when_not_running.
Print Assumptions C12_fallback_on_error.
Print Assumptions C12_tables.
Print Assumptions C12_hardener_modifier_table.
Print Assumptions C12_sim_terminates_source_constants.
