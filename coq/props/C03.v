(* C03 — Validation equals the stateless restriction rules and reports only
   real items.  Statements only; proofs are in proofs/Restrictions_p.v.

   model/Restrictions.v     : the 29 register containers of the 15 register-backed
                              restrictions and of the 11 stat registers, as folds
                              over the engine's publications ([restr_events],
                              [xstep]); the validate() bodies of all 34 registered
                              restrictions ([restrictions]); the service
                              ([validate_rules], [validate])
   model/RestrictionsSpec.v : [spec_validate] (stateless: tracked sets are
                              comprehensions over the current world), [faithful]
                              (the edit-script hypothesis on event traces),
                              [containers_owned], [oequiv] (dict equality)
   Hypotheses that other layers discharge are explicit:
     faithful_all evs w f   message discipline of the trace (MD, DESIGN 5.1)
     coherent rd Inv val    reads return the values [val] whatever is cached (CC)
     containers_owned w f   containers and back-pointers agree (C07)             *)
From Coq Require Import ZArith QArith List Bool Permutation.
From EosV Require Import lib.AList gen.T_eos gen.T_restr model.World model.Status model.Calc model.Engine
  model.Ops model.Restrictions model.RestrictionsSpec proofs.Restrictions_p.
Import ListNotations.
Open Scope Z_scope.

(* --- the source tables are the constants of the model ------------------------ *)
(* [tables_statement] (proofs/Restrictions_p.v): the registered restriction types,
   the message kinds each register subscribes to, the state / effect each handler
   looks for, every attribute id and constant of the method bodies, the tracked
   classes and the item-class validators generated from the source are the ones
   the model uses *)
Theorem C03_source_tables : tables_statement.
Proof. exact tables_ok. Qed.

(* --- 1. register exactness ------------------------------------------------------ *)
(* generic: a register that inserts (x, P x) on the "on" message of its channel
   when P x is defined and removes it on the "off" message holds, after any
   faithful edit script, exactly the entries of the items that are on *)
Theorem C03_register_exact_generic : forall d sigs r st fin,
  desc_ok d -> reg_inv d r st ->
  (forall x, script_ok (st x) (item_sigs x sigs) (fin x)) ->
  reg_inv d (fold_left (sig_step d) sigs r) fin.
Proof. exact register_exact_generic. Qed.

(* every register of the model satisfies the side condition ... *)
Theorem C03_all_registers_ok : forall r, desc_ok (desc r).
Proof. exact desc_ok_all. Qed.

(* ... hence each of the 29 registers of every fit equals (as a set) the
   stateless tracked set of the current world *)
Theorem C03_registers_exact : forall evs w f r,
  faithful (rd_chan (desc r)) evs w f ->
  Permutation (fr_get (rr_get (restr_events [] evs) f) r) (spec_reg w f r).
Proof. exact registers_exact. Qed.

(* the faithfulness hypothesis is an invariant of the message-discipline layer.
   Full statement (every operation of [Ops.md_op]); the engine layer's MD theorem: *)
Definition C03_faithful_md_op_statement : Prop := forall evs w f o,
  faithful_all evs w f ->
  faithful_all (evs ++ snd (fst (md_op w o))) (fst (fst (md_op w o))) f.
(* proved here only for operations that publish nothing on the register channels
   and leave the items untouched (new solar system, the four reads); the
   container / state / load / source operations are NOT covered here — for a
   concrete history see C03_ex_faithful below *)
Theorem C03_faithful_md_op_partial : forall evs w f o,
  quiet_op o = true -> faithful_all evs w f ->
  faithful_all (evs ++ snd (fst (md_op w o))) (fst (fst (md_op w o))) f.
Proof. exact faithful_md_op_partial. Qed.

(* --- 2. validate = stateless rules, every skip set; numbers included ------------ *)
Theorem C03_validate_eq_spec : forall evs w f (Inv : derived -> Prop) val d skip,
  faithful_all evs w f -> coherent (read_attr PF w) Inv val -> Inv (d_clear d) ->
  oequiv (snd (validate w d (restr_events [] evs) f skip)) (spec_validate w val f skip)
  /\ Inv (fst (validate w d (restr_events [] evs) f skip)).
Proof. exact validate_eq_spec_model. Qed.

(* the verdict and the data depend on the current configuration only *)
Theorem C03_verdict_cfg_only : forall evs1 evs2 w f val skip,
  faithful_all evs1 w f -> faithful_all evs2 w f ->
  oequiv (snd (validate_rules (pure_rd val) w (model_regs evs1 f) f skip tt))
         (snd (validate_rules (pure_rd val) w (model_regs evs2 f) f skip tt)).
Proof. exact verdict_cfg_only. Qed.

(* --- 3. only live items are reported ------------------------------------------- *)
Theorem C03_reported_live : forall evs w f (Inv : derived -> Prop) val d skip out,
  faithful_all evs w f -> containers_owned w f ->
  coherent (read_attr PF w) Inv val -> Inv (d_clear d) ->
  snd (validate w d (restr_events [] evs) f skip) = Some out ->
  Forall (fun e : ventry => key_live w f (fst (fst e))) out.
Proof. exact reported_live_model. Qed.

Theorem C03_spec_reported_live : forall w val f skip out,
  containers_owned w f -> spec_validate w val f skip = Some out ->
  Forall (fun e : ventry => key_live w f (fst (fst e))) out.
Proof. exact spec_reported_live. Qed.

(* --- 4. skip_checks is a filter on restriction types ---------------------------- *)
(* for arbitrary register contents (no faithfulness needed) *)
Theorem C03_skip_is_filter : forall w (Inv : derived -> Prop) val rr f d d' skip out,
  coherent (read_attr PF w) Inv val -> Inv (d_clear d) -> Inv (d_clear d') ->
  snd (validate w d rr f []) = Some out ->
  snd (validate w d' rr f skip) = Some (restrict_types skip out).
Proof. exact skip_is_filter_model. Qed.

(* --- the read hypothesis is satisfiable ----------------------------------------- *)
Theorem C03_coherent_pure : forall val, coherent (pure_rd val) (fun _ => True) val.
Proof. intros val d x a _. split; [exact I|reflexivity]. Qed.

(* --- non-vacuity: a concrete history ------------------------------------------- *)
(* ship with 0 high slots (after modification by nothing), module placed at
   index 2 of the high rack: two holes in front of it *)
Definition ex_universe : universe :=
  mkUniverse
    [(AttrId_hi_slots, mkAttr None true true None)]
    [(EffectId_hi_power, mkEffect EffectCategoryId_passive None None [] false None)]
    [(TypeId_character_static, mkType (Some TypeGroupId_character) None [] [] None []);
     (100, mkType (Some 25) (Some TypeCategoryId_ship) [(AttrId_hi_slots, 0%Q)] [] None []);
     (200, mkType (Some 55) (Some TypeCategoryId_module) [] [EffectId_hi_power] None [])]
    [].
Definition ex_ops : list op :=
  [ODefSource 1 ex_universe; ONewSolsys 1; OSource 1 (Some 1%nat); ONewFit 1 1; OSolsysAdd 1 1;
   ONewItem 10 CShip 100 1 0; OSlot 1 SlShip (Some 10%nat);
   ONewItem 11 CModHigh 200 1 0; ORackPlace 1 RHigh 2 11].
Definition ex_run : xsys * list event :=
  fold_left (fun (acc : xsys * list event) o =>
               let '(x', _, evs) := step_ev (fst (fst acc)) o in
               ((x', restr_events (snd (fst acc)) evs), snd acc ++ evs)) ex_ops (xinit [], []).
Definition ex_w : world := s_w (fst (fst ex_run)).
Definition ex_evs : list event := snd ex_run.

(* the registers are the fold over the recorded events, the high rack has two holes *)
Example C03_ex_setup :
  snd (fst ex_run) = restr_events [] ex_evs /\
  rack_of ex_w 1 RHigh = [None; None; Some 11%nat].
Proof. vm_compute. split; reflexivity. Qed.

(* the trace is a faithful edit script for every register channel *)
Example C03_ex_faithful : faithful_all ex_evs ex_w 1.
Proof.
  intros r x.
  do 12 (destruct x as [|x];
         [destruct r as [| | | | |k|k| | | |k| | | | | | | | | |k]; try destruct k; vm_compute; repeat split; reflexivity|]).
  destruct r as [| | | | |k|k| | | |k| | | | | | | | | |k]; try destruct k; vm_compute; repeat split; reflexivity.
Qed.

(* validate() reports the module beyond the slot limit with used = 3, total = 0,
   and no key is an empty slot *)
Example C03_ex_validate :
  exists out, snd (validate ex_w (s_d (fst (fst ex_run))) (snd (fst ex_run)) 1 []) = Some out /\
    In (Some 11%nat, Restriction_high_slot, ESlotQty 3 0) out /\
    forallb (fun e : ventry => match fst (fst e) with Some _ => true | None => false end) out = true /\
    spec_validate ex_w (fun x a => snd (read_attr PF ex_w (s_d (fst (fst ex_run))) x a)) 1 [] = Some out.
Proof.
  eexists. split; [vm_compute; reflexivity|]. split; [vm_compute; tauto|]. split; vm_compute; reflexivity.
Qed.

Print Assumptions C03_source_tables.
Print Assumptions C03_register_exact_generic.
Print Assumptions C03_all_registers_ok.
Print Assumptions C03_registers_exact.
Print Assumptions C03_faithful_md_op_partial.
Print Assumptions C03_validate_eq_spec.
Print Assumptions C03_verdict_cfg_only.
Print Assumptions C03_reported_live.
Print Assumptions C03_spec_reported_live.
Print Assumptions C03_skip_is_filter.
Print Assumptions C03_coherent_pure.
Print Assumptions C03_ex_setup.
Print Assumptions C03_ex_faithful.
Print Assumptions C03_ex_validate.
