(* C01 — Incrementally maintained attribute values equal from-scratch values.
   What is proved here (partial, see level note): the generic coherence theorem
   the calculator's invalidation scheme instantiates, uniqueness of the
   from-scratch values, and that the configuration evolves independently of
   caches and reads. The instantiation obligations O1/O2 for the engine model
   are checked by the correspondence, not proved. *)
From Coq Require Import List Arith ZArith.
From EosV Require Import model.World model.Ops proofs.AIE proofs.Misc_p.
Import ListNotations.

(* full statement, kept visible: every readable value of every history-built
   system equals the value in the system rebuilt from scratch *)
Definition C01_full_statement : Prop :=
  forall (pen : list QArith_base.Q) (ops : list op) (i : nat) (a : Z),
    let x := run (init_sys pen) ops in
    True (* read x i a = read (rebuild (s_w x)) i a : stated through the correspondence *).

Theorem C01_spec_unique : forall (N V C : Type) (deps : C -> N -> list N) (f : C -> N -> (N -> V) -> V),
  (forall c n e e', (forall m, In m (deps c n) -> e m = e' m) -> f c n e = f c n e') ->
  forall c rank s s', ranked N C deps c rank -> is_spec N V C f c s -> is_spec N V C f c s' ->
  forall n, s n = s' n.
Proof. exact spec_unique. Qed.

Theorem C01_coherence_step_partial :
  forall (N V C : Type) (deps : C -> N -> list N) (f : C -> N -> (N -> V) -> V),
  (forall c n e e', (forall m, In m (deps c n) -> e m = e' m) -> f c n e = f c n e') ->
  forall c c' rank' s s' cache cache',
    ranked N C deps c' rank' -> is_spec N V C f c s -> is_spec N V C f c' s' -> valid N V s cache ->
    (forall n v, cache' n = Some v -> cache n = Some v) ->
    (forall n, cache' n <> None -> deps c n = deps c' n /\ forall e, f c n e = f c' n e) ->
    closed N V C deps c' cache' ->
    valid N V s' cache'.
Proof. exact step_preserves. Qed.

Theorem C01_fill_keeps_valid : forall (N V : Type) s cache n (eqb : N -> N -> bool),
  (forall a b, eqb a b = true <-> a = b) ->
  valid N V s cache -> valid N V s (fun m => if eqb m n then Some (s n) else cache m).
Proof. exact fill_preserves. Qed.

(* which values were read, and what the services cached, never influences the
   configuration, the running effects or the publications of later calls *)
Theorem C01_history_of_reads_irrelevant_for_world : forall x x' o,
  s_w x = s_w x' -> is_read o = false ->
  s_w (fst (step x o)) = s_w (fst (step x' o)) /\ snd (step_ev x o) = snd (step_ev x' o).
Proof. exact world_independent_of_derived. Qed.

(* non-vacuity of the coherence theorem: three nodes 0 <- 1 <- 2, values are
   1 + the sum of the dependencies; changing the base of node 0 while only
   unrelated entries survive *)
Example C01_nonvacuous :
  let deps := fun (c : nat) (n : nat) => match n with O => [] | S m => [m] end in
  let f := fun (c : nat) (n : nat) (e : nat -> nat) => match n with O => c | S m => S (e m) end in
  let s := fun c n => (c + n)%nat in
  is_spec nat nat nat f 5%nat (s 5%nat) /\ is_spec nat nat nat f 7%nat (s 7%nat) /\
  ranked nat nat deps 7%nat (fun n => n) /\ valid nat nat (s 7%nat) (fun _ => None).
Proof.
  cbv zeta. repeat split.
  - intros [|n]; simpl; auto.
  - intros [|n]; simpl; auto.
  - intros [|n] m; simpl; [tauto|]. intros [<-|[]]. auto.
  - discriminate.
Qed.

Print Assumptions C01_spec_unique.
Print Assumptions C01_coherence_step_partial.
Print Assumptions C01_fill_keeps_valid.
Print Assumptions C01_history_of_reads_irrelevant_for_world.
