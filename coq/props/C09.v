(* C09 — Reading values is pure (partial): reads are typed to work on the
   derived state only; they cannot change configuration, containers, running
   effects, and publish nothing. Value stability of the caches is C01's
   coherence theorem plus the read-discipline correspondence. *)
From Coq Require Import List ZArith.
From EosV Require Import model.World model.Calc model.Ops proofs.Misc_p proofs.Reads_p.
Import ListNotations.

Theorem C09_reads_keep_world : forall x o,
  is_read o = true -> s_w (fst (step x o)) = clear_err (s_w x).
Proof. exact read_step_keeps_world. Qed.

Theorem C09_reads_publish_nothing : forall x o, is_read o = true -> snd (step_ev x o) = [].
Proof. exact read_step_publishes_nothing. Qed.

Theorem C09_reads_do_not_influence_mutations : forall x x' o,
  s_w x = s_w x' -> is_read o = false ->
  s_w (fst (step x o)) = s_w (fst (step x' o)) /\ snd (step_ev x o) = snd (step_ev x' o).
Proof. exact world_independent_of_derived. Qed.

(* a read, of any depth of recursion, leaves the calculator's registers, the
   penalty table and the modifier-id counter exactly as they were: only value
   caches (and the error flag) can differ *)
Theorem C09_read_keeps_registers : forall fuel w d i a,
  let d' := fst (read_attr fuel w d i a) in
  d_calcs d' = d_calcs d /\ d_next d' = d_next d /\ d_pen d' = d_pen d.
Proof.
  intros fuel w d i a d'. pose proof (read_keeps_registers fuel w d i a) as H. unfold dk in H.
  fold d' in H. injection H as H1 H2 H3 H4. repeat split; assumption.
Qed.
Theorem C09_read_step_keeps_registers : forall x o,
  is_read o = true ->
  d_calcs (s_d (fst (step x o))) = d_calcs (s_d x) /\ d_pen (s_d (fst (step x o))) = d_pen (s_d x) /\
  d_next (s_d (fst (step x o))) = d_next (s_d x).
Proof. exact read_step_keeps_registers. Qed.

Example C09_nonvacuous : is_read (ORead 1 2%Z) = true /\ is_read (OKeys 1) = true /\ is_read (OState 1 2%Z) = false.
Proof. repeat split. Qed.

Print Assumptions C09_reads_keep_world.
Print Assumptions C09_reads_publish_nothing.
Print Assumptions C09_reads_do_not_influence_mutations.
Print Assumptions C09_read_keeps_registers.
Print Assumptions C09_read_step_keeps_registers.
