(* C02 — Attribute values follow the dogma modification rules (partial): the
   rule tables the calculation uses are re-translated from the source on every
   run and equal the documented ones; arithmetic building blocks (stacking
   cut-off, cap, two-digit rounding) meet their specification. That the
   implementation-shaped calculation (model/Calc.v read_attr / combine_mods,
   which uses exactly these tables) is what eos computes for every filter x
   domain x operator x aggregate combination is established by correspondence. *)
From Coq Require Import ZArith QArith List Bool.
From Coq Require Import Permutation.
From EosV Require Import lib.AList gen.T_eos model.World model.Calc proofs.Combine_p proofs.Perm_p.
Import ListNotations.

Theorem C02_penalizable_operators : PENALIZABLE_OPERATORS = [2; 6; 9; 3; 8]%Z.
Proof. exact tbl_penalizable. Qed.
Theorem C02_penalty_immune_categories : PENALTY_IMMUNE_CATEGORY_IDS = [6; 8; 16; 20; 32]%Z.
Proof. exact tbl_immune. Qed.
Theorem C02_normalization :
  NORMALIZATION_MAP = [(1, NId); (2, NMinus1); (3, NInvMinus1); (4, NId); (5, NNeg); (6, NMinus1);
                       (7, NMinus1); (8, NInvMinus1); (9, NPercent); (10, NId)]%Z.
Proof. exact tbl_normalization. Qed.
Theorem C02_operator_classes :
  ASSIGNMENT_OPERATORS = [1; 10]%Z /\ ADDITION_OPERATORS = [4; 5]%Z /\
  MULTIPLICATION_OPERATORS = [2; 3; 6; 7; 8; 9]%Z.
Proof. exact tbl_classes. Qed.
Theorem C02_operator_precedence : ModOperator_members = [1; 2; 3; 4; 5; 6; 7; 8; 9; 10]%Z.
Proof. exact tbl_operator_precedence. Qed.
Theorem C02_classes_partition :
  forallb (fun op => Nat.eqb (length (filter (fun l => mem zeqb l op)
                                      [ASSIGNMENT_OPERATORS; ADDITION_OPERATORS; MULTIPLICATION_OPERATORS])) 1)
          (map fst NORMALIZATION_MAP) = true
  /\ forallb (fun op => mem zeqb MULTIPLICATION_OPERATORS op) PENALIZABLE_OPERATORS = true
  /\ mem zeqb PENALIZABLE_OPERATORS ModOperator_post_mul_immune = false.
Proof. exact tbl_classes_partition. Qed.
Theorem C02_limited_precision_attrs : LIMITED_PRECISION_ATTR_IDS = [50; 30; 48; 11]%Z.
Proof. exact tbl_limited_precision. Qed.

Theorem C02_no_modification_no_change : forall pen hig base, combine_mods pen hig base [] = base.
Proof. exact combine_no_mods. Qed.
Theorem C02_stacking_cutoff : forall pen l,
  chain_value pen (S PENALTY_CUTOFF) l = chain_value pen 11 (firstn 11 l).
Proof. exact penalty_ignores_tail. Qed.
Theorem C02_cap_le_max : forall v m, (Qmin' v m <= m)%Q /\ (Qmin' v m <= v)%Q.
Proof. intros; split; [apply Qmin'_le_r|apply Qmin'_le_l]. Qed.
Theorem C02_round2_hundredths : forall x, exists z : Z, (round2 x == z # 100)%Q.
Proof. exact round2_hundredths. Qed.
Theorem C02_round_nearest : forall x,
  (inject_Z (round_half_even x) - (1#2) <= x /\ x <= inject_Z (round_half_even x) + (1#2))%Q.
Proof. exact round_half_even_near. Qed.

(* --- what the combined value IS (all inputs, no bound on their number) ---------------------------- *)
(* The base value is taken through ALL ten operators in their fixed order. Each operator is applied to
   [op_vals]: the penalty-free values that reach it (stacking modifications, plus the survivor of every
   minimum / maximum aggregation group that is not penalised), followed by ONE combined value of the
   penalised ones (the stacking-penalty chain over penalised stacking values and penalised survivors;
   absent when there are none). Assignments take the extreme by high-is-good, additions add, the
   multiplications multiply by (1 + x); an operator nothing reaches leaves the value alone. *)
Theorem C02_value_by_operator : forall pen hig base mods,
  combine_mods pen hig base mods =
  fold_left (fun value op => opl hig value op (op_vals pen mods op)) ModOperator_members base.
Proof. exact combine_mods_by_operator. Qed.
(* the pieces [op_vals] is made of, in terms of the gathered modifications only *)
Theorem C02_group_members : forall mods mode k,
  getl aggkey_eqb (aggs mode mods) k
  = map (fun g => (g_val g, g_pen g))
        (filter (fun g => Z.eqb (g_mode g) mode && aggkey_eqb k (g_op g, g_key g)) mods).
Proof. exact group_members_spec. Qed.
Theorem C02_minimum_survivor_is_a_member : forall x r, In (pick_min x r) (x :: r).
Proof. exact (proj2 pick_min_ok). Qed.
Theorem C02_maximum_survivor_is_a_member : forall x r, In (pick_max x r) (x :: r).
Proof. exact (proj2 pick_max_ok). Qed.
(* no member of a group beats the survivor: nothing is smaller than the minimum survivor by the key
   (value, penalised), nothing is larger than the maximum survivor by the key (value, not penalised) *)
Theorem C02_minimum_survivor_is_least : forall x r y, In y (x :: r) -> key_lt y (pick_min x r) = false.
Proof. exact pick_min_least. Qed.
Theorem C02_maximum_survivor_is_greatest : forall x r y,
  In y (x :: r) -> key_lt (flipk (pick_max x r)) (flipk y) = false.
Proof. exact pick_max_greatest. Qed.
Theorem C02_group_key_order : forall a b,
  key_lt a b = true <-> (fst a < fst b \/ (fst a == fst b /\ snd a = false /\ snd b = true))%Q.
Proof. exact key_lt_spec. Qed.
Theorem C02_only_post_mul_unpenalised : forall pen hig base mods,
  (forall g, In g mods -> g_op g = ModOperator_post_mul /\ g_mode g = ModAggregateMode_stack /\ g_pen g = false) ->
  combine_mods pen hig base mods = fold_left (fun a x => (a * (1 + x))%Q) (map g_val mods) base.
Proof. exact combine_only_post_mul. Qed.
(* ... and it does not depend on the order in which the modifications were gathered *)
Theorem C02_value_independent_of_gathering_order : forall pen hig base mods mods',
  Permutation mods mods' -> Forall (fun g => Qred (g_val g) = g_val g) mods ->
  (combine_mods pen hig base mods == combine_mods pen hig base mods')%Q.
Proof. exact combine_mods_perm. Qed.

(* non-vacuity: base 100, +10% and +20% post_percent on a non-stackable
   attribute from a non-immune source (penalised chain, strongest first), then
   a +5 addition: 100 * (1.2) * (1 + 0.1 * pen1) + ... computed by the model *)
Example C02_nonvacuous :
  let pen := [1%Q; (1#2)%Q] in
  Qred (combine_mods pen true 100%Q [mkGmod 9%Z (1#10)%Q true 1%Z None; mkGmod 9%Z (2#10)%Q true 1%Z None;
                                     mkGmod 4%Z 5%Q false 1%Z None])
  = Qred ((100 + 5) * ((1 + (2#10)) * (1 + (1#10) * (1#2))))%Q.
Proof. vm_compute. reflexivity. Qed.

Print Assumptions C02_penalizable_operators.
Print Assumptions C02_penalty_immune_categories.
Print Assumptions C02_normalization.
Print Assumptions C02_operator_classes.
Print Assumptions C02_operator_precedence.
Print Assumptions C02_classes_partition.
Print Assumptions C02_limited_precision_attrs.
Print Assumptions C02_no_modification_no_change.
Print Assumptions C02_stacking_cutoff.
Print Assumptions C02_cap_le_max.
Print Assumptions C02_round2_hundredths.
Print Assumptions C02_round_nearest.
Print Assumptions C02_value_by_operator.
Print Assumptions C02_group_members.
Print Assumptions C02_minimum_survivor_is_a_member.
Print Assumptions C02_maximum_survivor_is_a_member.
Print Assumptions C02_minimum_survivor_is_least.
Print Assumptions C02_maximum_survivor_is_greatest.
Print Assumptions C02_group_key_order.
Print Assumptions C02_only_post_mul_unpenalised.
Print Assumptions C02_value_independent_of_gathering_order.
