(* C02 — Attribute values follow the dogma modification rules (partial): the
   rule tables the calculation uses are re-translated from the source on every
   run and equal the documented ones; arithmetic building blocks (stacking
   cut-off, cap, two-digit rounding) meet their specification. That the
   implementation-shaped calculation (model/Calc.v read_attr / combine_mods,
   which uses exactly these tables) is what eos computes for every filter x
   domain x operator x aggregate combination is established by correspondence. *)
From Coq Require Import ZArith QArith List Bool.
From EosV Require Import lib.AList gen.T_eos model.World model.Calc proofs.Combine_p.
Import ListNotations.

Theorem C02_penalizable_operators : PENALIZABLE_OPERATORS = [2; 6; 9; 3; 8]%Z.
Proof. exact tbl_penalizable. Qed.
Theorem C02_penalty_immune_categories : PENALTY_IMMUNE_CATEGORY_IDS = [6; 8; 16; 20; 32]%Z.
Proof. exact tbl_immune. Qed.
Theorem C02_normalization :
  NORMALIZATION_MAP = [(1, NId); (2, NMinus1); (3, NInvMinus1); (4, NId); (5, NNeg); (6, NMinus1);
                       (7, NMinus1); (8, NInvMinus1); (9, NPercent); (10, NId)]%Z.
Proof. exact tbl_normalization. Qed.
Theorem C02_operator_classes :
  ASSIGNMENT_OPERATORS = [1; 10]%Z /\ ADDITION_OPERATORS = [4; 5]%Z /\
  MULTIPLICATION_OPERATORS = [2; 3; 6; 7; 8; 9]%Z.
Proof. exact tbl_classes. Qed.
Theorem C02_operator_precedence : ModOperator_members = [1; 2; 3; 4; 5; 6; 7; 8; 9; 10]%Z.
Proof. exact tbl_operator_precedence. Qed.
Theorem C02_classes_partition :
  forallb (fun op => Nat.eqb (length (filter (fun l => mem zeqb l op)
                                      [ASSIGNMENT_OPERATORS; ADDITION_OPERATORS; MULTIPLICATION_OPERATORS])) 1)
          (map fst NORMALIZATION_MAP) = true
  /\ forallb (fun op => mem zeqb MULTIPLICATION_OPERATORS op) PENALIZABLE_OPERATORS = true
  /\ mem zeqb PENALIZABLE_OPERATORS ModOperator_post_mul_immune = false.
Proof. exact tbl_classes_partition. Qed.
Theorem C02_limited_precision_attrs : LIMITED_PRECISION_ATTR_IDS = [50; 30; 48; 11]%Z.
Proof. exact tbl_limited_precision. Qed.

Theorem C02_no_modification_no_change : forall pen hig base, combine_mods pen hig base [] = base.
Proof. exact combine_no_mods. Qed.
Theorem C02_stacking_cutoff : forall pen l,
  chain_value pen (S PENALTY_CUTOFF) l = chain_value pen 11 (firstn 11 l).
Proof. exact penalty_ignores_tail. Qed.
Theorem C02_cap_le_max : forall v m, (Qmin' v m <= m)%Q /\ (Qmin' v m <= v)%Q.
Proof. intros; split; [apply Qmin'_le_r|apply Qmin'_le_l]. Qed.
Theorem C02_round2_hundredths : forall x, exists z : Z, (round2 x == z # 100)%Q.
Proof. exact round2_hundredths. Qed.
Theorem C02_round_nearest : forall x,
  (inject_Z (round_half_even x) - (1#2) <= x /\ x <= inject_Z (round_half_even x) + (1#2))%Q.
Proof. exact round_half_even_near. Qed.

(* non-vacuity: base 100, +10% and +20% post_percent on a non-stackable
   attribute from a non-immune source (penalised chain, strongest first), then
   a +5 addition: 100 * (1.2) * (1 + 0.1 * pen1) + ... computed by the model *)
Example C02_nonvacuous :
  let pen := [1%Q; (1#2)%Q] in
  Qred (combine_mods pen true 100%Q [mkGmod 9%Z (1#10)%Q true 1%Z None; mkGmod 9%Z (2#10)%Q true 1%Z None;
                                     mkGmod 4%Z 5%Q false 1%Z None])
  = Qred ((100 + 5) * ((1 + (2#10)) * (1 + (1#10) * (1#2))))%Q.
Proof. vm_compute. reflexivity. Qed.

Print Assumptions C02_penalizable_operators.
Print Assumptions C02_penalty_immune_categories.
Print Assumptions C02_normalization.
Print Assumptions C02_operator_classes.
Print Assumptions C02_operator_precedence.
Print Assumptions C02_classes_partition.
Print Assumptions C02_limited_precision_attrs.
Print Assumptions C02_no_modification_no_change.
Print Assumptions C02_stacking_cutoff.
Print Assumptions C02_cap_le_max.
Print Assumptions C02_round2_hundredths.
Print Assumptions C02_round_nearest.
