(* C11 — Removal is complete (partial): the mechanism behind "no residue" —
   unregistering exactly what was registered restores a keyed storage,
   including the disappearance of keys created for it; unloading stops every
   effect of the item. Emptiness of all registers after tear-down of explored
   histories is compared between model and implementation. *)
From Coq Require Import List ZArith Bool.
From EosV Require Import lib.AList model.World model.Engine model.Ops proofs.Misc_p proofs.Status_p.
Import ListNotations.

Theorem C11_unregister_undoes_register :
  forall (V : Type) (veqb : V -> V -> bool), (forall a b, veqb a b = true <-> a = b) ->
  forall (s : list (nat * list V)) k v,
    (forall l, al_get neqb s k = Some l -> l <> [] /\ mem veqb l v = false) ->
    ks_rm_entry neqb veqb (ks_add_entry neqb veqb s k v) k v = s.
Proof. exact @ks_unregister_register. Qed.

Theorem C11_unloading_stops_every_effect : forall w i it w' msgs,
  get_item w i = Some it -> item_unloaded_msgs w i = (w', msgs) -> w_err w' = None ->
  exists it', get_item w' i = Some it' /\ i_running it' = [].
Proof. exact unloaded_msgs_clear_running. Qed.

Example C11_nonvacuous :
  ks_rm_entry neqb Nat.eqb (ks_add_entry neqb Nat.eqb [(1%nat, [5%nat])] 2%nat 7%nat) 2%nat 7%nat
  = [(1%nat, [5%nat])].
Proof. reflexivity. Qed.

Print Assumptions C11_unregister_undoes_register.
Print Assumptions C11_unloading_stops_every_effect.
