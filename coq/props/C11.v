(* C11 — Removal is complete (partial): the mechanism behind "no residue" —
   unregistering exactly what was registered restores a keyed storage,
   including the disappearance of keys created for it; unloading stops every
   effect of the item. Emptiness of all registers after tear-down of explored
   histories is compared between model and implementation. *)
From Coq Require Import List ZArith Bool.
From EosV Require Import lib.AList model.World model.Engine model.Ops proofs.Misc_p proofs.Status_p
     proofs.Frame_p proofs.Owner_p proofs.Cinv_p proofs.Runs_p model.Wf proofs.RunsC_p proofs.RunsK_p proofs.RunsD_p.
Import ListNotations.

Theorem C11_unregister_undoes_register :
  forall (V : Type) (veqb : V -> V -> bool), (forall a b, veqb a b = true <-> a = b) ->
  forall (s : list (nat * list V)) k v,
    (forall l, al_get neqb s k = Some l -> l <> [] /\ mem veqb l v = false) ->
    ks_rm_entry neqb veqb (ks_add_entry neqb veqb s k v) k v = s.
Proof. exact @ks_unregister_register. Qed.

Theorem C11_unloading_stops_every_effect : forall w i it w' msgs,
  get_item w i = Some it -> item_unloaded_msgs w i = (w', msgs) -> w_err w' = None ->
  exists it', get_item w' i = Some it' /\ i_running it' = [].
Proof. exact unloaded_msgs_clear_running. Qed.

(* removal through the message-discipline layer, for every fuel: a removed item
   that was held directly by a fit container ends unloaded, without container
   reference and running nothing; every other item keeps its container
   reference; no container, fleet, solar system or source is touched; the
   running-set invariant and the ownership invariant survive *)
Theorem C11_removed_item_is_inert : forall n s i,
  RJ (fst s) -> w_err (fst (remove_item n s i)) = None ->
  RJ (fst (remove_item n s i)) /\
  (forall x, get_item (fst (remove_item n s i)) i = Some x -> direct x ->
             i_loaded x = None /\ i_cont x = None /\ i_running x = []).
Proof.
  intros n s i R He. destruct (remove_RJ n s i R He) as (R' & P). split; [exact R'|].
  intros x Hx D. destruct (P x Hx D) as (Hl & Hc). repeat split; auto.
  destruct (proj1 R' i x (fun y => y) Hx D) as (C1 & _). now apply C1.
Qed.
Theorem C11_removal_touches_nothing_else : forall n s i,
  J (fst s) ->
  (forall j, fitcont (fst (remove_item (S n) s i)) j = if Nat.eqb j i then None else fitcont (fst s) j) /\
  structure (fst (remove_item (S n) s i)) = structure (fst s).
Proof.
  intros n s i Js. split; [exact (proj1 (remove_item_ownership n s i Js))|apply S_remove_item].
Qed.
(* after the container forgot it, no container of any fit lists the item *)
Theorem C11_removed_item_is_listed_nowhere : forall w i p,
  CI w -> fitcont w i = None -> ~ In i (members w p).
Proof. intros w i p (_ & M & _) H Hin. apply M in Hin. congruence. Qed.

(* the same for what the removed item held (flat worlds, proofs/RunsC_p.v): removal of a directly held item
   empties its autocharge dictionary, and everything that stays -- charges and autocharges of other items
   included -- keeps running exactly the table's set (KJ = running-set invariant for directly held items and
   for charges / autocharges, ownership, links child -> holder) *)
Theorem C11_removed_holder_keeps_no_autocharges : forall n s m mit,
  J (fst s) -> KK (fst s) -> CP (fst s) -> LS (fst s) -> get_item (fst s) m = Some mit -> direct mit ->
  w_err (fst (remove_item (S (S (S (S n)))) s m)) = None ->
  let w' := fst (remove_item (S (S (S (S n)))) s m) in
  KK w' /\ CP w' /\ LS w' /\
  exists mit', get_item w' m = Some mit' /\ i_loaded mit' = None /\ i_cont mit' = None /\ i_autos mit' = [] /\
               i_charge mit' = i_charge mit.
Proof.
  intros n s m mit Js K Cp Ls Hm D He.
  destruct (remove_dir n s m mit Js K Cp Ls Hm D He) as (K' & _ & (x & G & H1 & H2 & H3 & _ & _ & H6) & Cp' & Ls').
  split; [exact K'|split; [exact Cp'|split; [exact Ls'|]]]. exists x. repeat split; assumption.
Qed.
(* KJ also carries the links between items and what they hold (CP: whatever an item lists names it) and LS:
   a loaded directly held item is loaded from its fit's current source *)
Theorem C11_removal_keeps_charge_invariants : forall s i,
  KJ (fst s) -> (exists it, get_item (fst s) i = Some it /\ direct it) ->
  w_err (fst (remove_item F s i)) = None -> KJ (fst (remove_item F s i)).
Proof. exact remove_KJ. Qed.

Example C11_nonvacuous :
  ks_rm_entry neqb Nat.eqb (ks_add_entry neqb Nat.eqb [(1%nat, [5%nat])] 2%nat 7%nat) 2%nat 7%nat
  = [(1%nat, [5%nat])].
Proof. reflexivity. Qed.

Print Assumptions C11_unregister_undoes_register.
Print Assumptions C11_unloading_stops_every_effect.
Print Assumptions C11_removed_item_is_inert.
Print Assumptions C11_removal_touches_nothing_else.
Print Assumptions C11_removed_item_is_listed_nowhere.
Print Assumptions C11_removed_holder_keeps_no_autocharges.
Print Assumptions C11_removal_keeps_charge_invariants.
