(* C08 — Results do not depend on notification order. In the model the services
   of a fit keep separate state: the calculator works on [derived], stat and
   restriction registers are folds over the same publications, none of them
   can change the base world. (partial: hash iteration order of CPython sets is
   explored through the hooks, not modelled.) *)
From Coq Require Import List ZArith QArith Permutation.
From EosV Require Import gen.T_eos model.World model.Calc model.Ops proofs.Misc_p proofs.Perm_p.
Import ListNotations.

Theorem C08_independent_subscribers :
  forall (M A B : Type) (f : A -> M -> A) (g : B -> M -> B) (choice : M -> bool) msgs s,
    fold_left (fun s m => if choice m then deliver_fg f g s m else deliver_gf f g s m) msgs s
    = (fold_left f msgs (fst s), fold_left g msgs (snd s)).
Proof. exact @independent_subscribers. Qed.

Theorem C08_no_subscriber_reaches_the_world : forall x x' o,
  s_w x = s_w x' -> is_read o = false ->
  s_w (fst (step x o)) = s_w (fst (step x' o)) /\ snd (step_ev x o) = snd (step_ev x' o).
Proof. exact world_independent_of_derived. Qed.

(* hash iteration order: eos gathers the modifications of an attribute from sets and dicts; the value
   computed from them is the same for EVERY order in which they can be gathered (all operators, stacking
   penalty chains, minimum / maximum aggregation groups with their tie rules). Exact arithmetic: the
   model computes in Q where eos computes in binary floating point. The premise says the gathered values
   are in lowest terms, which is how [read_attr] stores every one of them ([Qred]). *)
Theorem C08_value_independent_of_gathering_order : forall pen hig base mods mods',
  Permutation mods mods' -> Forall (fun g => Qred (g_val g) = g_val g) mods ->
  (combine_mods pen hig base mods == combine_mods pen hig base mods')%Q.
Proof. exact combine_mods_perm. Qed.
Theorem C08_stored_value_independent_of_gathering_order : forall pen hig base mods mods',
  Permutation mods mods' -> Forall (fun g => Qred (g_val g) = g_val g) mods ->
  Qred (combine_mods pen hig base mods) = Qred (combine_mods pen hig base mods').
Proof. exact combine_mods_perm_red. Qed.
Theorem C08_any_gathered_list : forall pen hig base mods mods',
  Permutation mods mods' ->
  (combine_mods pen hig base (map normg mods) == combine_mods pen hig base (map normg mods'))%Q.
Proof. exact combine_mods_perm_norm. Qed.

(* non-vacuity: five modifications (two penalised multiplications, a maximum group with a tie between a
   penalised and a non-penalised member, an addition) change the base value, and do so identically when
   gathered in the opposite order *)
Definition c08_mods : list gmod :=
  [mkGmod ModOperator_post_mul (1#2) true ModAggregateMode_stack None;
   mkGmod ModOperator_post_mul (1#4) true ModAggregateMode_stack None;
   mkGmod ModOperator_post_percent (1#5) true ModAggregateMode_maximum (Some 7%Z);
   mkGmod ModOperator_post_percent (1#5) false ModAggregateMode_maximum (Some 7%Z);
   mkGmod ModOperator_mod_add (3#1) false ModAggregateMode_stack None].
Example C08_order_nonvacuous :
  let pen := [1; 1#2; 1#16]%Q in
  Forall (fun g => Qred (g_val g) = g_val g) c08_mods /\
  Qred (combine_mods pen true 100 c08_mods) = Qred (combine_mods pen true 100 (rev c08_mods)) /\
  ~ (combine_mods pen true 100 c08_mods == 100)%Q.
Proof.
  cbv zeta. split; [repeat constructor|]. split; [vm_compute; reflexivity|]. vm_compute. discriminate.
Qed.

Example C08_nonvacuous :
  fold_left (fun s m => if Nat.even m then deliver_fg plus max s m else deliver_gf plus max s m)
            (1 :: 2 :: 3 :: nil)%nat (0, 0)%nat = (6, 3)%nat.
Proof. reflexivity. Qed.

Print Assumptions C08_value_independent_of_gathering_order.
Print Assumptions C08_stored_value_independent_of_gathering_order.
Print Assumptions C08_any_gathered_list.
Print Assumptions C08_independent_subscribers.
Print Assumptions C08_no_subscriber_reaches_the_world.
