(* C08 — Results do not depend on notification order. In the model the services
   of a fit keep separate state: the calculator works on [derived], stat and
   restriction registers are folds over the same publications, none of them
   can change the base world. (partial: hash iteration order of CPython sets is
   explored through the hooks, not modelled.) *)
From Coq Require Import List.
From EosV Require Import model.World model.Ops proofs.Misc_p.

Theorem C08_independent_subscribers :
  forall (M A B : Type) (f : A -> M -> A) (g : B -> M -> B) (choice : M -> bool) msgs s,
    fold_left (fun s m => if choice m then deliver_fg f g s m else deliver_gf f g s m) msgs s
    = (fold_left f msgs (fst s), fold_left g msgs (snd s)).
Proof. exact @independent_subscribers. Qed.

Theorem C08_no_subscriber_reaches_the_world : forall x x' o,
  s_w x = s_w x' -> is_read o = false ->
  s_w (fst (step x o)) = s_w (fst (step x' o)) /\ snd (step_ev x o) = snd (step_ev x' o).
Proof. exact world_independent_of_derived. Qed.

Example C08_nonvacuous :
  fold_left (fun s m => if Nat.even m then deliver_fg plus max s m else deliver_gf plus max s m)
            (1 :: 2 :: 3 :: nil)%nat (0, 0)%nat = (6, 3)%nat.
Proof. reflexivity. Qed.

Print Assumptions C08_independent_subscribers.
Print Assumptions C08_no_subscriber_reaches_the_world.
