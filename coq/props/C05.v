(* C05 — Which effects run is a fixed function of state, run mode and effect
   category. Statements only; proofs in proofs/Status_p.v. *)
From Coq Require Import ZArith QArith List Bool.
From EosV Require Import lib.AList gen.T_eos model.World model.Status model.Engine model.Ops model.Switches model.Wf
     proofs.Status_p proofs.Owner_p proofs.Cinv_p proofs.Runs_p proofs.RunsC_p proofs.RunsK_p proofs.RunsD_p.
Import ListNotations.
Open Scope Z_scope.

(* the complete decision table: the implementation-shaped resolver equals the
   documented decision [spec_status] on every row of the finite domain
   (state x mode incl. unknown x category incl. unmapped x online effect? x
   default? x chance attribute? x online running?) *)
Theorem C05_table_complete : forall r, In r all_rows -> row_ok r = true.
Proof. exact table_complete_forall. Qed.

Theorem C05_table_size : length all_rows = 3456%nat.
Proof. vm_compute. reflexivity. Qed.

(* the decision reads nothing of an effect but its category and whether it has
   a chance attribute *)
Theorem C05_decision_inputs : forall st m eid e e' df orun,
  e_cat e = e_cat e' ->
  (match e_chance_attr e with Some _ => true | None => false end
   = match e_chance_attr e' with Some _ => true | None => false end) ->
  resolve_one st m eid e df orun = resolve_one st m eid e' df orun.
Proof. exact resolve_one_ext. Qed.

(* after the message helper re-resolved an item, its running set is exactly the
   table's (for every loaded item, every state/mode/type; no bound) *)
Theorem C05_update_establishes_table : forall w i it st statuses w' msgs,
  get_item w i = Some it -> item_state w i = Some st ->
  resolve_effects st it (item_effects w it)
                  (match item_type w it with Some t => t_default t | None => None end) None = Some statuses ->
  effects_update w i = (w', msgs) -> w_err w' = None ->
  exists it', get_item w' i = Some it' /\
              set_equiv (i_running it') (map fst (filter (fun p => snd p) statuses)).
Proof. exact effects_update_sets_table. Qed.

Theorem C05_unloaded_runs_nothing : forall w i it w' msgs,
  get_item w i = Some it -> item_unloaded_msgs w i = (w', msgs) -> w_err w' = None ->
  exists it', get_item w' i = Some it' /\ i_running it' = [].
Proof. exact unloaded_msgs_clear_running. Qed.

Theorem C05_charge_follows_container : forall w c m itc,
  get_item w c = Some itc -> cr_state (class_row_of (i_cls itc)) = StContainer ->
  i_cont itc = Some (PCharge m) \/ i_cont itc = Some (PAuto m) ->
  item_state w c = item_state_n 3 w m.
Proof. exact charge_follows_container. Qed.

(* user-facing switches: a side effect / ability reports the status it was set to *)
Theorem C05_side_effect_set_get : forall status eid e df orun,
  effect_state e = Some State_offline -> e_chance_attr e <> None ->
  resolve_one State_offline (side_effect_mode status) eid e df orun = SOk status.
Proof. exact side_effect_set_get. Qed.

Theorem C05_ability_set_get : forall is_default status eid e orun,
  effect_state e = Some State_active ->
  resolve_one State_active (ability_mode is_default status) eid e is_default orun = SOk status.
Proof. exact ability_set_get. Qed.

(* ---- every history: from the empty system, after any sequence of public
   operations that respects the caller obligations (fresh ids, existing fits,
   each source id defined once: op_okb2, evaluated by the extracted driver on
   every generated call) and in which no call ended in an internal error, the
   running set of every item held directly by a fit container (everything but
   charges and autocharges, whose state is their container's) is exactly what
   the decision table yields for the item's current state, run modes and type,
   and an unloaded item runs nothing. No bound on the history. ---- *)
Theorem C05_running_set_is_the_table_after_every_history : forall pen ops,
  ops_cleanb (init_sys pen) ops = true ->
  let w := s_w (run (init_sys pen) ops) in
  forall i it, get_item w i = Some it -> direct it ->
    (i_loaded it = None -> i_running it = []) /\
    (i_loaded it <> None -> forall r, expected w it = Some r -> set_equiv (i_running it) r).
Proof. exact running_is_table. Qed.

(* each single operation keeps the invariant (container consistency + running = table) *)
Theorem C05_every_operation_keeps_running_table : forall x o,
  INV (s_w x) -> op_okb2 (clear_err (s_w x)) o = true -> w_err (s_w (fst (step x o))) = None ->
  INV (s_w (fst (step x o))).
Proof. intros x o I H He. apply step_INV; [exact I|now apply op_okb2_ok|exact He]. Qed.

(* loading / unloading / adding / removing keep it for every fuel (no error afterwards) *)
Theorem C05_load_unload_keep_running_table : forall n s i,
  RJ (fst s) ->
  (w_err (fst (load n s i)) = None -> RJ (fst (load n s i))) /\
  (w_err (fst (unload n s i)) = None -> RJ (fst (unload n s i))).
Proof. intros n s i R. split; [now apply load_RJ|now apply unload_RJ]. Qed.

Definition c05_universe : universe :=
  mkUniverse []
    [(EffectId_online, mk_effect 4 false); (2001, mk_effect 1 false); (2002, mk_effect 5 false)]
    [(3100, mkType None None [] [] None []); (3200, mkType None None [] [EffectId_online; 2001; 2002] (Some 2001) [])]
    [].
Definition c05_demo : list op :=
  [ ODefSource 1 c05_universe; ONewSolsys 1; ONewItem 10 CShip 3100 1 0; ONewItem 12 CModHigh 3200 1 0;
    ONewFit 1 2; OSource 1 (Some 1%nat); OSolsysAdd 1 1; OSlot 1 SlShip (Some 10%nat);
    ORackAppend 1 RHigh 12; OState 12 State_active; OMode 12 2002 EffectMode_force_run;
    OState 12 State_online ]%Z.
Example C05_history_nonvacuous :
  ops_cleanb (init_sys []) c05_demo = true /\
  let w := s_w (run (init_sys []) c05_demo) in
  match get_item w 12 with
  | Some it => i_loaded it = Some 1%nat /\ i_running it = [EffectId_online; 2002] /\
               expected w it = Some [EffectId_online; 2002]
  | None => False
  end.
Proof. vm_compute. repeat split. Qed.

(* ---- charges and autocharges, every history. Their state is the state of the
   item that holds them (C05_charge_follows_container), so the table is read at
   that state: [expected_st w st cit] is the decision table's running set for
   state [st], the charge's own run modes and its type. The histories are those
   of the theorem above that additionally stay inside [op_okb3] (model/Wf.v):
   no charge or autocharge type defines an autocharge of its own and effect
   lists are duplicate-free (flat worlds), a charge is put into a directly held
   item, and a new solar system gets an unused id (what adding a fit to a solar
   system and switching a source need -- the item lists about to be loaded are
   duplicate-free and unloaded -- is proved from the invariants, not assumed).
   The extracted driver evaluates op_okb3
   on every generated call (counter OpOutsideFlatHyp). No bound on the history.
   Outside flat worlds the statement is false of the pinned code before
   ba32e94 (finding F16, scenario nested_autocharge). ---- *)
Theorem C05_charges_run_the_table_after_every_history : forall pen ops,
  ops_clean3b (init_sys pen) ops = true ->
  let w := s_w (run (init_sys pen) ops) in
  forall c cit, get_item w c = Some cit -> ~ direct cit ->
    (i_loaded cit = None -> i_running cit = []) /\
    (i_loaded cit <> None -> forall st r, item_state w c = Some st -> expected_st w st cit = Some r ->
                             set_equiv (i_running cit) r).
Proof. exact charges_run_the_table. Qed.

(* ---- every item, in one statement (the two theorems above combined) ---- *)
Theorem C05_every_item_runs_the_table_after_every_history : forall pen ops,
  ops_clean3b (init_sys pen) ops = true ->
  let w := s_w (run (init_sys pen) ops) in
  forall i it, get_item w i = Some it ->
    (i_loaded it = None -> i_running it = []) /\
    (i_loaded it <> None -> forall st r, item_state w i = Some st -> expected_st w st it = Some r ->
                            set_equiv (i_running it) r).
Proof. exact every_item_runs_the_table. Qed.

(* ... and in those worlds a charge / autocharge holds nothing itself and is on a fit whenever loaded *)
Theorem C05_charges_are_leaves_after_every_history : forall pen ops,
  ops_clean3b (init_sys pen) ops = true ->
  let w := s_w (run (init_sys pen) ops) in
  forall c cit, get_item w c = Some cit -> ~ direct cit ->
    i_charge cit = None /\ i_autos cit = [] /\ (i_loaded cit <> None -> item_fit w c <> None).
Proof. exact charges_are_leaves. Qed.

(* each single operation keeps the larger invariant *)
Theorem C05_every_operation_keeps_charge_running_table : forall x o,
  KINV (s_w x) -> op_okb2 (clear_err (s_w x)) o = true -> op_okb3 (clear_err (s_w x)) o = true ->
  w_err (s_w (fst (step x o))) = None -> KINV (s_w (fst (step x o))).
Proof. intros x o I H2 H3 He. apply step_KINV; [exact I|now apply op_okb2_ok|now apply op_okb3_ok|exact He]. Qed.

(* non-vacuity: a module (type 3200) whose effect 2005 defines an autocharge of type 3300, loaded with a
   charge of type 3400 and switched to active: the charge runs its passive effect, the autocharge its passive
   effect and its default active effect -- the table at the module's state *)
Definition c05c_universe : universe :=
  mkUniverse []
    [(EffectId_online, mk_effect 4 false); (2001, mk_effect 1 false); (2002, mk_effect 5 false);
     (2005, mkEffect 1 None None [] false (Some 900)); (2010, mk_effect 0 false); (2011, mk_effect 1 false);
     (2012, mk_effect 0 false)]
    [(3100, mkType None None [] [] None []);
     (3200, mkType None None [(900, (3300 # 1)%Q)] [EffectId_online; 2001; 2002; 2005] (Some 2001) []);
     (3300, mkType None None [] [2010; 2011] (Some 2011) []);
     (3400, mkType None None [] [2012; 2011] None [])]
    [].
Definition c05c_demo : list op :=
  [ ODefSource 1 c05c_universe; ONewSolsys 1; ONewItem 10 CShip 3100 1 0; ONewItem 12 CModHigh 3200 1 0;
    ONewItem 13 CCharge 3400 0 0;
    ONewFit 1 2; OSource 1 (Some 1%nat); OSolsysAdd 1 1; OSlot 1 SlShip (Some 10%nat);
    ORackAppend 1 RHigh 12; OCharge 12 (Some 13%nat); OState 12 State_active ]%Z.
Example C05_charge_history_nonvacuous :
  ops_clean3b (init_sys []) c05c_demo = true /\
  let w := s_w (run (init_sys []) c05c_demo) in
  match get_item w 13, get_item w 1000 with
  | Some ch, Some au =>
    i_cls ch = CCharge /\ i_loaded ch = Some 1%nat /\ item_state w 13 = Some State_active /\
    i_running ch = [2012] /\ expected_st w State_active ch = Some [2012] /\
    i_cls au = CAutocharge /\ i_loaded au = Some 1%nat /\ item_state w 1000 = Some State_active /\
    i_running au = [2010; 2011] /\ expected_st w State_active au = Some [2010; 2011]
  | _, _ => False
  end.
Proof. vm_compute. repeat split. Qed.

(* non-vacuity: a module type with an online, an active default and an overload
   effect; at state active exactly online + default run *)
Example C05_nonvacuous :
  let effs := [(EffectId_online, mk_effect 4 false); (2001, mk_effect 1 false); (2002, mk_effect 5 false);
               (2003, mk_effect 1 false)] in
  let it := new_item CModHigh 3200 State_active 0 in
  resolve_effects State_active it effs (Some 2001) None
  = Some [(EffectId_online, true); (2001, true); (2002, false); (2003, false)].
Proof. vm_compute. reflexivity. Qed.

Print Assumptions C05_table_complete.
Print Assumptions C05_table_size.
Print Assumptions C05_decision_inputs.
Print Assumptions C05_update_establishes_table.
Print Assumptions C05_unloaded_runs_nothing.
Print Assumptions C05_charge_follows_container.
Print Assumptions C05_side_effect_set_get.
Print Assumptions C05_ability_set_get.
Print Assumptions C05_running_set_is_the_table_after_every_history.
Print Assumptions C05_every_operation_keeps_running_table.
Print Assumptions C05_load_unload_keep_running_table.
Print Assumptions C05_charges_run_the_table_after_every_history.
Print Assumptions C05_charges_are_leaves_after_every_history.
Print Assumptions C05_every_operation_keeps_charge_running_table.
Print Assumptions C05_every_item_runs_the_table_after_every_history.
