(* C19 — shapes shared by the model of the modifier-info conversion
   (model/ModInfo.v) and its specification (model/ModInfoSpec.v).
   Nothing here depends on the tables generated from the source.

   Effect rows reach ModBuilder.build with 'modifierInfo' already decoded
   (JsonDataHandler: json.load), so an entry is a JSON value: normally a dict
   whose values are again JSON values. *)
From Coq Require Import ZArith QArith Bool String Ascii List.
Import ListNotations.
Local Open Scope Z_scope.

(* A JSON value as the converter can tell them apart.
   VFloat q   : a finite binary64 value, q its exact rational value
   VNaN, VInf : the non-finite floats (json.load accepts NaN / Infinity)
   VUnhashable: a list or a dict (never equal to a dict key; hashing it raises) *)
Inductive value : Type :=
| VInt (z : Z)
| VBool (b : bool)
| VFloat (q : Q)
| VNaN
| VInf
| VStr (s : string)
| VNone
| VUnhashable.

(* An entry of the list: a dict (association list, first binding wins; an
   absent key is "missing") or anything else (string, number, None, list). *)
Inductive entry : Type :=
| EDict (kvs : list (string * value))
| ENotDict.

Fixpoint assoc {A : Type} (k : string) (l : list (string * A)) : option A :=
  match l with
  | [] => None
  | (k', a) :: r => if String.eqb k k' then Some a else assoc k r
  end.

Definition field (e : entry) (k : string) : option value :=
  match e with EDict kvs => assoc k kvs | ENotDict => None end.

(* DogmaModifier as built by the handlers: the four enum fields by their
   integer value, ids as integers, None as None. *)
Record modifier : Type := mkMod {
  m_filter : Z;
  m_extra : option Z;      (* affectee_filter_extra_arg *)
  m_domain : Z;
  m_attr : Z;              (* affectee_attr_id *)
  m_operator : Z;
  m_aggr_mode : Z;
  m_aggr_key : option Z;
  m_affector : Z           (* affector_attr_id *)
}.

(* ---- CPython int(str), base 10, for ASCII strings ---------------------
   optional whitespace, optional sign, digits with single underscores between
   digits, optional whitespace.  (Unicode digits / spaces and the 4300-digit
   limit of CPython >= 3.11 are not modelled.) *)
Definition digit_val (a : ascii) : option Z :=
  match a with
  | "0" => Some 0 | "1" => Some 1 | "2" => Some 2 | "3" => Some 3
  | "4" => Some 4 | "5" => Some 5 | "6" => Some 6 | "7" => Some 7
  | "8" => Some 8 | "9" => Some 9 | _ => None
  end%char.

Definition is_space (a : ascii) : bool :=
  match a with
  | " " | "009" | "010" | "011" | "012" | "013" => true
  | _ => false
  end%char.

Definition is_underscore (a : ascii) : bool :=
  match a with "_" => true | _ => false end%char.

Fixpoint all_space (s : string) : bool :=
  match s with
  | EmptyString => true
  | String a r => is_space a && all_space r
  end.

(* after at least one digit; after_us: the previous character was '_' *)
Fixpoint int_body (s : string) (acc : Z) (after_us : bool) : option Z :=
  match s with
  | EmptyString => if after_us then None else Some acc
  | String a r =>
    match digit_val a with
    | Some d => int_body r (10 * acc + d) false
    | None =>
      if after_us then None
      else if is_underscore a then int_body r acc true
      else if is_space a then (if all_space r then Some acc else None)
      else None
    end
  end.

Definition int_unsigned (s : string) : option Z :=
  match s with
  | EmptyString => None
  | String a r =>
    match digit_val a with Some d => int_body r d false | None => None end
  end.

Definition int_signed (s : string) : option Z :=
  match s with
  | String "+"%char r => int_unsigned r
  | String "-"%char r => option_map Z.opp (int_unsigned r)
  | _ => int_unsigned s
  end.

Fixpoint lstrip (s : string) : string :=
  match s with
  | String a r => if is_space a then lstrip r else s
  | EmptyString => s
  end.

Definition int_of_str (s : string) : option Z := int_signed (lstrip s).
